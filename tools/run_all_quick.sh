#!/bin/sh
# Runs every registered quick check from /verif against /repo, sequentially; prints one line each.
cd /verif || exit 2
./check build || exit 2
for id in $(python3 -c "import json;print(' '.join(c['property_id'] for c in json.load(open('MANIFEST.json'))['checks']))"); do
    s=$(date +%s)
    ./check "$id" quick > "/tmp/vmc_quick_$id.log" 2>&1
    rc=$?
    e=$(date +%s)
    echo "$id exit=$rc wall=$((e-s))s $(grep -c '^VIOLATION' /tmp/vmc_quick_$id.log) violation(s) $(grep -c '^KNOWN-FINDING' /tmp/vmc_quick_$id.log) known $(grep -c '^MACHINERY' /tmp/vmc_quick_$id.log) machinery"
done
python3 tools/validate.py | grep -v "evidence ok"

#!/usr/bin/env python3
"""Prints the prompt for an independent 'seeded change' agent: property text only."""
import json, sys
name = sys.argv[1]
ids = sys.argv[2:]
props = {json.loads(l)["id"]: json.loads(l) for l in open("/verif/properties.jsonl")}
out = []
out.append(f"""You are testing how well a verification effort detects regressions in the Rust project veryl-lang/veryl (a hardware description language toolchain: parser, analyzer, SystemVerilog emitter, formatter, simulator, synthesizer, language server, incremental build cache). You work ALONE in your own scratch git worktree; you know nothing about the verification machinery and must not look for it (do not read anything under /verif or /work, and do not touch /repo except through the worktree command below).

Setup (run first):
  mkdir -p /tmp/mut/{name} && git -C /repo worktree add --detach /tmp/mut/{name}/repo HEAD
  touch /tmp/mut/{name}/repo/crates/parser/src/generated/* /tmp/mut/{name}/repo/crates/migrator/src/generated/*   # avoids a 1-hour parser regeneration
  export CARGO_NET_OFFLINE=true CARGO_TARGET_DIR=/tmp/mut/{name}/target CARGO_BUILD_JOBS=6
The sandbox is offline; the machine is shared with other jobs (builds are slow: a cold `cargo test -p <crate>` build can take 20-60 minutes; plan for few builds, prefer small crates, and build only what you need with -p).

Below are {len(ids)} semantic properties of veryl that should always hold. For EACH property, produce ONE change to the veryl source (in your worktree, under crates/) that BREAKS the property while (a) still compiling, and (b) still passing the repository's existing test suite (at minimum `cargo test -p <every crate you touched> --offline`, and the `veryl-tests` crate (crates/tests) when your change can affect emitted SystemVerilog/formatting/source maps of the files in testcases/ — run them and report the result honestly; a change that fails an existing test is useless). The change must be REALISTIC — the kind of slip a maintainer could make in a refactoring or optimisation (wrong constant, off-by-one, dropped branch, swapped operands, stale state not cleared, missing sign extension, an ordering of two writes, a check moved after the action it guards ...) — and it must need something SPECIFIC to manifest: a particular interleaving, a crash or fault at a particular point, a multi-step sequence of operations, an unusual input (particular width, signedness, multi-byte text, option combination), or two cooperating sites that each look fine alone. NOT something ordinary use or the existing tests expose at once, and not a blatant sabotage.

For each change also write a DEMONSTRATION: a small Rust test, program or shell script that FAILS (or visibly shows the wrong behaviour) with the change applied and PASSES without it, run both ways by you.

Deliverables, per property <ID>, in /tmp/mut/{name}/out/<ID>/ :
  patch.diff   (git -C /tmp/mut/{name}/repo diff, ONLY that property's change; paths relative to the repo root so that `git apply` works in another checkout)
  demo/        (the demonstration + a README.md with the exact commands to run it and the outputs you observed with and without the change)
  meta.json    {{"property": "<ID>", "summary": "...what was changed...", "needs_to_manifest": "...the specific input/sequence/schedule/fault...", "tests_run": ["commands..."], "tests_result": "..."}}
Work on one property at a time: make the change, build, run tests + demo, save the deliverables, then `git -C /tmp/mut/{name}/repo checkout -- .` (and remove any files you added) before the next one. When all are done KEEP the worktree (clean), the target dir and out/. Your final message: for each property, 3-5 lines: what you changed, what it needs to manifest, tests run and their result, where the deliverables are. If you could not produce a valid change for a property, say so plainly.

THE PROPERTIES
""")
for i in ids:
    p = props[i]
    out.append(f"--- {i}: {p['title']}\nStatement: {p['statement']}\nQuantified over: {p['quantifier']['text']}\nWhy the existing tests cannot settle it: {p['why_tests_cant']}\nCode it is anchored in: {', '.join(p['anchors']['files'])}\nMechanisms meant to make it hold: {'; '.join(m.get('name','')+' ('+m.get('where','')+')' for m in p['anchors']['mechanism'])}\n")
print("\n".join(out))

#!/usr/bin/env python3
"""Validates MANIFEST.json and every evidence file against the schemas in /root/.vp."""
import json, sys, glob, os
try:
    import jsonschema
except ImportError:
    sys.path.insert(0, "/opt/veriftools/pyvenv/lib/python3.11/site-packages")
    import jsonschema
ROOT = os.path.dirname(os.path.dirname(os.path.abspath(__file__)))
ok = True
ms = json.load(open("/root/.vp/MANIFEST.schema.json"))
m = json.load(open(os.path.join(ROOT, "MANIFEST.json")))
try:
    jsonschema.validate(m, ms)
    print("MANIFEST ok:", len(m["checks"]), "checks")
except Exception as e:
    ok = False
    print("MANIFEST INVALID:", e)
es = json.load(open("/root/.vp/EVIDENCE.schema.json"))
claimed = {c["property_id"]: c for c in m["checks"]}
for pid, c in claimed.items():
    p = os.path.join(ROOT, c["evidence_file"])
    if not os.path.exists(p):
        print("evidence missing:", pid)
        ok = False
        continue
    d = json.load(open(p))
    try:
        jsonschema.validate(d, es)
        if d["level"] != c["level_claimed"]["category"]:
            print("LEVEL MISMATCH", pid, d["level"], c["level_claimed"]["category"]); ok = False
        print("evidence ok:", pid, d["tier"], d["level"], "wall", d["wall_s"], "viol", d.get("violations"))
    except Exception as e:
        ok = False
        print("evidence INVALID:", pid, str(e)[:300])
na = {x["property_id"] for x in m.get("not_applicable", [])}
allp = {json.loads(l)["id"] for l in open(os.path.join(ROOT, "properties.jsonl"))}
if (set(claimed) | na) != allp or (set(claimed) & na):
    print("property partition wrong:", allp - set(claimed) - na, set(claimed) & na); ok = False
sys.exit(0 if ok else 1)

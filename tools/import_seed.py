#!/usr/bin/env python3
"""import_seed.py <verifier result dir> <seed name>: copies a confirmed seeded change into /verif/seeded/<name>/"""
import json, os, shutil, sys
src, name = sys.argv[1], sys.argv[2]
dst = os.path.join("/verif/seeded", name)
os.makedirs(dst, exist_ok=True)
for f in ("patch.diff",):
    if os.path.exists(os.path.join(src, f)):
        shutil.copy(os.path.join(src, f), dst)
if os.path.isdir(os.path.join(src, "demo")):
    shutil.copytree(os.path.join(src, "demo"), os.path.join(dst, "demo"), dirs_exist_ok=True)
m = json.load(open(os.path.join(src, "meta.json")))
m.setdefault("produced_by", "independent agent that saw only the property text")
m["confirmed_by"] = "verifier agent in a private worktree + harness copy (steps: apply, build, repo tests of touched crates, demo with/without, vmc check quick[/thorough])"
json.dump(m, open(os.path.join(dst, "meta.json"), "w"), indent=1)
rp = os.path.join(src, "replays")
if os.path.isdir(rp):
    for root, _, files in os.walk(rp):
        for f in sorted(files)[:1]:
            shutil.copy(os.path.join(root, f), os.path.join(dst, "detected_replay.json"))
            break
print(name, "detected_by:", m.get("detected_by"))

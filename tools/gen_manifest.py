#!/usr/bin/env python3
"""Generates /verif/MANIFEST.json from the table below (one entry per claimed property).

Run after adding a check: python3 tools/gen_manifest.py && python3 tools/validate.py
"""
import json, os, sys

ROOT = os.path.dirname(os.path.dirname(os.path.abspath(__file__)))
ALL = ["C%02d" % i for i in range(1, 37)]

ENGINES = [
    {"name": "E1-finite-family", "path": "vmc/crates/vmc/src/checks/", "kind_free_text": "exhaustive enumeration of a finite, size-bounded generated family through the real crates (one file per property)"},
    {"name": "E2-lockstep-product", "path": "vmc/crates/vmc/src/checks/c01.rs", "kind_free_text": "lock-step explicit-state BFS over the product of N machines (real simulator engines, reference SV interpreter, netlist evaluator) over all input letters with path re-execution; all short sequences without dedup"},
    {"name": "E5-schedule", "path": "vmc/crates/vmc/src/checks/c32.rs", "kind_free_text": "exhaustive enumeration of schedules of the real program: dispatch orders x worker pop schedules (hook-owned), process interleavings at system-call granularity (ptrace-owned)"},
    {"name": "E6-differential", "path": "vmc/crates/vmc/src/checks/c17.rs, c18.rs, c36.rs", "kind_free_text": "exhaustive enumeration of a finite input space through k implementations / a reference model with comparison of observables"},
    {"name": "E3-history-bfs", "path": "vmc/crates/vmc/src/checks/c29.rs, c04.rs", "kind_free_text": "explicit-state BFS over operation histories on the real implementation (library or CLI), state dedup by canonical on-disk snapshot, reference model / fresh-cache twin as oracle"},
    {"name": "E4-crash-damage", "path": "vmc/crates/vmc/src/checks/c05.rs", "kind_free_text": "every mutating system call of the real binary (strace) x SIGKILL before it, every byte/truncation/deletion of every .build file; recovery compared with a clean build"},
]

# id -> dict(level, text, note, technique, engine, design_ref, thorough(bool), replay(bool))
CHECKS = {}

def add(pid, level, technique, text, note, engine="E1-finite-family", thorough=True, replay=True):
    CHECKS[pid] = dict(level=level, technique=technique, text=text, note=note, engine=engine, thorough=thorough, replay=replay)

add("C01", "model_checking",
    "lock-step explicit-state BFS over the full reachable product state space of (reference SV interpreter on the emitted text, real veryl simulator) for every member of a finite design family x 8 clock/reset configurations; plus all input sequences of length <= L without state merging",
    "Every member of a generated design family (all binary/unary operators x width pairs x signedness, context-width nests, selects, casts, if/case/switch/for, registers/FSMs/arrays/gated clocks, explicit clock/reset port types, functions, structs, generate, instances, interfaces; 68 designs quick / 214 thorough) is analysed and emitted by the real analyzer/emitter under each of the 8 clock_type x reset_type settings, and the emitted text is executed by an independent SystemVerilog interpreter (R2) in lock-step with the real veryl_simulator (Config derived as cmd_test.rs does): BFS over all input letters (incl. a re-reset letter) with state key = all variables of both sides + last letter, outputs compared before and after every active edge, nothing may change on the inactive edge. A CLI leg runs generated native testbenches through the real `veryl test` under each [build] setting and compares the printed trace with R2's trace of the SV the same run emitted.",
    "Trusted base: R2 (vmc/crates/refmodels/src/svref, ~6100 lines, no code shared with veryl; IEEE 1800 expression semantics from R1 bits) stands in for a standard SystemVerilog simulator, which the sandbox does not have. 2-state stimulus; x/z bits on the SV side are masked and counted. Data inputs <= 4 bits per design. The veryl side is the Cranelift JIT (engine agreement is C02).",
    engine="E2-lockstep-product")
add("C04", "model_checking",
    "explicit-state BFS over edit/command histories of the real veryl CLI with a fresh-cache twin as oracle (bounded rounds, state dedup, exhaustive within bound)",
    "Rounds of (<= k edits on distinct files from an alphabet of set-variant/old-mtime-set/touch/remove/rename/Veryl.toml flips/output deletion, then one of build, check, build --check, test, clean) are explored breadth-first from the built base project on the real `veryl` binary; every command transition is executed twice from the same snapshot - with the existing fragment cache and on a twin whose .build/cache was removed - and exit status, diagnostic blocks (multiset) and every output file are compared. Successor states are deduplicated on a canonical key that abstracts absolute time stamps to the order relations veryl evaluates. quick: 2 rounds over 3 files; thorough: 3 rounds over 5 files incl. tests/examples.",
    "Trusted base: the twin construction (same binary, same snapshot, cache removed), the diagnostic-block parser, the canonical key abstraction (DESIGN.md Appendix D). Children run in a private mount namespace so that absolute paths are identical across workers. A time budget may stop a round early (reported, exhaustive=false).",
    engine="E3-history-bfs")
add("C05", "fault_enumeration",
    "exhaustive crash-point (every mutating syscall, SIGKILL via strace injection) and single-file damage enumeration on the real binary, recovery compared with a clean build",
    "Crash: `veryl <cmd>` is traced once under strace; every mutating system call of its main thread is a crash point; for each point the command is re-run from the same snapshot and killed immediately before that call, an optional follow-up edit (revert with preserved old mtime / new mtime / edit another file) is applied, `veryl build` runs, and exit status, diagnostics and every output of a clean build of the same sources must be reproduced. Damage: every file under .build x {delete, truncations, XOR of every byte position, swap with another valid blob}, then build/check: no panic and the clean build's result.",
    "Trusted base: strace's injection (the process dies before the n-th call of that syscall), a process death cannot tear one write(2), only the main thread mutates files. Needs /usr/bin/strace and permission to ptrace (present in the sandbox). Budget caps are reported.",
    engine="E4-crash-damage")
add("C06", "exploration",
    "exhaustive enumeration of (file content x preceding-file context x capture offset x restore offset) over a catalogue of declaration kinds and the corpus; cold run vs warm run with the file restored from its fragment, full analyzer-state dumps compared",
    "Cases = 35 catalogue entries (one per declaration kind / combination the fragment codec must carry: generics, imports, $sv references, attributes, unsafe blocks, doc comments, enums, structs, modports, bind, connect, embed/include, clock domains, every literal form; each with an optional dependency file and a user file) plus the 90 analysable corpus files; contexts = {0,1,2} fixed pool files in front x dependency order, plus a tail file. For every capture context i and restore context j a cold run of j is compared with a warm run of j in which the file is restored from the bytes captured under i (fresh threads): byte equality, after pass1 and after post_pass1, of the analyzer's public dumps and of a deep dump of every symbol with all id-bearing fields, references, token scopes, literals, scope tree, attributes, unsafe blocks, definitions, doc comments, text table and id counters; equal diagnostics of later passes; equal emitted SV of every freshly parsed file. A refusal is accepted only at capture.",
    "Trusted base: the canonicalisation of {:?} dumps (interned ids replaced by what they denote, map entries sorted). Dependency projects and $std, damaged fragments (C05) and the CLI level (C04) are not in this check.")
add("C10", "exploration",
    "exhaustive enumeration of all lexeme strings up to length 3/4, all corpus prefixes and single-character deletions, nesting ladders to depth 2^17 and long flat runs, each parsed by the real parser in a guarded subprocess",
    "(a) all strings of <= 3 lexemes over an 88-lexeme alphabet (keywords, every operator class, comment/string/escape openers, multi-byte characters, NUL, CR, BOM, malformed number forms), joined with and without blanks, and length 4 over a 25-lexeme core; a metamorphic shift oracle (the same string behind a multi-byte comment must shift every span by the comment's byte length); (b) every prefix and every single-character deletion of the 94 corpus files; (c) nesting ladders for 29 constructs at depths 2^0..2^17 plus bisection to the exact accept/reject depth; (d) 31 flat constructs of 10^3..10^5 tokens. Every parse runs in a worker subprocess on an 8 MiB thread with a wall cap; on a worker death the culprit is isolated and re-run alone. Oracle: Ok or Err(ParserError) whose label spans lie in [0, len+1] on character boundaries; no panic, abort, stack overflow or timeout. A stack-overflow candidate is confirmed with a release-profile parser binary before it is reported.",
    "Trusted base: the worker protocol. The harness is built at opt-level 1 (deeper frames than release), hence the confirmation rule. Invalid UTF-8 cannot be passed (the API takes &str).")
add("C11", "exploration",
    "exhaustive enumeration of all single token edits of the corpus (and edit pairs on small files), an option axis and all small multi-file project shapes through the real pipeline in guarded subprocesses; any panic/abort/overflow is a violation",
    "Single edits of all 228 files of testcases/veryl and testcases/error (delete / duplicate a token, replace an identifier by every other identifier of the file, an undefined one or a raw keyword identifier, replace numbers and widths by corner values, swap adjacent tokens, drop a whole statement/declaration/port/arm: 188 417 variants), edit pairs on the 20 smallest files, the unchanged files under 6 build/format option sets, and every acyclic reference graph over 3-4 declarations (module, package, generic package; instance, const path, import, generic argument edges) in every assignment to 2-3 files and every file order. Each variant that still parses runs pass1, format, post_pass1, pass2, post_pass2, emit (when no error) and diagnostic rendering on a fresh 8 MiB thread in a worker subprocess. New crash signatures are minimised automatically and re-run with the real veryl binary.",
    "Trusted base: the worker protocol. Signatures name the enclosing function of the panic site (stable against line shifts). Stack overflows are confirmed on a 16x stack (unbounded recursion) - a release-profile reproduction is not automated. Timeouts are observations.")
add("C13", "exploration",
    "exhaustive enumeration of a finite design x comment-slot x layout-configuration family through the real emitter; every decoded source-map entry checked against the raw texts",
    "90 testcases plus a generated family (6 base designs x every comment slot x 9 comment kinds incl. multi-byte and multi-line) x 16 layout configurations go through the real Parser/Analyzer/Emitter/SourceMap; the map is decoded twice (sourcemap crate and an own VLQ reader) and for every entry the output text at (line, column) must start with the entry's name and the source position must be the start of a token or comment found by an own scanner of the raw source; entries are ordered; every output line showing a source identifier has an entry.",
    "Trusted base: the own source scanner and VLQ decoder. Columns are character columns. Cases where the emitter itself panics are counted as skipped (that is C11's subject).")
add("C14", "exploration",
    "exhaustive enumeration of a finite family of abstract combinational designs rendered to Veryl and analysed by the real analyzer, against a reference bit-dependency graph computed from the abstract design (both directions)",
    "Designs over bits a[0] a[1] b[0] b[1] c, a data input and a condition input with <= 3 processes with disjoint driven bits: assign of const/input/bit/&/reduction/ternary/function call/copy/concatenation; always_comb with reassignment, read-before-write, if/else on input or variable bit, pre-assignment plus conditional overwrite; always_ff; instances of feed-through, registered, constant and partial feed-through children; ring families (21 316 designs quick, 158 112 thorough, latch-free and singly driven = the region in which the repository's non-ignored tests assert exactness). Reference: per-process symbolic evaluation in statement order (a read sees the latest write on the path), if merges arms and adds condition reads; loop iff the bit graph has a cycle. A combinational_loop diagnostic must be present iff the reference has a cycle. The reference must first reproduce 22 transcribed repository tests.",
    "Trusted base: the reference bit graph (validated against the repository's own non-ignored tests at the start of every run). Two sub-families reach classes the maintainers themselves list as inexact (#[ignore = comb-loop migration ...]); they are known findings.")
add("C15", "exploration",
    "exhaustive enumeration of a finite family of abstract write/branch designs rendered to Veryl and analysed by the real analyzer, against per-bit writer sets and per-path write sets computed from the abstract design (both directions)",
    "Signals x: logic<4>, y: logic<2> (var or output port), inputs c0 c1 s. Families: 2-3 simple writers (assign, instance output, always_comb, always_ff x wrapper {plain, if-no-else, if/else other bit, case-no-default, for, if/else both, switch both} x target range) plus a reader; one always_comb/always_ff whose body is EVERY statement tree with n leaves (ranged writes, for with constant bounds; if/else-if/case/switch with 1-2 arms with and without default; nesting <= 2) x 7 contexts; partial writes of an output port (27 375 designs quick, 1 074 503 thorough). Oracle: multiple_assignment iff some bit has two processes; uncovered_branch iff an always_comb writes a bit on some but not all paths; unassign_variable iff nothing is assigned, a read bit is never assigned, or a bit is read before it is assigned on the same path. The reference must first reproduce 36 transcribed repository tests.",
    "Trusted base: the reference (validated against the repository's own tests at the start of every run). Where a block both latches and reads a bit the third clause is ambiguous and not compared (counted). Designs are analysed in batches and every disagreeing design again alone; only stand-alone results are reported.")
add("C16", "exploration",
    "exhaustive enumeration of a finite family of abstract two-clock-domain designs rendered to Veryl and analysed by the real analyzer, against a reference domain propagation computed from the abstract design (both directions)",
    "One module with clocks/resets in 'a and 'b, annotated and un-annotated inputs/outputs, variables and an interface instance each annotated 'a, 'b or not at all, and 1-3 items in textual order (assign of a signal or &, always_comb with if, always_ff on clock a or b, instance of a one-domain child, instance of a two-domain child), each optionally inside unsafe (cdc) (19 834 designs quick, 760 794 thorough). Reference: a signal has its explicit domain, else its driver's domain wherever the driver is placed, else the implicit domain; mismatch_clock_domain is expected iff some item outside unsafe (cdc) joins two different domains. The reference must first reproduce 15 transcribed repository tests.",
    "Trusted base: the reference domain flow. Disagreements are attributed to the two known order/instance-port limitations only if an explicit model of those limitations reproduces the analyzer's verdict; anything else is reported as unexplained.")
add("C17", "exploration",
    "exhaustive enumeration of operators x widths x signedness x all 4-state operand values (small widths) and all pairs of a corner alphabet (wide), on the real evaluator, against an IEEE 1800 reference (R1)",
    "Every operator of the analyzer's constant evaluator (10 unary, 25 binary incl. `as`) on the real Op::eval_value_unary/binary and Value::* for operand widths {1..3}^2 (quick) / {1..4}^2 (thorough) x signedness^2 x every call context an outer context of 0..8 bits produces x ALL 4-state operand values; all pairs of a 20-27 value corner alphabet (incl. x/z patterns, word-boundary one-hots) at widths {31,32,33,63,64,65,127,128,129,255,256}; Value::expand/trunc/select/concat across the 64-bit representation switch; U64-vs-BigUint agreement on every value both can hold; and whole one- and two-operator expressions through the real parser + analyzer (context propagation) compared with R1 on the expression tree.",
    "Trusted base: R1 (vmc/crates/refmodels/src/bits.rs + expr.rs), written from IEEE 1800-2017 section 11 with no code shared with veryl; where the LRM admits two readings (== with x, unary plus with x) both are accepted. The quick tier is budget-capped (blocks interleaved so a cap thins all parts evenly; reported).",
    engine="E6-differential")
add("C18", "exploration",
    "exhaustive enumeration of generated per-width operator modules x engines x (all values | all corner pairs), run on the real simulator engines, against R1 and the compile-time evaluator",
    "One generated module per (wa, wb, wy, sa, sb) with 67 outputs (10 unary, 24 binary operators, 33 two-operator compositions where context width/sign propagates) at widths from {1,2,3,4,8,31,32,33,63,64,65,127,128,129,200,256,300}; inputs: all 2-state values when wa+wb <= 8, all 4-state values when <= 4/6, else all pairs of the corner alphabet plus a shift-amount alphabet; run on interpreter and Cranelift JIT x 2-/4-state (quick, 170 modules) or all 10 Config::all() engines incl. the cc backend (thorough, 966 modules). Every Simulator::get is compared with R1 under the IEEE context rule, and, where it agrees, with the compile-time evaluator (differences confirmed through the real analyzer).",
    "Trusted base: R1. 2-state engines: results whose IEEE value contains x are counted, not compared. Known findings are listed per (operator, engine, width class, signedness, difference class); the long list reflects nine analyzer root causes plus JIT/cc wide-width and 4-state defects (DESIGN.md section 0.2).",
    engine="E6-differential")
add("C19", "model_checking",
    "lock-step explicit-state exploration of the full reachable product state space of (independent gate-netlist evaluator on the real synthesizer's output, real RTL simulator) for every member of a finite design family x cell libraries x RAM-inference settings; all short input sequences without state merging",
    "Every design of a generated synthesizable family (151 template classes: every operator x width pairs x signedness x result width, statements, functions, structures, 48 gate-fusion shapes, 17 sequential templates x clock/reset kinds, counter/prefix/balance pass shapes, wide arithmetic, 16 memory templates x sizes straddling the RAM threshold; 484 designs quick / 3035 thorough) is synthesized by the real veryl_synthesizer under 4 cell libraries x 4 RamConfig settings; each distinct netlist is evaluated by R3 (truth tables per CellKind, FFs with edge/reset kind/polarity/value, RAM blocks) in lock-step with the real veryl_simulator: all input sequences up to a small length without dedup, then a walk of the full reachable product space over all input letters with outputs compared before and after every clock edge; FF/RAM clock and reset attributes are checked statically against the port declarations.",
    "Trusted base: R3 (vmc/crates/vmc/src/r3_netlist.rs, written from the CellKind documentation). 2-state inputs; division by zero and out-of-range indices excluded by construction; 61 wide designs use corner alphabets (labelled). Known findings mask further regressions inside the same template class.",
    engine="E2-lockstep-product")
add("C20", "exploration",
    "exhaustive enumeration of every netlist of the C19 design x library x RAM-setting matrix with independent structural checks and recomputation of area and timing reports",
    "For every netlist the real synthesizer produces for the C19 family (3108 quick / 48512 thorough): single driver per used net, driver bookkeeping, in-range nets, arity, RAM port shapes, acyclic combinational part; area recomputed from the library (cells + FFs + RAM bits) against every field of AreaReport; critical-path depth and delay recomputed by memoised DFS over all endpoints; the reported critical path starts at a boundary and its steps are consecutive in the netlist.",
    "Trusted base: R3's structure walk and the library tables read through the public API. Relative tolerance 1e-9 on areas.")
add("C21", "exploration",
    "exhaustive enumeration: all 65 536 4-input truth tables x all 768 NPN transforms; all AIG programs up to K ANDs over n inputs; every CellKind alone and in ordered pairs; a synthesized design family - every sink function compared by full truth table before and after rewrite/techmap",
    "(1) all 65 536 Tt4: npn_canonical returns a transform that maps the table to its canonical form, the form is the minimum over the 768 transforms recomputed by brute force, NpnTransform::apply equals an independent reading of the documented transform, every library pattern evaluates to its recorded table, transform_pattern with the inverse transform gives the original function; (2) every AIG of <= K ANDs over n inputs (n=3,4 K=3, n=5 K=2 quick; up to n=4 K=4 thorough) built through the real mk_and, pushed through rewrite, aig_to_cells_techmap and aig_to_cells, every sink compared by full truth table; (3) every CellKind alone and every ordered pair A->B (5302 hand-built GateModules) through aigify/rewrite/techmap; (4) 134/159 synthesized designs (arithmetic, muxes, FSMs, RAM register files) through aigify -> rewrite -> techmap, every output bit, FF D/clock/reset and RAM input pin compared by exhaustive truth table over its cone inputs. Separate cargo workspace (/verif/vmc-aig) because enabling feature `aig` in the main harness would unify it into every build.",
    "Trusted base: the brute-force transform reading and cell truth tables in vmc-aig/crates/worker. If the feature does not compile the check reports C21:aig-feature-does-not-compile (fixed by repo commit 211a1cb). Cones with > 16 inputs would be counted as skipped (none occurred).")
add("C24", "exploration",
    "exhaustive enumeration of all processing orders (n!) of all dependency-closed projects of up to n files from a fixed pool, built by the real CLI; outputs compared across orders",
    "Projects = all dependency-closed subsets (n <= 3 quick / 4 thorough) of a 16-item pool (packages, interface, generic module and package with several users, importers, $sv users, cross-file types, modules with warnings); each is built under ALL n! processing orders, imposed both by permuting `sources` roots and by file-name prefixes, through the real `veryl build` / `veryl check`; every .sv, .sv.map, exit code and diagnostic multiset must be independent of the order (each order confirmed in veryl's own processing log). Repeated fresh-process builds of the same project are compared byte for byte (reported as repeated_runs, not exhaustive: hash seeds cannot be enumerated).",
    "Trusted base: the order-imposition mechanism (confirmed per run from the log). The repeated-run clause is sampling by nature and labelled so.")
add("C25", "exploration",
    "exhaustive enumeration of all typed DAG project shapes up to n files x target/sourcemap/filelist settings and collision layouts, built by the real CLI, against an oracle derived from the abstract project",
    "All labelled typed DAGs (package/interface/module nodes; import, scoped reference, instance, modport edges) on <= 3 (quick) / 4 (thorough) files x spellings, plus multi-declaration files, tests/examples/path dependency/alias/embed/empty/comment-only extras, 6 collision layouts, x 27 combinations of target {source, directory, bundle} x sourcemap_target x filelist_type go through the real `veryl build` and Metadata::paths. Oracle: no duplicate filelist line; listed = emitted; for every reference edge u->v, v precedes u; every emitted source appears in exactly one output; all dst/map paths pairwise distinct.",
    "Trusted base: the abstract project generator; outputs are attributed to sources by a marker comment veryl copies into its output.")
add("C26", "exploration",
    "exhaustive enumeration of all 96 option combinations for every design of corpus + hostile-comment + inside/outside families through the real emitter; token-stream oracles and exhaustive behavioural comparison (R2) for expand_inside_operation",
    "Every design (90 corpus files, CRLF copies, a base design with one block or line comment inserted at every token gap, 46 generated inside/outside/case modules over all items and item pairs) is emitted under all 96 combinations of strip_comments x newline_style x indent_width x max_width x vertical_align x expand_inside_operation. An own SV tokenizer (comments are tokens) checks: strip_comments leaves the code-token stream identical and removes only comments; newline_style is byte-identical after normalising CRLF; layout options leave code tokens identical; for expand_inside_operation, where tokens differ, both texts are elaborated with the reference SV interpreter R2 and compared module by module on all input values on every variable. A configuration-dependent emitter panic is a violation.",
    "Trusted base: the SV tokenizer (c26_svlex.rs) and R2. A comment surviving strip_comments after hoisted imports is an observation (the statement says it only removes comments), not a verdict.")
add("C27", "exploration",
    "exhaustive enumeration of a (setup x single damage) state matrix; check mode and write mode run on twins of the same snapshot with the real CLI and are compared",
    "States = {target x sourcemap settings, exclude_std on/off} x {edit a source, add a source, delete/hand-edit/truncate an output (root, dependency, $std, bundle), delete/edit a source map, delete/edit the filelist, unformatted sources}: 135 build + 45 fmt states quick, 1130 + 141 thorough. For each state twin A runs `veryl build --check` / `veryl fmt --check` and twin B runs the write mode from the same snapshot; check mode exits 0 iff the write mode changes no emitted file (.sv, .sv.map, bundle) / no source file.",
    "Trusted base: the tree diff. The filelist is compared too but reported separately (the statement does not name it).")
add("C28", "exploration",
    "exhaustive enumeration of all Doc trees up to N nodes x render options on the real renderer, invariant oracle",
    "All veryl_pretty Doc trees with <= 5 (quick) / 6 (thorough) nodes over a 23-leaf alphabet and a deeper reduced alphabet up to 7 / 8 nodes, x up to 36 render options, are rendered by the real render_with_anchors; checked: every marker once and in order, group modes consistent, IfBreak text iff its group broke, every RenderedAnchor is at the (line, column) where its text really is, no trailing blanks when stripping, groups that fit are not broken.",
    "Trusted base: the tree enumerator (counts cross-checked against the closed recurrence) and the marker-based observers. Nothing is claimed for trees above the completed size (reported).")
add("C29", "model_checking",
    "explicit-state BFS over operation histories of the real implementation against a reference map (bounded depth, exhaustive within bound)",
    "All histories of Store operations (open/try_open/put/set_diagnostics/keep/invalidate/set_dependents/set_tests/save/drop, plus an on-disk schema change) up to depth 6 (quick) / 8 (thorough) over 2 keys, 2 paths, 2 hashes, 3 blobs are explored on the real veryl_cache::Store with state deduplication; every transition is checked against a versioned-map reference, and after every save every blob referenced by the on-disk manifest must exist. All histories up to depth 3/4 are also run with no state merging.",
    "Trusted base: the 60-line reference map in c29.rs and the canonical state key (disk snapshot + handle view). One handle at a time.",
    engine="E3-history-bfs")

add("C31", "exploration",
    "exhaustive enumeration of release sets x requirements x lock states x dependency-graph shapes on harness-built local git repositories through the real Metadata/Lockfile code, against a reference resolver",
    "30 local git repositories (file:// URLs) provide all non-empty subsets of {0.1.0,0.1.1,0.2.0,1.0.0}; x 8 requirement forms x lock state (none / locked to each release, reached through a real resolve-save-change-update history) x graph shapes {direct, two requirements on one project, path dependency, diamond, chain through a git intermediate, properties}: the real veryl_metadata resolution runs in worker subprocesses with private HOME/XDG cache and is compared with a reference resolver (locked release if it still matches, else the highest matching one), plus: distinct lock names, identical results of repeated resolutions, save/load round trip, `update` idempotent and reporting every change, --force equal to a fresh resolution. 1140 cases quick / ~6900 thorough.",
    "Trusted base: the reference semver/resolver model (vmc/crates/refmodels/src/semver_ref.rs), git. Remote URLs, prerelease versions and lockfile v0 migration are not covered.")
add("C32", "model_checking",
    "exhaustive enumeration of dispatch orders x pop schedules (which worker takes the i-th test, owned by a cfg(veryl_verif) hook) x worker counts x seeds on the real `veryl test`; exhaustive small-domain enumeration of $tb random ranges",
    "A native-test project (shared DUT, $tb::random handles with equal and different names and types, $display, a deliberately failing $assert, a $comp instance exposing its instance seed) is run through the real `veryl test` for seeds {0,1,2^64-1} x workers {1,2,3} x ALL n! dispatch orders (imposed through .build/test_timings) x ALL w^n pop schedules (imposed by the hook and validated against the hook's pop log), plus timing-file shapes, text report mode and the default cc backend; every test's status, message and captured output must equal the 1-worker run with the same seed. RNG: get/get_range for widths 1..4(6) x signedness x ALL (min,max) pairs x first 64 draws x seeds x handle names at library level, boundary widths {31,32,33,63,64} with extreme bounds, and through generated testbenches at CLI level: every draw within bounds, identical streams for equal (seed, handle).",
    "Trusted base: the pop hook (add-only, cfg(veryl_verif), repo commit 878d807). After a pop, test bodies run on real threads; their relative progress is not scheduled (bodies are long enough to overlap). One project shape, <= 3 workers.",
    engine="E5-schedule")
add("C35", "exploration",
    "exhaustive enumeration of widths x corner/walking/all-small values x engine configurations x native transports for mirror/observer/parameter/method components on the real simulator; full product-state exploration of 5 component/FF timing topologies",
    "Real #[test] modules instantiating $comp components are driven through Simulator::{set,step,get,call_component_method} under every engine configuration x transports {static registry with a raw-ABI guest, dlopen of a cdylib written with the veryl-component guest library}: 14 widths x per-word corner alphabet in all combinations + single-bit walkers + all values for widths <= 4 (2260 values) must cross the boundary with every bit and X/Z mask bit intact, in both directions, for ports, parameters and method arguments/results; timing: a 2-bit stimulus drives mirror||FF, FF after mirror, mirror after FF, mirror after mirror, comb after mirror, every triple of letters checked against RTL twins and the stimulus history (pre-edge read, outputs visible together with FF updates).",
    "NOT CHECKED: the WebAssembly transport clause (no wasm32 target in the sandbox, no prebuilt .wasm in the repository) - stated in the evidence assumptions. The RTL-twin comparison uses only fully known or all-X letters because the 4-state interpreter's own flip-flop alters partially unknown values (counted, reported to DESIGN.md).")
add("C36", "exploration",
    "exhaustive enumeration of 4-state values x widths through the real Value<->svLogicVecVal conversions against the Annex H table; all input sequences to depth 3/4 on 20 designs x engines with every VCD sample compared with the simulator's own value",
    "Vec<SvLogicVecVal>::from(&Value) and Value::from(&[SvLogicVecVal]) for all 4-state values x signed flag at widths 1..7 (quick) / 1..9 (thorough), corner alphabets and walking 0/1/x/z at every bit position for widths {31..129} straddling the 32-bit word boundaries, word vectors of 1..5 words: Annex H encoding bit by bit, padding bits, word count, round trip; the cosim_set/cosim_get bodies around a real simulator at 12 widths x 4 engines. Dumps: 20 designs (counters, 65/129/200-bit registers, arrays, struct/enum, hierarchy, 4-state, tri-state) on every engine, all input sequences over a 5-/6-letter alphabet to depth 3/4, driven exactly like testbench.rs, dumped with the real WaveDumper, parsed with the vcd crate: header, times and every variable at every time equal Simulator::get_var right after that dump.",
    "Trusted base: the Annex H table in c36.rs; the vcd crate's parser. FST files are not read back (no reader available offline); Value::to_fst_bits itself is checked. The veryl-cosim cdylib is not loaded; its conversion bodies are replayed.",
    engine="E6-differential")

NOT_APPLICABLE_REASON = "check not integrated yet in this round (being built, see DESIGN.md section 0.2); not claimed until a sound check exists"


def main():
    checks = []
    for pid in ALL:
        if pid not in CHECKS:
            continue
        c = CHECKS[pid]
        e = {
            "property_id": pid,
            "quick_cmd": f"./check {pid} quick",
            "evidence_file": f"evidence/{pid}.json",
            "engine": c["engine"],
            "level_claimed": {"category": c["level"], "text": c["text"], "design_ref": f"DESIGN.md section 3 {pid} and section 0.2"},
            "level_note": c["note"],
            "technique": c["technique"],
        }
        if c["thorough"]:
            e["thorough_cmd"] = f"./check {pid} thorough"
        if c["replay"]:
            e["replay_cmd_template"] = "./check replay {path}"
        checks.append(e)
    engines = []
    for en in ENGINES:
        en = dict(en)
        en["serves_properties"] = [p for p in ALL if p in CHECKS and CHECKS[p]["engine"] == en["name"]]
        engines.append(en)
    hooks_commits = []
    hc = os.path.join(ROOT, "hooks_commits.txt")
    if os.path.exists(hc):
        hooks_commits = [l.split()[0] for l in open(hc) if l.strip() and not l.startswith("#")]
    m = {
        "version": 1,
        "setup_cmd": "./check build",
        "hooks": {
            "guard": "--cfg veryl_verif (rustc cfg; set only in /verif/vmc/.cargo/config.toml rustflags)",
            "enable": "the harness workspace /verif/vmc builds /repo/crates/* by path dependency with RUSTFLAGS --cfg veryl_verif; the real veryl and veryl-ls main.rs are compiled by wrapper packages in the same workspace; crash points (C05) and schedules (C30) need no source hook (strace / ptrace on the real binary)",
            "baseline_off_cmd": "cd /repo && cargo nextest run --workspace --no-fail-fast --test-threads 8 --offline",
            "source_commits": hooks_commits,
            "add_only": True,
        },
        "engines": engines,
        "checks": checks,
        "not_applicable": [{"property_id": p, "reason": NOT_APPLICABLE_REASON} for p in ALL if p not in CHECKS],
        "notes": "Exit codes of every command: 0 held (KNOWN-FINDING lines for listed findings), 1 VIOLATION, 2 machinery failure (never a verdict). Known and fixed findings: known_findings.jsonl. Seeded property-breaking changes and which check catches them: seeded/ and DESIGN.md section 0.2.",
    }
    with open(os.path.join(ROOT, "MANIFEST.json"), "w") as f:
        json.dump(m, f, indent=2)
        f.write("\n")
    print(f"MANIFEST.json: {len(checks)} checks, {len(m['not_applicable'])} not_applicable")


if __name__ == "__main__":
    main()

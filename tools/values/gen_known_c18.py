#!/usr/bin/env python3
"""Builds the proposed C18 known-finding entries from VMC_C18_DUMP files (one JSON per signature).
usage: gen_known_c18.py dump1.jsonl [dump2.jsonl ...] > c18_known.jsonl
Every signature gets the root-cause note of its family plus the first failing input of that signature."""
import json, re, sys

def compress(bits):
    out = ''
    b = bits
    while len(b) % 4:
        b = '0' + b
    for i in range(0, len(b), 4):
        n = b[i:i + 4]
        if 'x' in n or 'z' in n:
            out += 'x' if n == 'xxxx' else ('z' if n == 'zzzz' else '?')
        else:
            out += '%x' % int(n, 2)
    return out

def short(s):
    return re.sub(r"(\d+)'(s?)b([01xz]+)", lambda m: f"{m.group(1)}'{m.group(2)}h" + compress(m.group(3)) if len(m.group(3)) > 8 else m.group(0), s)

XZ_EQ = "== / != compare (payload & !mask_xz) of the operands: `1'b1 == 1'bx` gives 0 (`!=`: 1) where IEEE 1800-2017 11.4.5 gives x"
XZ_AND = "`&&` gives x whenever an operand has x/z bits: `1'b0 && 1'bx` = x, IEEE 1800-2017 11.4.7: 0"
XZ_TERN = "`if c ? a : b` with x/z bits in c always takes the else branch (11.4.11: an ambiguous condition merges the branches bitwise; a condition with a definite 1 is true)"
XZ_POW = "`**` with x/z in the exponent: a signed exponent whose msb is z counts as negative (`1 ** 4'sbzzzz` = 1, `3 ** 4'sbzzzz` = 0) instead of x (11.4.2)"
REL = "the 1-bit result of <: <= >: >= is treated as SIGNED when both compared operands are signed: `(a <: b) + a` sign-extends it and the sibling operand (11.8.1: comparison results are unsigned)"
CAST = "`x as N` (emitted as the SystemVerilog size cast `N'(x)`, whose signedness passes through, 6.24.1): the simulator treats the result as unsigned (`(a - b) as 5` with signed a, b assigned to logic<8>: 8'h1f instead of 8'hff); a narrowing cast of a wider unsigned-context operand is not truncated (`(a - b) as 32` with a 32-bit, b 33-bit: 33'h1ffffffff instead of 33'h0ffffffff); the JIT also skips the truncation for unsigned operands"
POW_BIG = "`**` with an exponent >= 2^64: the exponent is truncated / saturated to 64 bits (`3 ** 65'h1_ffff_ffff_ffff_fffe` is not 3^(2^65-2) mod 2^w)"
JIT_POW = "JIT `**`: a negative (signed, msb set) exponent is not handled per Table 11-4 (`0 ** -1` = 0 instead of x, `3 ** -1` = modular inverse instead of 0), and an UNSIGNED exponent with its msb set is taken as negative when the base is signed (`3'sd2 ** 1'b1` = 0 instead of 2)"
JIT_SEXT = "JIT, context wider than 128 bits: a signed operand narrower than the context is zero-extended instead of sign-extended by unary + - ~ and the operators above them (`+a` with a = -1 (128-bit signed) assigned to logic<129> reads 129'h0ff..f)"
JIT_RED = "JIT, target wider than 128 bits: reduction | ^ ~| ~^ and ! of a narrow operand evaluate as if the operand were 0 (`|a` with a = 4'b0001 assigned to logic<129> reads 0, `!a` reads 1)"
JIT_RAND = "JIT: `&a` / `~&a` of an all-ones 64-bit operand assigned to a 65..128-bit target reads 0 / 1 (the all-ones test uses the target width)"
JIT_AMT = "JIT, operand wider than 128 bits: the shift amount is truncated to its low 64 bits (`a << b` with b = 2^127 returns a instead of 0)"
JIT_WIDE_SHR = "JIT, context wider than 128 bits: `>>` / `>>>` of a signed or narrower left operand extends or fills wrongly (`a >> 1` with a = -1 (128-bit signed) assigned to logic<129> reads 129'h1ff..f instead of 129'h0ff..f)"
JIT_XZ = "JIT 4-state evaluation is imprecise for operands with x/z bits: whole-word x where IEEE 1800 defines known bits (e.g. `{b, a} >> 1`, shifts by >= width, `1 || x`), z leaking into arithmetic / bitwise results where IEEE gives x, and known bits where IEEE gives x"
WIDE_CMP = "JIT, operands wider than 128 bits: <: <= >: >= on equal or adjacent wide values give the wrong answer (`a <: b` = 1 for a = b = 200'hff..f; with x/z operands a known 0 instead of x)"
NARROW = "JIT, operands wider than 128 bits assigned to a NARROWER target: the operands are truncated to the target width before / % == != ==? !=? && || are evaluated (`a == b` with a = b = 200'hff..f assigned to logic<129> reads 0; `a / 2` loses the quotient bits that come from above the target width)"
STRAY = "an output port narrower than the expression assigned to it: the compiled engines store the untruncated result and `Simulator::get` returns a Value whose payload has bits above the port width (`assign y = a & b` with 8-bit a, b and logic<4> y: payload 0xff)"
PANIC = "building the JIT engine panics inside Cranelift (x64 lowering, isle.rs: Option::unwrap on None) for a reduction ^ / ~^ of a 64-bit operand assigned to a 65-bit target in 4-state mode"

def note(p):
    what = p[1]
    if what == 'engine-build-panic':
        return PANIC
    if what == 'stray-bits':
        return STRAY.replace('the compiled engines', 'the cc backend' if p[3] == 'cc' else 'the Cranelift JIT')
    name, engine = p[2], p[3]
    root = name.split('(')[0]
    wcl = p[4]
    xz = p[5] == 'xz'
    amt = p[7] if len(p) > 7 else ''
    pre = '' if what == 'ieee' else 'the run-time value agrees with IEEE 1800 here but differs from the compile-time evaluation of the same expression (the compile-time side is the C17 finding): '
    def r():
        if root == 'as':
            return CAST
        if '(rel' in name and not xz:
            return REL
        if root == '**':
            if xz:
                return XZ_POW if engine == 'interp' else XZ_POW + '; ' + JIT_XZ
            if 'amt>=2^64' in amt and not (engine == 'jit' and wcl != 'w>128' and 'su' in p[5]):
                return POW_BIG
            return JIT_POW if engine != 'interp' else POW_BIG
        if xz:
            if engine == 'interp':
                if root in ('==', '!='):
                    return XZ_EQ
                if root == '&&':
                    return XZ_AND
                if root == 'ternary':
                    return XZ_TERN
                if root == '+':
                    return REL + ' (x/z operands)'
                return 'x/z handling differs from IEEE 1800 (see the example)'
            base = {'==': XZ_EQ, '!=': XZ_EQ, '&&': XZ_AND, 'ternary': XZ_TERN}.get(root)
            return (base + '; ' if base else '') + JIT_XZ
        # 2-state operands
        if engine == 'interp':
            return 'see the example'
        if root in ('<', '>', '<=', '>='):
            return WIDE_CMP
        if root in ('/', '%', '==', '!=', '==?', '!=?', '&&', '||') and wcl == 'w>128' and '(shift' not in name:
            return NARROW
        if root in ('r&', 'r~&'):
            return JIT_RAND
        if root in ('r|', 'r^', 'r~|', 'r~^', '!'):
            return JIT_RED
        if root in ('u+', 'u-', '~') or 'un-ctx' in name:
            return JIT_SEXT
        if 'amt>=2^64' in amt or 'amt-msb-set-signed' in amt or '(shift' in name:
            return JIT_AMT
        if root in ('>>', '>>>', '<<', '<<<'):
            return JIT_WIDE_SHR
        return 'see the example'
    t = pre + r()
    if engine == 'cc':
        t = t.replace('JIT', 'cc backend (C emitted from the same lowering as the JIT)')
    return t

seen = {}
for path in sys.argv[1:]:
    for line in open(path):
        d = json.loads(line)
        seen.setdefault(d['signature'], d)
for sig in sorted(seen):
    d = seen[sig]
    p = sig.split(':')
    ex = short(d['what'])
    ex = re.sub(r'0{12,}', '0..0', ex)
    ex = re.sub(r'f{12,}', 'f..f', ex)
    ex = re.sub(r'x{12,}', 'x..x', ex)
    ex = re.sub(r'z{12,}', 'z..z', ex)
    print(json.dumps({"property": "C18", "signature": sig, "what": note(p) + " — e.g. " + ex[:420], "status": "known"}))

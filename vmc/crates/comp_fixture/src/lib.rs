//! Fixture components for C35 (mirror / observer / parameter probe / echo), one per guest API
//! path. Built twice from the same source: as an rlib linked into `vmc` (static registration)
//! and as a cdylib loaded with dlopen by the simulator's component loader.

use veryl_component::*;

/// `q <= d` through `SimCtx::read` / `SimCtx::write` (payload + X/Z mask).
pub struct VMirror {
    d: InputPort,
    q: OutputPort,
}

impl Component for VMirror {
    const KIND: ComponentKind = ComponentKind::Clocked;
    fn new(ctx: &mut BuildCtx) -> Result<Self> {
        ctx.clock("clk")?;
        Ok(Self { d: ctx.input("d")?, q: ctx.output("q")? })
    }
    fn on_clock(&mut self, ctx: &mut SimCtx) -> Result<()> {
        let v = ctx.read(self.d);
        ctx.write(self.q, v);
        Ok(())
    }
}

/// `q <= d` through `read_words` / `write_words` (payload only, X/Z dropped by contract).
pub struct WMirror {
    d: InputPort,
    q: OutputPort,
    buf: Vec<u64>,
}

impl Component for WMirror {
    const KIND: ComponentKind = ComponentKind::Clocked;
    fn new(ctx: &mut BuildCtx) -> Result<Self> {
        ctx.clock("clk")?;
        let d = ctx.input("d")?;
        let q = ctx.output("q")?;
        Ok(Self { buf: vec![0; d.words()], d, q })
    }
    fn on_clock(&mut self, ctx: &mut SimCtx) -> Result<()> {
        ctx.read_words(self.d, &mut self.buf);
        ctx.write_words(self.q, &self.buf);
        Ok(())
    }
}

/// `q <= d` through `read_u64` / `write_u64` (ports of at most 64 bits).
pub struct UMirror {
    d: InputPort,
    q: OutputPort,
}

impl Component for UMirror {
    const KIND: ComponentKind = ComponentKind::Clocked;
    fn new(ctx: &mut BuildCtx) -> Result<Self> {
        ctx.clock("clk")?;
        Ok(Self { d: ctx.input("d")?, q: ctx.output("q")? })
    }
    fn on_clock(&mut self, ctx: &mut SimCtx) -> Result<()> {
        let v = ctx.read_u64(self.d);
        ctx.write_u64(self.q, v);
        Ok(())
    }
}

/// Reports what the component *sees* on `d` as small digests, so that a value corrupted on the
/// way in cannot be repaired on the way out:
///   ones / xs / zs = number of 1 / X / Z bits, width = the port width the guest was told,
///   top = 2-bit code {mask,payload} of the most significant bit, w63/w64 = same for bits 63/64.
pub struct Observer {
    d: InputPort,
    ones: OutputPort,
    xs: OutputPort,
    zs: OutputPort,
    width: OutputPort,
    top: OutputPort,
    b63: OutputPort,
    b64: OutputPort,
    four: OutputPort,
}

fn bit_code(words: &[u64], mask: &[u64], i: u32, width: u32) -> u64 {
    if i >= width {
        return 0;
    }
    let w = (i / 64) as usize;
    let b = i % 64;
    let p = (words.get(w).copied().unwrap_or(0) >> b) & 1;
    let m = (mask.get(w).copied().unwrap_or(0) >> b) & 1;
    (m << 1) | p
}

impl Component for Observer {
    const KIND: ComponentKind = ComponentKind::Clocked;
    fn new(ctx: &mut BuildCtx) -> Result<Self> {
        ctx.clock("clk")?;
        Ok(Self {
            d: ctx.input("d")?,
            ones: ctx.output("ones")?,
            xs: ctx.output("xs")?,
            zs: ctx.output("zs")?,
            width: ctx.output("width")?,
            top: ctx.output("top")?,
            b63: ctx.output("b63")?,
            b64: ctx.output("b64")?,
            four: ctx.output("four")?,
        })
    }
    fn on_clock(&mut self, ctx: &mut SimCtx) -> Result<()> {
        let v = ctx.read(self.d);
        let Value::Bits { words, mask_xz, width } = &v else {
            bail!("input is not bits");
        };
        let mut ones = 0u64;
        let mut xs = 0u64;
        let mut zs = 0u64;
        for (w, m) in words.iter().zip(mask_xz.iter()) {
            ones += (w & !m).count_ones() as u64;
            xs += (m & !w).count_ones() as u64;
            zs += (m & w).count_ones() as u64;
        }
        ctx.write(self.ones, ones);
        ctx.write(self.xs, xs);
        ctx.write(self.zs, zs);
        ctx.write(self.width, *width as u64);
        ctx.write(self.top, bit_code(words, mask_xz, width.saturating_sub(1), *width));
        ctx.write(self.b63, bit_code(words, mask_xz, 63, *width));
        ctx.write(self.b64, bit_code(words, mask_xz, 64, *width));
        let f = ctx.is_4state();
        ctx.write(self.four, f as u64);
        Ok(())
    }
}

/// Drives its `#(V: …)` parameter onto `out` at every clock (and at init).
pub struct ParamProbe {
    out: OutputPort,
    v: Value,
}

impl Component for ParamProbe {
    const KIND: ComponentKind = ComponentKind::Clocked;
    fn new(ctx: &mut BuildCtx) -> Result<Self> {
        ctx.clock("clk")?;
        Ok(Self { out: ctx.output("out")?, v: ctx.param("V")? })
    }
    fn on_init(&mut self, ctx: &mut SimCtx) -> Result<()> {
        ctx.write(self.out, self.v.clone());
        Ok(())
    }
    fn on_clock(&mut self, ctx: &mut SimCtx) -> Result<()> {
        ctx.write(self.out, self.v.clone());
        Ok(())
    }
}

/// Method-only: `set(x)` stores the argument, `get()` returns it.
pub struct Echo {
    stored: Value,
}

impl Component for Echo {
    const KIND: ComponentKind = ComponentKind::MethodOnly;
    fn new(_ctx: &mut BuildCtx) -> Result<Self> {
        Ok(Self { stored: Value::from_u64(0, 1) })
    }
    fn method(&mut self, name: &str, args: &[Value], _ctx: &mut SimCtx) -> Result<Value> {
        match name {
            "set" => {
                self.stored = args.first().cloned().unwrap_or(Value::Unit);
                Ok(Value::Unit)
            }
            "get" => Ok(self.stored.clone()),
            _ => bail!("unknown method: {name}"),
        }
    }
}

veryl_component_export!(
    "c35_vmirror" => VMirror,
    "c35_wmirror" => WMirror,
    "c35_umirror" => UMirror,
    "c35_observer" => Observer,
    "c35_param_probe" => ParamProbe,
    "c35_echo" => Echo,
);

//! `$comp::seed_probe`: a method-only component whose `seed()` returns the per-instance seed
//! the simulator derived for it (`hash(test seed, test name, instance name)`), and whose
//! `next()` returns successive values of a tiny generator started from that seed (so the
//! stream, not only the seed, is observable).

use veryl_component::*;

#[derive(Component)]
#[component(kind = method_only)]
struct SeedProbe {
    seed: u64,
    state: u64,
}

#[component_impl]
impl SeedProbe {
    fn on_build(&mut self, ctx: &mut BuildCtx) -> Result<()> {
        self.seed = ctx.seed();
        self.state = self.seed;
        Ok(())
    }

    fn seed(&mut self, _ctx: &mut SimCtx) -> Result<u64> {
        Ok(self.seed)
    }

    fn next(&mut self, _ctx: &mut SimCtx) -> Result<u64> {
        // splitmix64 step
        self.state = self.state.wrapping_add(0x9e37_79b9_7f4a_7c15);
        let mut z = self.state;
        z = (z ^ (z >> 30)).wrapping_mul(0xbf58_476d_1ce4_e5b9);
        z = (z ^ (z >> 27)).wrapping_mul(0x94d0_49bb_1331_11eb);
        Ok(z ^ (z >> 31))
    }
}

veryl_component_export!(
    "seed_probe" => SeedProbe,
);

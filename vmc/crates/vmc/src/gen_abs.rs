//! Shared plumbing for the "exactness of a static analysis" checks (C14, C15, C16):
//! run the real analyzer (parse -> pass1 -> post_pass1 -> pass2 with an Ir -> post_pass2, the
//! same sequence as `crates/veryl/src/pipeline.rs`) on a Veryl text on a fresh thread, and return
//! the diagnostics in a plain form.  Nothing here knows about any property.

use crate::core::run_isolated;
use std::collections::BTreeMap;

/// One analyzer diagnostic, reduced to what the checks compare.
#[derive(Clone, Debug, PartialEq, Eq, PartialOrd, Ord)]
pub struct Diag {
    /// miette code, e.g. `multiple_assignment`.
    pub code: String,
    /// `identifier` field where the variant has one (else empty).
    pub ident: String,
    /// rendered one-line message.
    pub msg: String,
    /// byte offsets of the labelled source spans (first = primary location).
    pub offsets: Vec<usize>,
}

#[derive(Clone, Debug)]
pub enum Analysis {
    /// parser rejected the text (always a generator bug for these families)
    ParseError(String),
    /// analyzer (or the optional simulator leg) panicked
    Panic(String),
    Done {
        diags: Vec<Diag>,
        /// `Some(Ok(()))` / `Some(Err(msg))` when the simulator `build_ir` leg was requested and
        /// reached (it is only run when the analyzer produced no error-severity diagnostic
        /// other than the ones listed in `sim_ignore`).
        sim: Option<Result<(), String>>,
    },
}

pub struct SimLeg {
    pub top: &'static str,
    /// diagnostics (codes) that do not stop the simulator leg
    pub ignore_codes: &'static [&'static str],
}

fn ident_of(e: &veryl_analyzer::AnalyzerError) -> String {
    use veryl_analyzer::AnalyzerError as E;
    match e {
        E::MultipleAssignment { identifier, .. }
        | E::UnassignVariable { identifier, .. }
        | E::UncoveredBranch { identifier, .. }
        | E::CombinationalLoop { identifier, .. } => identifier.clone(),
        E::MismatchClockDomain {
            clock_domain,
            other_domain,
            ..
        } => format!("{clock_domain}|{other_domain}"),
        _ => String::new(),
    }
}

fn analyze_here(code: &str, sim: Option<&SimLeg>) -> Analysis {
    use miette::Diagnostic;
    use veryl_analyzer::ir::Ir;
    use veryl_analyzer::{Analyzer, Context};
    use veryl_metadata::Metadata;
    use veryl_parser::Parser;

    // the project metadata is plain immutable data (no thread-local state): build it once
    static META: std::sync::OnceLock<Metadata> = std::sync::OnceLock::new();
    let metadata = META.get_or_init(|| Metadata::create_default("prj").unwrap());
    let parser = match Parser::parse(code, &"") {
        Ok(p) => p,
        Err(e) => return Analysis::ParseError(format!("{e}")),
    };
    let analyzer = Analyzer::new(metadata);
    let mut context = Context::default();
    let mut ir = Ir::default();
    let mut errors = vec![];
    errors.append(&mut analyzer.analyze_pass1("prj", &parser.veryl));
    errors.append(&mut Analyzer::analyze_post_pass1());
    errors.append(&mut analyzer.analyze_pass2(&parser.veryl, &mut context, Some(&mut ir)));
    errors.append(&mut Analyzer::analyze_post_pass2(&ir));

    let mut diags = vec![];
    let mut blocking = false;
    for e in &errors {
        let code = e.code().map(|c| c.to_string()).unwrap_or_default();
        if let Some(s) = sim {
            if e.is_error() && !s.ignore_codes.contains(&code.as_str()) {
                blocking = true;
            }
        }
        diags.push(Diag {
            code,
            ident: ident_of(e),
            msg: format!("{e}"),
            offsets: e
                .labels()
                .map(|it| it.map(|l| l.offset()).collect())
                .unwrap_or_default(),
        });
    }
    let sim_res = match sim {
        Some(s) if !blocking => {
            let top = veryl_parser::resource_table::insert_str(s.top);
            let config = veryl_simulator::ir::Config {
                use_jit: false,
                ..Default::default()
            };
            Some(match veryl_simulator::ir::build_ir(&ir, top, &config) {
                Ok(_) => Ok(()),
                Err(e) => Err(format!("{e}")),
            })
        }
        _ => None,
    };
    Analysis::Done {
        diags,
        sim: sim_res,
    }
}

/// Analyzes `code` on a fresh thread (thread-local symbol tables start empty).
pub fn analyze(code: &str) -> Analysis {
    analyze_with(code, None)
}

pub fn analyze_with(code: &str, sim: Option<SimLeg>) -> Analysis {
    let code = code.to_string();
    match run_isolated(64 << 20, move || analyze_here(&code, sim.as_ref())) {
        Ok(a) => a,
        Err(p) => Analysis::Panic(p),
    }
}

/// Histogram helper.
#[derive(Default, Clone, Debug)]
pub struct Histo(pub BTreeMap<String, u64>);

impl Histo {
    pub fn add(&mut self, k: &str) {
        *self.0.entry(k.to_string()).or_insert(0) += 1;
    }
    pub fn addn(&mut self, k: &str, n: u64) {
        *self.0.entry(k.to_string()).or_insert(0) += n;
    }
    pub fn merge(&mut self, o: &Histo) {
        for (k, v) in &o.0 {
            *self.0.entry(k.clone()).or_insert(0) += v;
        }
    }
    pub fn get(&self, k: &str) -> u64 {
        self.0.get(k).copied().unwrap_or(0)
    }
    pub fn json(&self) -> serde_json::Value {
        serde_json::to_value(&self.0).unwrap()
    }
}

/// Deterministic shard order: a permutation of 0..n that depends on the seed only (seed 0 =
/// identity).  Used so `VERIF_SEED` changes the order in which shards are visited, never the set.
pub fn shard_order(n: usize, seed: u64) -> Vec<usize> {
    let mut v: Vec<usize> = (0..n).collect();
    if seed == 0 || n < 2 {
        return v;
    }
    let mut s = seed.wrapping_mul(0x9E37_79B9_7F4A_7C15) | 1;
    for i in (1..n).rev() {
        s ^= s << 13;
        s ^= s >> 7;
        s ^= s << 17;
        let j = (s % (i as u64 + 1)) as usize;
        v.swap(i, j);
    }
    v
}

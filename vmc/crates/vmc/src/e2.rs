//! E2 — lock-step product explorer.
//!
//! N machines over the same port signature are driven with the same stimulus and compared after
//! every step.  From the post-reset state a breadth-first search tries ALL input letters; product
//! states are deduplicated on (every machine's declared-variable digest, last input letter), so for
//! the small-state DF members the search terminates with the whole reachable product space
//! covered (equivalence for input sequences of every length).  Machines cannot be snapshotted, so
//! every transition is reached by re-execution from reset along the BFS path.  Independently of
//! the BFS, all input sequences of length <= L are run with no deduplication (hidden-state
//! guard), and optional long periodic runs cross run-time adaptivity thresholds.
//!
//! Machines: `simx::VerylSim` (in-process real simulator) and `Worker` (the same behind a
//! `vmc worker sim` subprocess, needed where behaviour is fixed per process by env-var OnceLocks).

#![allow(dead_code)]

use std::collections::{HashSet, VecDeque};
use std::io::{BufRead, BufReader, Write};
use std::process::{Child, ChildStdin, ChildStdout, Command, Stdio};
use std::time::Instant;

/// Result of running one path (reset, then the letters): canonical observation after the last
/// step, digest of all declared variables, digest of the whole observation trace.
#[derive(Clone, Debug)]
pub struct StepOut {
    /// `port0,port1,...` (hex payload, `/mask` when X/Z present) then `|escaped $display text`.
    pub obs: String,
    pub key: Vec<u8>,
    pub trace: Vec<u8>,
}

pub trait Machine {
    fn name(&self) -> String;
    /// 4-state machines: an output port carrying X/Z is not compared against a 2-state baseline.
    fn four_state(&self) -> bool {
        false
    }
    /// For each path: apply the reset stimulus, then every letter; report the final observation.
    fn run_paths(&mut self, paths: &[Vec<u32>]) -> Result<Vec<StepOut>, String>;
    /// Reset + path, reporting the observation after reset and after every letter.
    fn run_trace(&mut self, path: &[u32]) -> Result<Vec<String>, String>;
    /// Reset, then `steps` letters cycling through `period`; digest of all observations.
    fn run_long(&mut self, period: &[u32], steps: usize) -> Result<Vec<u8>, String>;
    /// Full trace of the long run (same starting conditions as `run_long`).
    fn run_long_trace(&mut self, period: &[u32], steps: usize) -> Result<Vec<String>, String> {
        let full: Vec<u32> = (0..steps).map(|i| period[i % period.len().max(1)]).collect();
        self.run_trace(&full)
    }
    /// Asynchronous split of `run_paths` (subprocess machines overlap their work).
    fn begin_paths(&mut self, _paths: &[Vec<u32>]) -> Result<(), String> {
        Ok(())
    }
    fn finish_paths(&mut self, paths: &[Vec<u32>]) -> Result<Vec<StepOut>, String> {
        self.run_paths(paths)
    }
    fn begin_long(&mut self, _period: &[u32], _steps: usize) -> Result<(), String> {
        Ok(())
    }
    fn finish_long(&mut self, period: &[u32], steps: usize) -> Result<Vec<u8>, String> {
        self.run_long(period, steps)
    }
}

impl<M: Machine + ?Sized> Machine for &mut M {
    fn name(&self) -> String {
        (**self).name()
    }
    fn four_state(&self) -> bool {
        (**self).four_state()
    }
    fn run_paths(&mut self, paths: &[Vec<u32>]) -> Result<Vec<StepOut>, String> {
        (**self).run_paths(paths)
    }
    fn run_trace(&mut self, path: &[u32]) -> Result<Vec<String>, String> {
        (**self).run_trace(path)
    }
    fn run_long(&mut self, period: &[u32], steps: usize) -> Result<Vec<u8>, String> {
        (**self).run_long(period, steps)
    }
    fn run_long_trace(&mut self, period: &[u32], steps: usize) -> Result<Vec<String>, String> {
        (**self).run_long_trace(period, steps)
    }
    fn begin_paths(&mut self, paths: &[Vec<u32>]) -> Result<(), String> {
        (**self).begin_paths(paths)
    }
    fn finish_paths(&mut self, paths: &[Vec<u32>]) -> Result<Vec<StepOut>, String> {
        (**self).finish_paths(paths)
    }
    fn begin_long(&mut self, period: &[u32], steps: usize) -> Result<(), String> {
        (**self).begin_long(period, steps)
    }
    fn finish_long(&mut self, period: &[u32], steps: usize) -> Result<Vec<u8>, String> {
        (**self).finish_long(period, steps)
    }
}

#[derive(Clone, Debug)]
pub struct Bounds {
    pub max_states: usize,
    pub max_depth: usize,
    /// All sequences of length <= flat_len are run without deduplication.
    pub flat_len: usize,
    /// Paths per batch handed to the machines.
    pub batch: usize,
    pub deadline: Option<Instant>,
    /// Long periodic runs: every period of length <= long_period over the letters, `long_steps` each.
    pub long_period: usize,
    pub long_steps: usize,
    /// Upper bound on the number of long runs (periods are enumerated in order; a cut is reported).
    pub long_max_runs: usize,
    /// Letters used by the long runs (empty = the whole alphabet).
    pub long_letters: Vec<u32>,
    /// Skip the BFS and flat parts (long runs only).
    pub long_only: bool,
    /// Index of a 4-state machine used as X reference (see `diff_traces`).
    pub xref: Option<usize>,
}

impl Default for Bounds {
    fn default() -> Self {
        Bounds {
            max_states: 1 << 14,
            max_depth: 64,
            flat_len: 3,
            batch: 1024,
            deadline: None,
            long_period: 0,
            long_steps: 0,
            long_max_runs: usize::MAX,
            long_letters: vec![],
            long_only: false,
            xref: None,
        }
    }
}

#[derive(Clone, Debug, Default)]
pub struct Stats {
    pub states: u64,
    pub transitions: u64,
    pub max_depth: u64,
    pub flat_sequences: u64,
    pub long_runs: u64,
    pub long_runs_requested: u64,
    /// machine-steps actually executed (all machines, incl. re-execution)
    pub steps: u64,
    pub compares: u64,
    pub xz_skips: u64,
    /// 2-state disagreements at a port/text where the 4-state reference machine carries X/Z.
    pub xvalued: u64,
    pub xvalued_first: Option<Divergence>,
    pub distinct_obs: HashSet<[u8; 8]>,
    pub bfs_complete: bool,
    pub flat_complete: bool,
    pub long_complete: bool,
    pub cap: Option<String>,
}

impl Stats {
    pub fn exhaustive(&self) -> bool {
        self.bfs_complete && self.flat_complete && self.long_complete
    }
}

#[derive(Clone, Debug)]
pub struct Divergence {
    /// "port" | "text" | "trace" | "long" | "nondeterministic"
    pub kind: String,
    pub machine_a: String,
    pub machine_b: String,
    /// Input letters after reset (for kind "long": the expanded periodic sequence prefix).
    pub path: Vec<u32>,
    /// Index into the trace (0 = after reset) where the first difference shows.
    pub at: usize,
    pub port: Option<usize>,
    pub expected: String,
    pub observed: String,
    pub reproducible: bool,
    /// Names of ALL machines whose observation differs from the baseline on the same path
    /// (filled for divergences found by the batch comparison; includes `machine_b`).
    pub others: Vec<String>,
}

pub enum Outcome {
    Ok,
    Diverged(Divergence),
    Machinery(String),
}

#[derive(Debug, PartialEq, Eq)]
pub enum Cmp {
    Same,
    SkippedXz(u32),
    DiffPort(usize),
    DiffText,
}

fn split_obs(o: &str) -> (&str, &str) {
    match o.find('|') {
        Some(i) => (&o[..i], &o[i + 1..]),
        None => (o, ""),
    }
}

/// Compares an observation against the baseline's. `skip_xz`: the other machine is 4-state and
/// the baseline is not, so ports (and text positions) carrying X/Z are not compared.
pub fn compare_obs(base: &str, other: &str, skip_xz: bool) -> Cmp {
    if base == other {
        return Cmp::Same;
    }
    let (bp, bt) = split_obs(base);
    let (op, ot) = split_obs(other);
    let mut skipped = 0;
    let b: Vec<&str> = bp.split(',').collect();
    let o: Vec<&str> = op.split(',').collect();
    if b.len() != o.len() {
        return Cmp::DiffPort(0);
    }
    for (i, (x, y)) in b.iter().zip(o.iter()).enumerate() {
        if x == y {
            continue;
        }
        if skip_xz && y.contains('/') {
            skipped += 1;
            continue;
        }
        return Cmp::DiffPort(i);
    }
    if bt != ot {
        // X/Z digits printed by a 4-state engine: tolerate exactly those positions
        let ok = skip_xz
            && bt.len() == ot.len()
            && bt
                .bytes()
                .zip(ot.bytes())
                .all(|(x, y)| x == y || matches!(y, b'x' | b'X' | b'z' | b'Z'));
        if ok {
            skipped += 1;
        } else {
            return Cmp::DiffText;
        }
    }
    if skipped > 0 { Cmp::SkippedXz(skipped) } else { Cmp::Same }
}

fn obs_digest(o: &str) -> [u8; 8] {
    let h = blake3::hash(o.as_bytes());
    let mut d = [0u8; 8];
    d.copy_from_slice(&h.as_bytes()[..8]);
    d
}

fn timed_out(b: &Bounds) -> bool {
    b.deadline.map(|d| Instant::now() > d).unwrap_or(false)
}

/// True when the observation carries X/Z on output port `port` (None = in the `$display` text).
fn obs_has_xz(obs: &str, port: Option<usize>) -> bool {
    let (ports, text) = split_obs(obs);
    match port {
        Some(i) => ports.split(',').nth(i).map(|p| p.contains('/')).unwrap_or(false),
        None => text.bytes().any(|c| matches!(c, b'x' | b'X' | b'z' | b'Z')),
    }
}

/// Compares two full traces. Differences at a port (text) where the 4-state reference trace `tx`
/// carries X/Z are "x-valued" (the value is unknown in 4-state, the 2-state engines merely pick
/// different bits): they are counted and reported once, separately, and do not stop the search.
/// Returns (first ordinary difference, number of x-valued differences, first x-valued one).
#[allow(clippy::type_complexity)]
fn diff_traces(
    ta: &[String],
    tb: &[String],
    tx: Option<&[String]>,
    skip: bool,
) -> (Option<(usize, Option<usize>, String)>, u64, Option<(usize, Option<usize>)>) {
    let mut xcount = 0;
    let mut xfirst = None;
    for (i, (x, y)) in ta.iter().zip(tb.iter()).enumerate() {
        let (port, kind) = match compare_obs(x, y, skip) {
            Cmp::Same | Cmp::SkippedXz(_) => continue,
            Cmp::DiffPort(p) => (Some(p), "port"),
            Cmp::DiffText => (None, "text"),
        };
        if let Some(tx) = tx {
            if tx.get(i).map(|o| obs_has_xz(o, port)).unwrap_or(false) {
                xcount += 1;
                xfirst.get_or_insert((i, port));
                continue;
            }
        }
        return (Some((i, port, kind.to_string())), xcount, xfirst);
    }
    (None, xcount, xfirst)
}

fn make_divergence(
    ms: &mut [Box<dyn Machine + '_>],
    a: usize,
    b: usize,
    path: &[u32],
    at: usize,
    port: Option<usize>,
    kind: String,
    ta: &[String],
    tb: &[String],
    reproducible: bool,
) -> Divergence {
    Divergence {
        kind,
        machine_a: ms[a].name(),
        machine_b: ms[b].name(),
        path: path[..at.min(path.len())].to_vec(),
        at,
        port,
        expected: ta.get(at).cloned().unwrap_or_default(),
        observed: tb.get(at).cloned().unwrap_or_default(),
        reproducible,
        others: vec![],
    }
}

/// Runs one batch on all machines (overlapping subprocess machines) and compares every result
/// with machine 0. Returns per-path product keys or the first divergence.
fn run_batch(
    ms: &mut [Box<dyn Machine + '_>],
    paths: &[Vec<u32>],
    xref: Option<usize>,
    stats: &mut Stats,
) -> Result<Result<Vec<Vec<u8>>, Divergence>, String> {
    for m in ms.iter_mut() {
        m.begin_paths(paths).map_err(|e| format!("{}: {e}", m.name()))?;
    }
    let mut outs: Vec<Vec<StepOut>> = Vec::with_capacity(ms.len());
    for m in ms.iter_mut() {
        let o = m.finish_paths(paths).map_err(|e| format!("{}: {e}", m.name()))?;
        if o.len() != paths.len() {
            return Err(format!("{}: {} results for {} paths", m.name(), o.len(), paths.len()));
        }
        outs.push(o);
    }
    let steps: u64 = paths.iter().map(|p| p.len() as u64 + 1).sum();
    stats.steps += steps * ms.len() as u64;
    let base_four = ms[0].four_state();
    let mut keys = Vec::with_capacity(paths.len());
    for (pi, p) in paths.iter().enumerate() {
        let b = &outs[0][pi];
        stats.distinct_obs.insert(obs_digest(&b.obs));
        let mut k = Vec::with_capacity(16 * ms.len() + 4);
        k.extend_from_slice(&b.key);
        for mi in 1..ms.len() {
            let o = &outs[mi][pi];
            k.extend_from_slice(&o.key);
            stats.compares += 1;
            let skip = ms[mi].four_state() && !base_four;
            let mut suspicious: Option<(String, Option<usize>)> = None;
            match compare_obs(&b.obs, &o.obs, skip) {
                Cmp::Same => {
                    // whole-trace digests must agree too when X/Z cannot be involved
                    if ms[mi].four_state() == base_four && o.trace != b.trace && !o.obs.contains('/') {
                        suspicious = Some(("trace".to_string(), None));
                    }
                }
                Cmp::SkippedXz(n) => stats.xz_skips += n as u64,
                Cmp::DiffPort(i) => suspicious = Some(("port".to_string(), Some(i))),
                Cmp::DiffText => suspicious = Some(("text".to_string(), None)),
            }
            if let Some((kind, port)) = suspicious {
                // cheap x-valued test on the last observation first
                if kind != "trace" {
                    if let Some(x) = xref {
                        if x != mi && obs_has_xz(&outs[x][pi].obs, port) {
                            stats.xvalued += 1;
                            if stats.xvalued_first.is_none() {
                                stats.xvalued_first = Some(Divergence {
                                    kind: "x-valued".into(),
                                    machine_a: ms[0].name(),
                                    machine_b: ms[mi].name(),
                                    path: p.clone(),
                                    at: p.len(),
                                    port,
                                    expected: b.obs.clone(),
                                    observed: o.obs.clone(),
                                    reproducible: true,
                                    others: vec![],
                                });
                            }
                            continue;
                        }
                    }
                }
                if kind == "trace" && stats.xvalued > 0 && xref.is_none() {
                    continue;
                }
                match localize(ms, 0, mi, p, kind, port, None, xref, stats) {
                    Some(mut d) => {
                        // every machine that differs from the baseline on this very path
                        for mj in 1..ms.len() {
                            let skip = ms[mj].four_state() && !base_four;
                            if !matches!(compare_obs(&b.obs, &outs[mj][pi].obs, skip), Cmp::Same | Cmp::SkippedXz(_)) {
                                d.others.push(ms[mj].name());
                            }
                        }
                        return Ok(Err(d));
                    }
                    None => continue,
                }
            }
        }
        k.extend_from_slice(&p.last().copied().unwrap_or(0).to_le_bytes());
        keys.push(k);
    }
    Ok(Ok(keys))
}

/// Re-runs `path` with full traces on machines `a` and `b` (and the X reference), finds the first
/// ordinary difference and checks that it reproduces. None = only x-valued differences.
#[allow(clippy::too_many_arguments)]
fn localize(
    ms: &mut [Box<dyn Machine + '_>],
    a: usize,
    b: usize,
    path: &[u32],
    kind: String,
    port: Option<usize>,
    long: Option<(&[u32], usize)>,
    xref: Option<usize>,
    stats: &mut Stats,
) -> Option<Divergence> {
    let skip = ms[b].four_state() && !ms[a].four_state();
    let mut traces = |ms: &mut [Box<dyn Machine + '_>], i: usize| -> Option<Vec<String>> {
        match long {
            Some((p, n)) => ms[i].run_long_trace(p, n).ok(),
            None => ms[i].run_trace(path).ok(),
        }
    };
    let ta = traces(ms, a);
    let tb = traces(ms, b);
    let tx = match xref {
        Some(x) if x != b && x != a => traces(ms, x),
        _ => None,
    };
    let (Some(ta), Some(tb)) = (ta, tb) else {
        return Some(Divergence {
            kind: "nondeterministic".into(),
            machine_a: ms[a].name(),
            machine_b: ms[b].name(),
            path: path.to_vec(),
            at: path.len(),
            port,
            expected: String::new(),
            observed: "trace re-execution failed".into(),
            reproducible: false,
            others: vec![],
        });
    };
    let (first, xcount, xfirst) = diff_traces(&ta, &tb, tx.as_deref(), skip);
    if let Some((at, p, _)) = xfirst.map(|(at, p)| (at, p, ())) {
        stats.xvalued += xcount;
        if stats.xvalued_first.is_none() {
            stats.xvalued_first =
                Some(make_divergence(ms, a, b, path, at, p, "x-valued".into(), &ta, &tb, true));
        }
    }
    match first {
        Some((at, p, k)) => {
            // reproducibility: a second pair of traces must show the same first difference
            let ta2 = traces(ms, a);
            let tb2 = traces(ms, b);
            let again = match (&ta2, &tb2) {
                (Some(x), Some(y)) => diff_traces(x, y, tx.as_deref(), skip).0,
                _ => None,
            };
            let repro = again.as_ref().map(|(i, q, _)| *i == at && *q == p).unwrap_or(false);
            Some(make_divergence(ms, a, b, path, at, p, k, &ta, &tb, repro))
        }
        None => {
            if xfirst.is_some() {
                None
            } else {
                // the batch saw a difference that full traces do not show
                Some(Divergence {
                    kind: if kind == "trace" { "nondeterministic-trace".into() } else { "nondeterministic".into() },
                    machine_a: ms[a].name(),
                    machine_b: ms[b].name(),
                    path: path.to_vec(),
                    at: path.len(),
                    port,
                    expected: ta.last().cloned().unwrap_or_default(),
                    observed: tb.last().cloned().unwrap_or_default(),
                    reproducible: false,
                    others: vec![],
                })
            }
        }
    }
}

/// Enumerates all periods of length 1..=max_len over `letters` (lexicographic, shortest first).
pub fn periods(letters: u32, max_len: usize) -> Vec<Vec<u32>> {
    let mut out = vec![];
    for len in 1..=max_len {
        let total = (letters as u64).pow(len as u32);
        for n in 0..total {
            let mut p = Vec::with_capacity(len);
            let mut x = n;
            for _ in 0..len {
                p.push((x % letters as u64) as u32);
                x /= letters as u64;
            }
            out.push(p);
        }
    }
    out
}

/// The explorer. Machine 0 is the comparison baseline (use a 2-state machine).
pub fn explore(ms: &mut [Box<dyn Machine + '_>], letters: u32, b: &Bounds, stats: &mut Stats) -> Outcome {
    if ms.len() < 2 {
        return Outcome::Machinery("explore needs at least two machines".into());
    }
    if b.long_only {
        stats.bfs_complete = true;
        stats.flat_complete = true;
        return long_runs(ms, letters, b, stats);
    }
    // ---- part 1: BFS over the product state space --------------------------------------------
    let mut seen: HashSet<[u8; 16]> = HashSet::new();
    let digest = |k: &[u8]| -> [u8; 16] {
        let h = blake3::hash(k);
        let mut d = [0u8; 16];
        d.copy_from_slice(&h.as_bytes()[..16]);
        d
    };
    let root = vec![vec![]];
    match run_batch(ms, &root, b.xref, stats) {
        Err(e) => return Outcome::Machinery(e),
        Ok(Err(d)) => return Outcome::Diverged(d),
        Ok(Ok(keys)) => {
            seen.insert(digest(&keys[0]));
        }
    }
    stats.states = 1;
    let mut frontier: VecDeque<Vec<u32>> = VecDeque::new();
    frontier.push_back(vec![]);
    stats.bfs_complete = true;
    'bfs: while !frontier.is_empty() {
        // one batch = up to `batch` expansions (node x letter), all of the same or adjacent depth
        let mut paths: Vec<Vec<u32>> = Vec::new();
        while let Some(node) = frontier.front() {
            if node.len() >= b.max_depth {
                stats.bfs_complete = false;
                stats.cap = Some(format!("max_depth {}", b.max_depth));
                frontier.pop_front();
                continue;
            }
            if !paths.is_empty() && paths.len() + letters as usize > b.batch {
                break;
            }
            let node = frontier.pop_front().unwrap();
            for l in 0..letters {
                let mut p = node.clone();
                p.push(l);
                paths.push(p);
            }
        }
        if paths.is_empty() {
            break;
        }
        if timed_out(b) {
            stats.bfs_complete = false;
            stats.cap = Some("time budget (bfs)".into());
            break 'bfs;
        }
        match run_batch(ms, &paths, b.xref, stats) {
            Err(e) => return Outcome::Machinery(e),
            Ok(Err(d)) => return Outcome::Diverged(d),
            Ok(Ok(keys)) => {
                for (p, k) in paths.into_iter().zip(keys) {
                    stats.transitions += 1;
                    if seen.insert(digest(&k)) {
                        stats.states += 1;
                        stats.max_depth = stats.max_depth.max(p.len() as u64);
                        if stats.states as usize > b.max_states {
                            stats.bfs_complete = false;
                            stats.cap = Some(format!("max_states {}", b.max_states));
                            break 'bfs;
                        }
                        frontier.push_back(p);
                    }
                }
            }
        }
    }
    // ---- part 2: all sequences of length <= flat_len, no deduplication ---------------------------
    stats.flat_complete = true;
    let mut batch: Vec<Vec<u32>> = Vec::new();
    let all = periods(letters, b.flat_len);
    let mut it = all.into_iter().peekable();
    while it.peek().is_some() {
        batch.clear();
        while batch.len() < b.batch {
            match it.next() {
                Some(p) => batch.push(p),
                None => break,
            }
        }
        if timed_out(b) {
            stats.flat_complete = false;
            stats.cap.get_or_insert("time budget (flat)".into());
            break;
        }
        match run_batch(ms, &batch, b.xref, stats) {
            Err(e) => return Outcome::Machinery(e),
            Ok(Err(d)) => return Outcome::Diverged(d),
            Ok(Ok(_)) => stats.flat_sequences += batch.len() as u64,
        }
    }
    long_runs(ms, letters, b, stats)
}

/// Part 3 of `explore`: long periodic runs.
fn long_runs(ms: &mut [Box<dyn Machine + '_>], letters: u32, b: &Bounds, stats: &mut Stats) -> Outcome {
    stats.long_complete = true;
    if b.long_period > 0 && b.long_steps > 0 {
        let ps: Vec<Vec<u32>> = if b.long_letters.is_empty() {
            periods(letters, b.long_period)
        } else {
            periods(b.long_letters.len() as u32, b.long_period)
                .into_iter()
                .map(|p| p.into_iter().map(|i| b.long_letters[i as usize]).collect())
                .collect()
        };
        stats.long_runs_requested = ps.len() as u64;
        for (n, p) in ps.iter().enumerate() {
            if n >= b.long_max_runs || timed_out(b) {
                stats.long_complete = false;
                stats.cap.get_or_insert(format!("long runs cut at {n}"));
                break;
            }
            for m in ms.iter_mut() {
                if let Err(e) = m.begin_long(p, b.long_steps) {
                    return Outcome::Machinery(format!("{}: {e}", m.name()));
                }
            }
            let mut ds = vec![];
            for m in ms.iter_mut() {
                match m.finish_long(p, b.long_steps) {
                    Ok(d) => ds.push(d),
                    Err(e) => return Outcome::Machinery(format!("{}: {e}", m.name())),
                }
            }
            stats.steps += (b.long_steps as u64 + 1) * ms.len() as u64;
            stats.long_runs += 1;
            for mi in 1..ms.len() {
                if ms[mi].four_state() != ms[0].four_state() {
                    continue; // digests are only comparable between machines of the same state-ness
                }
                stats.compares += 1;
                if ds[mi] != ds[0] {
                    let full: Vec<u32> = (0..b.long_steps).map(|i| p[i % p.len()]).collect();
                    if let Some(mut d) =
                        localize(ms, 0, mi, &full, "long".into(), None, Some((p.as_slice(), b.long_steps)), b.xref, stats)
                    {
                        d.kind = format!("long/{}", d.kind);
                        return Outcome::Diverged(d);
                    }
                }
            }
        }
    }
    Outcome::Ok
}

// ------------------------------------------------------------------------------------------------
// Worker: a machine behind a `vmc worker sim` subprocess
// ------------------------------------------------------------------------------------------------

pub fn enc_path(p: &[u32]) -> String {
    if p.is_empty() {
        return "-".into();
    }
    p.iter().map(|&l| char::from_digit(l, 16).unwrap()).collect()
}

pub fn dec_path(s: &str) -> Vec<u32> {
    if s == "-" {
        return vec![];
    }
    s.chars().filter_map(|c| c.to_digit(16)).collect()
}

pub fn hex(b: &[u8]) -> String {
    b.iter().map(|x| format!("{x:02x}")).collect()
}

pub fn unhex(s: &str) -> Vec<u8> {
    (0..s.len() / 2).filter_map(|i| u8::from_str_radix(&s[2 * i..2 * i + 2], 16).ok()).collect()
}

pub struct Worker {
    pub label: String,
    pub four: bool,
    child: Child,
    stdin: ChildStdin,
    stdout: BufReader<ChildStdout>,
    /// Reply of the last `load` (IR shape line).
    pub shape: String,
}

impl Worker {
    /// Spawns `vmc worker sim` with exactly the given environment additions. Every `VERYL_*`
    /// variable of the parent is removed first so that the toggle set is fully determined by `env`.
    pub fn spawn(label: &str, env: &[(String, String)], scratch: &std::path::Path) -> Result<Worker, String> {
        let exe = std::env::current_exe().map_err(|e| e.to_string())?;
        let mut cmd = Command::new(exe);
        cmd.args(["worker", "sim"]);
        for (k, _) in std::env::vars() {
            if k.starts_with("VERYL_") {
                cmd.env_remove(&k);
            }
        }
        let home = scratch.join("home");
        let _ = std::fs::create_dir_all(&home);
        cmd.env("HOME", &home).env("XDG_CACHE_HOME", home.join("cache"));
        cmd.env("VERYL_AOT_CACHE_DIR", scratch.join("aot_cache"));
        cmd.env("VMC_WORKER_SCRATCH", scratch);
        for (k, v) in env {
            cmd.env(k, v);
        }
        let errlog = std::fs::File::create(scratch.join(format!(
            "worker-{}.log",
            label.replace(|c: char| !c.is_alphanumeric(), "_")
        )))
        .map_err(|e| e.to_string())?;
        cmd.stdin(Stdio::piped()).stdout(Stdio::piped()).stderr(Stdio::from(errlog));
        let mut child = cmd.spawn().map_err(|e| format!("spawn worker: {e}"))?;
        let stdin = child.stdin.take().unwrap();
        let stdout = BufReader::new(child.stdout.take().unwrap());
        Ok(Worker { label: label.to_string(), four: false, child, stdin, stdout, shape: String::new() })
    }

    pub fn send(&mut self, line: &str) -> Result<(), String> {
        self.stdin
            .write_all(line.as_bytes())
            .and_then(|_| self.stdin.write_all(b"\n"))
            .and_then(|_| self.stdin.flush())
            .map_err(|e| format!("worker {} write: {e}", self.label))
    }

    pub fn recv(&mut self) -> Result<String, String> {
        let mut line = String::new();
        let n = self.stdout.read_line(&mut line).map_err(|e| format!("worker {} read: {e}", self.label))?;
        if n == 0 {
            let st = self.child.try_wait().ok().flatten();
            return Err(format!("worker {} closed its pipe (exit {:?})", self.label, st));
        }
        let line = line.trim_end_matches('\n');
        if let Some(r) = line.strip_prefix("ok ") {
            Ok(r.to_string())
        } else if line == "ok" {
            Ok(String::new())
        } else {
            Err(format!("worker {}: {}", self.label, line.strip_prefix("err ").unwrap_or(line)))
        }
    }

    /// Loads a design: `doc` = {src, top, clk, rst, inputs:[[name,width]], outputs:[name], config}.
    pub fn load(&mut self, doc: &serde_json::Value) -> Result<String, String> {
        self.four = doc["config"].as_str().unwrap_or("").contains("4st");
        self.send(&format!("load {}", hex(doc.to_string().as_bytes())))?;
        let r = self.recv()?;
        self.shape = r.clone();
        Ok(r)
    }

    pub fn request(&mut self, line: &str) -> Result<String, String> {
        self.send(line)?;
        self.recv()
    }
}

impl Drop for Worker {
    fn drop(&mut self) {
        let _ = self.send("quit");
        let _ = self.child.wait();
    }
}

fn parse_stepouts(r: &str, n: usize) -> Result<Vec<StepOut>, String> {
    let mut out = Vec::with_capacity(n);
    for e in r.split('\x1e') {
        if e.is_empty() {
            continue;
        }
        let mut f = e.split('\t');
        let obs = f.next().unwrap_or("").to_string();
        let key = unhex(f.next().unwrap_or(""));
        let trace = unhex(f.next().unwrap_or(""));
        out.push(StepOut { obs, key, trace });
    }
    Ok(out)
}

impl Machine for Worker {
    fn name(&self) -> String {
        self.label.clone()
    }
    fn four_state(&self) -> bool {
        self.four
    }
    fn run_paths(&mut self, paths: &[Vec<u32>]) -> Result<Vec<StepOut>, String> {
        self.begin_paths(paths)?;
        self.finish_paths(paths)
    }
    fn begin_paths(&mut self, paths: &[Vec<u32>]) -> Result<(), String> {
        let enc: Vec<String> = paths.iter().map(|p| enc_path(p)).collect();
        self.send(&format!("paths {}", enc.join(";")))
    }
    fn finish_paths(&mut self, paths: &[Vec<u32>]) -> Result<Vec<StepOut>, String> {
        let r = self.recv()?;
        parse_stepouts(&r, paths.len())
    }
    fn run_trace(&mut self, path: &[u32]) -> Result<Vec<String>, String> {
        let r = self.request(&format!("trace {}", enc_path(path)))?;
        Ok(r.split('\x1e').map(|s| s.to_string()).collect())
    }
    fn run_long(&mut self, period: &[u32], steps: usize) -> Result<Vec<u8>, String> {
        self.begin_long(period, steps)?;
        self.finish_long(period, steps)
    }
    fn run_long_trace(&mut self, period: &[u32], steps: usize) -> Result<Vec<String>, String> {
        let r = self.request(&format!("ltrace {} {}", enc_path(period), steps))?;
        Ok(r.split('\x1e').map(|s| s.to_string()).collect())
    }
    fn begin_long(&mut self, period: &[u32], steps: usize) -> Result<(), String> {
        self.send(&format!("long {} {}", enc_path(period), steps))
    }
    fn finish_long(&mut self, _period: &[u32], _steps: usize) -> Result<Vec<u8>, String> {
        Ok(unhex(&self.recv()?))
    }
}

pub fn stepouts_line(v: &[StepOut]) -> String {
    let mut s = String::new();
    for (i, o) in v.iter().enumerate() {
        if i > 0 {
            s.push('\x1e');
        }
        s.push_str(&o.obs);
        s.push('\t');
        s.push_str(&hex(&o.key));
        s.push('\t');
        s.push_str(&hex(&o.trace));
    }
    s
}

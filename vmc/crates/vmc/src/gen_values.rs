//! Shared by C17 / C18 / C36: conversion between the reference model's `V` (one `Bit` per
//! element) and veryl's `Value`, value alphabets, and the operator table together with the rule
//! by which the analyzer derives the `(width, signed)` arguments of `Op::eval_value_*`
//! (`Expression::gather_context` / `apply_context` in crates/analyzer/src/ir/expression.rs).
//!
//! The expected results are computed only by `vmc_refmodels::bits` (R1).

use num_bigint::BigUint;
use num_traits::Zero;
use veryl_analyzer::ir::Op;
use veryl_analyzer::value::{Value, ValueBigUint, ValueU64};
use vmc_refmodels::bits::{Bit, V};

// ------------------------------------------------------------------ V <-> Value

/// veryl's encoding: (payload, mask_xz) = 0:(0,0) 1:(1,0) X:(0,1) Z:(1,1).
pub fn v_to_words(v: &V) -> (BigUint, BigUint) {
    let mut p = BigUint::zero();
    let mut m = BigUint::zero();
    for (i, b) in v.bits.iter().enumerate() {
        match b {
            Bit::Zero => {}
            Bit::One => p.set_bit(i as u64, true),
            Bit::X => m.set_bit(i as u64, true),
            Bit::Z => {
                p.set_bit(i as u64, true);
                m.set_bit(i as u64, true)
            }
        }
    }
    (p, m)
}

/// Builds the `Value` the way every veryl constructor does: `U64` iff width <= 64.
pub fn v_to_value(v: &V) -> Value {
    let (p, m) = v_to_words(v);
    let w = v.width();
    if w <= 64 {
        Value::U64(ValueU64 {
            payload: p.iter_u64_digits().next().unwrap_or(0),
            mask_xz: m.iter_u64_digits().next().unwrap_or(0),
            width: w as u32,
            signed: v.signed,
        })
    } else {
        Value::BigUint(ValueBigUint {
            payload: Box::new(p),
            mask_xz: Box::new(m),
            width: w as u32,
            signed: v.signed,
        })
    }
}

/// Decodes a veryl value. `Err` when payload or mask carry bits at or above `width`
/// (such a value is not the encoding of any `width`-bit vector).
pub fn value_to_v(x: &Value) -> Result<V, String> {
    let w = x.width();
    let p = x.payload();
    let m = x.mask_xz();
    if p.bits() as usize > w || m.bits() as usize > w {
        return Err(format!(
            "stray bits above width {w}: payload={:x} mask_xz={:x}",
            p.as_ref(),
            m.as_ref()
        ));
    }
    let bits = (0..w as u64)
        .map(|i| match (p.bit(i), m.bit(i)) {
            (false, false) => Bit::Zero,
            (true, false) => Bit::One,
            (false, true) => Bit::X,
            (true, true) => Bit::Z,
        })
        .collect();
    Ok(V::new(bits, x.signed()))
}

pub fn is_u64_repr(x: &Value) -> bool {
    matches!(x, Value::U64(_))
}

pub fn value_text(x: &Value) -> String {
    let body = match value_to_v(x) {
        Ok(v) => v.to_string_msb(),
        Err(e) => format!("<{e}>"),
    };
    format!(
        "{}'{}b{} [{}]",
        x.width(),
        if x.signed() { "s" } else { "" },
        body,
        if is_u64_repr(x) { "U64" } else { "BigUint" }
    )
}

pub fn v_text(v: &V) -> String {
    format!("{}'{}b{}", v.width(), if v.signed { "s" } else { "" }, v.to_string_msb())
}

// ------------------------------------------------------------------ alphabets

/// All 4^w four-state vectors of width `w`.
pub fn all_values(w: usize) -> Vec<Vec<Bit>> {
    const D: [Bit; 4] = [Bit::Zero, Bit::One, Bit::X, Bit::Z];
    let n = 1usize << (2 * w);
    (0..n).map(|k| (0..w).map(|i| D[(k >> (2 * i)) & 3]).collect()).collect()
}

/// All 2^w two-state vectors of width `w`.
pub fn all_values_2state(w: usize) -> Vec<Vec<Bit>> {
    (0..1usize << w)
        .map(|k| (0..w).map(|i| Bit::from_bool((k >> i) & 1 == 1)).collect())
        .collect()
}

fn from_fn(w: usize, f: impl Fn(usize) -> Bit) -> Vec<Bit> {
    (0..w).map(f).collect()
}

fn add_one(bits: &[Bit], delta_minus: bool) -> Vec<Bit> {
    // +1 / -1 on a fully known vector, modulo 2^w
    let mut out = bits.to_vec();
    for b in out.iter_mut() {
        let one = *b == Bit::One;
        if delta_minus {
            *b = Bit::from_bool(!one);
            if one {
                break;
            }
        } else {
            *b = Bit::from_bool(!one);
            if !one {
                break;
            }
        }
    }
    out
}

/// Corner alphabet of width `w` (deduplicated, deterministic order). `four_state` adds the
/// X/Z members.
pub fn corner_alphabet(w: usize, four_state: bool) -> Vec<Vec<Bit>> {
    let mut out: Vec<Vec<Bit>> = vec![];
    let mut push = |v: Vec<Bit>| {
        if !out.contains(&v) {
            out.push(v)
        }
    };
    let zero = vec![Bit::Zero; w];
    let ones = vec![Bit::One; w];
    let msb = from_fn(w, |i| Bit::from_bool(i == w - 1));
    push(zero.clone());
    push(add_one(&zero, false)); // 1
    push(from_fn(w, |i| Bit::from_bool(i == 1))); // 2
    push(from_fn(w, |i| Bit::from_bool(i == 0 || i == 1))); // 3
    push(ones.clone()); // max / -1
    push(add_one(&ones, true)); // max-1 / -2
    push(msb.clone()); // most negative
    push(add_one(&msb, false)); // msb+1
    push(add_one(&msb, true)); // 0111..1 = most positive
    push(from_fn(w, |i| Bit::from_bool(i % 2 == 0))); // ..0101
    push(from_fn(w, |i| Bit::from_bool(i % 2 == 1))); // ..1010
    for k in [31usize, 32, 63, 64, 127, 128] {
        if k < w {
            let hot = from_fn(w, |i| Bit::from_bool(i == k));
            push(hot.clone()); // one-hot at a word boundary
            if k % 32 == 0 {
                push(add_one(&hot, true)); // 2^k - 1: carries across the boundary
            }
        }
    }
    if four_state {
        push(vec![Bit::X; w]);
        push(vec![Bit::Z; w]);
        push(from_fn(w, |i| if i == w - 1 { Bit::X } else { Bit::Zero }));
        push(from_fn(w, |i| if i == w - 1 { Bit::Z } else { Bit::One }));
        push(from_fn(w, |i| if i == 0 { Bit::X } else { Bit::One }));
        push(from_fn(w, |i| if i == 0 { Bit::Z } else { Bit::Zero }));
        if w > 40 {
            push(from_fn(w, |i| if i == 33 { Bit::X } else { Bit::from_bool(i % 3 == 0) }));
        }
        if w > 70 {
            push(from_fn(w, |i| if i == 64 { Bit::Z } else { Bit::from_bool(i % 2 == 0) }));
        }
    }
    out
}

/// Extra right-operand values for shift / power operators: amounts around the width of the left
/// operand and around the machine-word boundaries (when representable in `wb` bits).
pub fn amount_alphabet(wa: usize, wb: usize) -> Vec<Vec<Bit>> {
    let mut out = vec![];
    let mut ks = vec![3usize, 5, 31, 32, 33, 63, 64, 65, 127, 128, 129, 255, 256, 257];
    ks.extend([wa.saturating_sub(1), wa, wa + 1]);
    ks.sort();
    ks.dedup();
    for k in ks {
        if wb < 64 && (k >> wb) != 0 {
            continue;
        }
        let v: Vec<Bit> = (0..wb).map(|i| Bit::from_bool(i < 64 && (k >> i) & 1 == 1)).collect();
        if !out.contains(&v) {
            out.push(v);
        }
    }
    out
}

// ------------------------------------------------------------------ operator tables

#[derive(Clone, Copy, Debug, PartialEq, Eq, Hash, PartialOrd, Ord)]
pub enum UOp {
    Plus,
    Neg,
    BitNot,
    RedAnd,
    RedNand,
    RedOr,
    RedNor,
    RedXor,
    RedXnor,
    LogNot,
}

pub const UOPS: [UOp; 10] = [
    UOp::Plus,
    UOp::Neg,
    UOp::BitNot,
    UOp::RedAnd,
    UOp::RedNand,
    UOp::RedOr,
    UOp::RedNor,
    UOp::RedXor,
    UOp::RedXnor,
    UOp::LogNot,
];

impl UOp {
    pub fn veryl(self) -> Op {
        match self {
            UOp::Plus => Op::Add,
            UOp::Neg => Op::Sub,
            UOp::BitNot => Op::BitNot,
            UOp::RedAnd => Op::BitAnd,
            UOp::RedNand => Op::BitNand,
            UOp::RedOr => Op::BitOr,
            UOp::RedNor => Op::BitNor,
            UOp::RedXor => Op::BitXor,
            UOp::RedXnor => Op::BitXnor,
            UOp::LogNot => Op::LogicNot,
        }
    }
    /// operand is context-determined (result has the context width)
    pub fn context_determined(self) -> bool {
        matches!(self, UOp::Plus | UOp::Neg | UOp::BitNot)
    }
    pub fn name(self) -> &'static str {
        match self {
            UOp::Plus => "u+",
            UOp::Neg => "u-",
            UOp::BitNot => "~",
            UOp::RedAnd => "r&",
            UOp::RedNand => "r~&",
            UOp::RedOr => "r|",
            UOp::RedNor => "r~|",
            UOp::RedXor => "r^",
            UOp::RedXnor => "r~^",
            UOp::LogNot => "!",
        }
    }
    /// Veryl source token
    pub fn token(self) -> &'static str {
        match self {
            UOp::Plus => "+",
            UOp::Neg => "-",
            UOp::BitNot => "~",
            UOp::RedAnd => "&",
            UOp::RedNand => "~&",
            UOp::RedOr => "|",
            UOp::RedNor => "~|",
            UOp::RedXor => "^",
            UOp::RedXnor => "~^",
            UOp::LogNot => "!",
        }
    }
}

#[derive(Clone, Copy, Debug, PartialEq, Eq, Hash, PartialOrd, Ord)]
pub enum BOp {
    Add,
    Sub,
    Mul,
    Div,
    Rem,
    And,
    Or,
    Xor,
    Xnor,
    Shl,
    Shr,
    AShl,
    AShr,
    Pow,
    Lt,
    Le,
    Gt,
    Ge,
    Eq,
    Ne,
    WEq,
    WNe,
    LAnd,
    LOr,
    As,
}

pub const BOPS: [BOp; 25] = [
    BOp::Add,
    BOp::Sub,
    BOp::Mul,
    BOp::Div,
    BOp::Rem,
    BOp::And,
    BOp::Or,
    BOp::Xor,
    BOp::Xnor,
    BOp::Shl,
    BOp::Shr,
    BOp::AShl,
    BOp::AShr,
    BOp::Pow,
    BOp::Lt,
    BOp::Le,
    BOp::Gt,
    BOp::Ge,
    BOp::Eq,
    BOp::Ne,
    BOp::WEq,
    BOp::WNe,
    BOp::LAnd,
    BOp::LOr,
    BOp::As,
];

#[derive(Clone, Copy, Debug, PartialEq, Eq)]
pub enum BClass {
    /// both operands context-determined, result has the context width
    Arith,
    /// left operand context-determined, right operand self-determined
    Shift,
    /// operands sized to max(wa, wb), 1-bit result, signed compare iff both signed
    Rel,
    /// as Rel for sizing; 1-bit result
    Equ,
    /// both operands self-determined, 1-bit result
    Logic,
    Cast,
}

impl BOp {
    pub fn veryl(self) -> Op {
        match self {
            BOp::Add => Op::Add,
            BOp::Sub => Op::Sub,
            BOp::Mul => Op::Mul,
            BOp::Div => Op::Div,
            BOp::Rem => Op::Rem,
            BOp::And => Op::BitAnd,
            BOp::Or => Op::BitOr,
            BOp::Xor => Op::BitXor,
            BOp::Xnor => Op::BitXnor,
            BOp::Shl => Op::LogicShiftL,
            BOp::Shr => Op::LogicShiftR,
            BOp::AShl => Op::ArithShiftL,
            BOp::AShr => Op::ArithShiftR,
            BOp::Pow => Op::Pow,
            BOp::Lt => Op::Less,
            BOp::Le => Op::LessEq,
            BOp::Gt => Op::Greater,
            BOp::Ge => Op::GreaterEq,
            BOp::Eq => Op::Eq,
            BOp::Ne => Op::Ne,
            BOp::WEq => Op::EqWildcard,
            BOp::WNe => Op::NeWildcard,
            BOp::LAnd => Op::LogicAnd,
            BOp::LOr => Op::LogicOr,
            BOp::As => Op::As,
        }
    }
    pub fn class(self) -> BClass {
        match self {
            BOp::Add
            | BOp::Sub
            | BOp::Mul
            | BOp::Div
            | BOp::Rem
            | BOp::And
            | BOp::Or
            | BOp::Xor
            | BOp::Xnor => BClass::Arith,
            BOp::Shl | BOp::Shr | BOp::AShl | BOp::AShr | BOp::Pow => BClass::Shift,
            BOp::Lt | BOp::Le | BOp::Gt | BOp::Ge => BClass::Rel,
            BOp::Eq | BOp::Ne | BOp::WEq | BOp::WNe => BClass::Equ,
            BOp::LAnd | BOp::LOr => BClass::Logic,
            BOp::As => BClass::Cast,
        }
    }
    /// Veryl source token (also used as the name)
    pub fn token(self) -> &'static str {
        match self {
            BOp::Add => "+",
            BOp::Sub => "-",
            BOp::Mul => "*",
            BOp::Div => "/",
            BOp::Rem => "%",
            BOp::And => "&",
            BOp::Or => "|",
            BOp::Xor => "^",
            BOp::Xnor => "~^",
            BOp::Shl => "<<",
            BOp::Shr => ">>",
            BOp::AShl => "<<<",
            BOp::AShr => ">>>",
            BOp::Pow => "**",
            BOp::Lt => "<:",
            BOp::Le => "<=",
            BOp::Gt => ">:",
            BOp::Ge => ">=",
            BOp::Eq => "==",
            BOp::Ne => "!=",
            BOp::WEq => "==?",
            BOp::WNe => "!=?",
            BOp::LAnd => "&&",
            BOp::LOr => "||",
            BOp::As => "as",
        }
    }
}

/// `(width, signed)` exactly as `Expression::eval_value` passes them to `eval_value_binary` for a
/// binary node whose operands are terms of types (wa, sa) and (wb, sb), when the surrounding
/// context contributes width `outer` (0 = none) and `outer_unsigned` says that an unsigned sibling
/// in a context-determined parent has cleared the propagated signedness (11.8.1).
pub fn binary_call_context(
    op: BOp,
    wa: usize,
    sa: bool,
    wb: usize,
    sb: bool,
    outer: usize,
    outer_unsigned: bool,
) -> (usize, bool) {
    match op.class() {
        BClass::Arith => (wa.max(wb).max(outer), sa && sb && !outer_unsigned),
        BClass::Shift => (wa.max(outer), sa && !outer_unsigned),
        // relational: signedness from the two operands alone
        BClass::Rel => (1usize.max(outer), sa && sb),
        BClass::Equ | BClass::Logic => (1usize.max(outer), false),
        BClass::Cast => (wa.max(outer), false),
    }
}

pub fn unary_call_context(op: UOp, wa: usize, sa: bool, outer: usize, outer_unsigned: bool) -> (usize, bool) {
    if op.context_determined() {
        (wa.max(outer), sa && !outer_unsigned)
    } else {
        (1usize.max(outer), false)
    }
}

fn bit_result(b: Bit, width: usize) -> V {
    V::new(vec![b], false).resize(width)
}

/// Admissible IEEE results of `a <op> b` evaluated with the call context `(width, signed)`.
/// More than one element only where the standard's wording admits two readings (logical and
/// wildcard equality with x/z operands: strict first, lenient second).
pub fn expect_binary(op: BOp, a: &V, b: &V, width: usize, signed: bool) -> Vec<V> {
    match op.class() {
        BClass::Arith => {
            // signedness is propagated to the operands (11.8.2): an unsigned expression
            // zero-extends everything
            let a2 = a.with_sign(a.signed && signed);
            let b2 = b.with_sign(b.signed && signed);
            let r = match op {
                BOp::Add => V::add(&a2, &b2, width),
                BOp::Sub => V::sub(&a2, &b2, width),
                BOp::Mul => V::mul(&a2, &b2, width),
                BOp::Div => V::div(&a2, &b2, width),
                BOp::Rem => V::rem(&a2, &b2, width),
                BOp::And => V::bit_and(&a2, &b2, width),
                BOp::Or => V::bit_or(&a2, &b2, width),
                BOp::Xor => V::bit_xor(&a2, &b2, width),
                BOp::Xnor => V::bit_xnor(&a2, &b2, width),
                _ => unreachable!(),
            };
            vec![r]
        }
        BClass::Shift => {
            let a2 = a.with_sign(a.signed && signed);
            let r = match op {
                BOp::Shl => V::shift(&a2, b, width, true, false),
                BOp::Shr => V::shift(&a2, b, width, false, false),
                BOp::AShl => V::shift(&a2, b, width, true, true),
                BOp::AShr => V::shift(&a2, b, width, false, true),
                BOp::Pow => V::pow(&a2, b, width),
                _ => unreachable!(),
            };
            vec![r]
        }
        BClass::Rel => {
            let a2 = a.with_sign(a.signed && signed);
            let b2 = b.with_sign(b.signed && signed);
            let r = match op {
                BOp::Lt => V::lt(&a2, &b2),
                BOp::Le => V::le(&a2, &b2),
                BOp::Gt => V::gt(&a2, &b2),
                BOp::Ge => V::ge(&a2, &b2),
                _ => unreachable!(),
            };
            vec![r.resize(width)]
        }
        BClass::Equ => {
            let (s, l) = match op {
                BOp::Eq | BOp::Ne => V::eq2(a, b),
                _ => V::wild_eq2(a, b),
            };
            let neg = matches!(op, BOp::Ne | BOp::WNe);
            let f = |x: Bit| bit_result(if neg { x.not() } else { x }, width);
            if s == l { vec![f(s)] } else { vec![f(s), f(l)] }
        }
        BClass::Logic => {
            let r = match op {
                BOp::LAnd => V::log_and(a, b),
                _ => V::log_or(a, b),
            };
            vec![r.resize(width)]
        }
        BClass::Cast => vec![a.clone()],
    }
}

/// Admissible IEEE results of `<op> a`. Unary plus of an operand with x/z bits has two readings
/// ("same as m", Table 11-3, vs. "arithmetic operator: entire result x", 11.4.2): all-x first.
pub fn expect_unary(op: UOp, a: &V, width: usize, signed: bool) -> Vec<V> {
    if op.context_determined() {
        let a2 = a.with_sign(a.signed && signed);
        match op {
            UOp::Plus => {
                let strict = V::plus(&a2, width);
                let same = a2.resize(a2.width().max(width));
                if strict == same { vec![strict] } else { vec![strict, same] }
            }
            UOp::Neg => vec![V::neg(&a2, width)],
            UOp::BitNot => vec![V::bit_not(&a2, width)],
            _ => unreachable!(),
        }
    } else {
        let r = match op {
            UOp::RedAnd => a.red_and(),
            UOp::RedNand => a.red_nand(),
            UOp::RedOr => a.red_or(),
            UOp::RedNor => a.red_nor(),
            UOp::RedXor => a.red_xor(),
            UOp::RedXnor => a.red_xnor(),
            UOp::LogNot => V::log_not(a),
            _ => unreachable!(),
        };
        vec![r.resize(width)]
    }
}

pub fn wclass(w: usize) -> &'static str {
    if w <= 4 {
        "w<=4"
    } else if w <= 64 {
        "w<=64"
    } else {
        "w>64"
    }
}

// ------------------------------------------------------------------ expression trees

/// Expression tree over numbered leaves, printable as Veryl source and convertible to the
/// reference model's tree (`vmc_refmodels::expr::E`). `BOp::As` never appears in `Bi`.
#[derive(Clone, Debug, PartialEq, Eq, Hash)]
pub enum Ex {
    Leaf(usize),
    Un(UOp, Box<Ex>),
    Bi(BOp, Box<Ex>, Box<Ex>),
    /// `if c ? a : b`
    Cond(Box<Ex>, Box<Ex>, Box<Ex>),
    /// `{a, b, ...}`
    Concat(Vec<Ex>),
    /// `x as N` (numeric width cast)
    Cast(Box<Ex>, usize),
}

pub fn leaf(i: usize) -> Box<Ex> {
    Box::new(Ex::Leaf(i))
}

/// Veryl literal for a 4-state vector: `<w>'[s]b<bits>`.
pub fn literal(v: &V) -> String {
    format!("{}'{}b{}", v.width(), if v.signed { "s" } else { "" }, v.to_string_msb())
}

impl Ex {
    /// Fully parenthesised Veryl source; `leaf_text(i)` renders leaf `i`.
    pub fn text(&self, leaf_text: &dyn Fn(usize) -> String) -> String {
        match self {
            Ex::Leaf(i) => leaf_text(*i),
            Ex::Un(op, x) => format!("({}{})", op.token(), x.text_operand(leaf_text)),
            Ex::Bi(op, l, r) => format!("({} {} {})", l.text(leaf_text), op.token(), r.text(leaf_text)),
            Ex::Cond(c, a, b) => format!("(if {} ? {} : {})", c.text(leaf_text), a.text(leaf_text), b.text(leaf_text)),
            Ex::Concat(xs) => format!("{{{}}}", xs.iter().map(|x| x.text(leaf_text)).collect::<Vec<_>>().join(", ")),
            Ex::Cast(x, w) => format!("({} as {w})", x.text(leaf_text)),
        }
    }
    fn text_operand(&self, leaf_text: &dyn Fn(usize) -> String) -> String {
        match self {
            // a bare literal/identifier directly after a unary operator token
            Ex::Leaf(i) => leaf_text(*i),
            _ => self.text(leaf_text),
        }
    }
    pub fn to_ref(&self) -> vmc_refmodels::expr::E {
        use vmc_refmodels::expr::{Bi, E, Un};
        match self {
            Ex::Leaf(i) => E::Leaf(*i),
            Ex::Un(op, x) => {
                let o = match op {
                    UOp::Plus => Un::Plus,
                    UOp::Neg => Un::Neg,
                    UOp::BitNot => Un::BitNot,
                    UOp::RedAnd => Un::RedAnd,
                    UOp::RedNand => Un::RedNand,
                    UOp::RedOr => Un::RedOr,
                    UOp::RedNor => Un::RedNor,
                    UOp::RedXor => Un::RedXor,
                    UOp::RedXnor => Un::RedXnor,
                    UOp::LogNot => Un::LogNot,
                };
                E::Un(o, Box::new(x.to_ref()))
            }
            Ex::Bi(op, l, r) => {
                let o = match op {
                    BOp::Add => Bi::Add,
                    BOp::Sub => Bi::Sub,
                    BOp::Mul => Bi::Mul,
                    BOp::Div => Bi::Div,
                    BOp::Rem => Bi::Rem,
                    BOp::And => Bi::And,
                    BOp::Or => Bi::Or,
                    BOp::Xor => Bi::Xor,
                    BOp::Xnor => Bi::Xnor,
                    BOp::Shl => Bi::Shl,
                    BOp::Shr => Bi::Shr,
                    BOp::AShl => Bi::AShl,
                    BOp::AShr => Bi::AShr,
                    BOp::Pow => Bi::Pow,
                    BOp::Lt => Bi::Lt,
                    BOp::Le => Bi::Le,
                    BOp::Gt => Bi::Gt,
                    BOp::Ge => Bi::Ge,
                    BOp::Eq => Bi::Eq,
                    BOp::Ne => Bi::Ne,
                    BOp::WEq => Bi::WEq,
                    BOp::WNe => Bi::WNe,
                    BOp::LAnd => Bi::LAnd,
                    BOp::LOr => Bi::LOr,
                    BOp::As => panic!("`as` is not an Ex::Bi operator"),
                };
                E::Bi(o, Box::new(l.to_ref()), Box::new(r.to_ref()))
            }
            Ex::Cond(c, a, b) => E::Cond(Box::new(c.to_ref()), Box::new(a.to_ref()), Box::new(b.to_ref())),
            Ex::Concat(xs) => E::Concat(xs.iter().map(|x| x.to_ref()).collect()),
            // IEEE 1800 6.24.1 size cast: signedness passes through
            Ex::Cast(x, w) => E::Cast(Box::new(x.to_ref()), *w, None),
        }
    }
    /// operator names of the root and of its operator children: `+(<<,leaf)`
    pub fn shape(&self) -> String {
        fn name(e: &Ex) -> String {
            match e {
                Ex::Leaf(_) => "leaf".into(),
                Ex::Un(op, _) => op.name().into(),
                Ex::Bi(op, _, _) => op.token().into(),
                Ex::Cond(..) => "?:".into(),
                Ex::Concat(_) => "{}".into(),
                Ex::Cast(..) => "as".into(),
            }
        }
        match self {
            Ex::Cast(x, w) => format!("as{w}({})", name(x)),
            Ex::Leaf(_) => "leaf".into(),
            Ex::Un(_, x) => format!("{}({})", name(self), name(x)),
            Ex::Bi(_, l, r) => format!("{}({},{})", name(self), name(l), name(r)),
            Ex::Cond(c, a, b) => format!("?:({},{},{})", name(c), name(a), name(b)),
            Ex::Concat(xs) => format!("{{}}({})", xs.iter().map(name).collect::<Vec<_>>().join(",")),
        }
    }
}

/// Distinct admissible IEEE results of the expression in a context contributing `ctx` bits
/// (0 = none), over the readings the standard's wording admits (see `expr::READINGS`).
pub fn expect_expr(e: &Ex, env: &[V], ctx: usize) -> Vec<V> {
    use vmc_refmodels::expr;
    let r = e.to_ref();
    let w = expr::self_width(&r, env).max(ctx);
    let s = expr::self_signed(&r, env);
    let mut out: Vec<V> = vec![];
    for rd in expr::READINGS {
        let v = expr::eval(&r, env, w, s, rd);
        if !out.contains(&v) {
            out.push(v);
        }
    }
    out
}

/// How a returned bit vector differs from the expected one (same width).
pub fn mismatch_class(got: &[Bit], exp: &[Bit]) -> &'static str {
    let mut known_for_x = false;
    let mut x_for_known = false;
    let mut bits = false;
    for (g, e) in got.iter().zip(exp.iter()) {
        if g == e {
            continue;
        }
        match (g.is_xz(), e.is_xz()) {
            (false, true) => known_for_x = true,
            (true, false) => x_for_known = true,
            (false, false) => bits = true,
            (true, true) => x_for_known = true, // z where x is required or vice versa
        }
    }
    if bits {
        "wrong-bits"
    } else if known_for_x && x_for_known {
        "xz-misplaced"
    } else if known_for_x {
        "known-for-x"
    } else {
        "x-for-known"
    }
}

/// Class of the right operand of a shift / power operator.
pub fn amount_class(b: &V, wa: usize) -> &'static str {
    if b.has_xz() {
        "amt-xz"
    } else if b.signed && b.msb() == Bit::One {
        "amt-msb-set-signed"
    } else if b.bits.iter().skip(64).any(|x| *x == Bit::One) {
        "amt>=2^64"
    } else if b.to_u128().map(|x| x >= wa as u128).unwrap_or(true) {
        "amt>=width"
    } else {
        "amt<width"
    }
}

/// The tree evaluated with veryl's own compile-time operators (`Op::eval_value_unary/binary`)
/// called with the IEEE call contexts — the replay that C17 part E shows to be equal to the
/// analyzer's `Expression::eval_value` on every generated expression. `None` for trees containing
/// a ternary, concatenation or cast (those are not `Op::eval_value_*` operators), or on a panic.
pub fn comptime_replay(e: &Ex, env: &[V], envx: &[Value], w: usize, s: bool, mc: &mut veryl_analyzer::value::MaskCache) -> Option<Value> {
    use vmc_refmodels::expr::{self_signed, self_width};
    let sw = |x: &Ex| self_width(&x.to_ref(), env);
    let ss = |x: &Ex| self_signed(&x.to_ref(), env);
    match e {
        Ex::Leaf(i) => Some(envx[*i].clone()),
        Ex::Un(op, x) => {
            let (c, cs) = if op.context_determined() {
                (comptime_replay(x, env, envx, w, s, mc)?, s)
            } else {
                (comptime_replay(x, env, envx, sw(x), ss(x), mc)?, false)
            };
            std::panic::catch_unwind(std::panic::AssertUnwindSafe(|| op.veryl().eval_value_unary(&c, w, cs, mc))).ok()
        }
        Ex::Bi(op, l, r) => {
            let (lw, ls, rw, rs, cs) = match op.class() {
                BClass::Arith => (w, s, w, s, s),
                BClass::Shift => (w, s, sw(r), ss(r), s),
                BClass::Rel | BClass::Equ => {
                    let wl = sw(l).max(sw(r));
                    let sl = ss(l) && ss(r);
                    (wl, sl, wl, sl, sl && op.class() == BClass::Rel)
                }
                BClass::Logic => (sw(l), ss(l), sw(r), ss(r), false),
                BClass::Cast => return None,
            };
            let lv = comptime_replay(l, env, envx, lw, ls, mc)?;
            let rv = comptime_replay(r, env, envx, rw, rs, mc)?;
            std::panic::catch_unwind(std::panic::AssertUnwindSafe(|| op.veryl().eval_value_binary(&lv, &rv, w, cs, mc))).ok()
        }
        Ex::Cond(..) | Ex::Concat(_) | Ex::Cast(..) => None,
    }
}

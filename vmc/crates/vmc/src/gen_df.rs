//! DF — the finite generated design family shared by the simulator-facing checks
//! (C02, C03, C33, C34 and, by design, C01/C13/C19/C20/C22/C26/C36).
//!
//! Every member is a self-contained Veryl source text whose top module is `Top` with the port
//! signature
//!     clk: input clock, rst: input <reset type>, <data inputs totalling <= 4 bits>, <outputs>
//! so that a stimulus letter is one valuation of all data inputs (at most 16 letters) and the
//! reachable product state space stays small enough for exhaustive lock-step exploration (E2).
//!
//! The family is a deterministic list (no randomness); `family(Scope::Core)` is the quick subset,
//! `family(Scope::Full)` everything.  Order is simplest-first within each class.
//! Every member must analyze with zero diagnostics on the unchanged tree: a rejection is a
//! generator bug (counted by the checks, must stay near zero).

#![allow(dead_code)]

use std::fmt::Write as _;

#[derive(Clone, Debug, PartialEq, Eq)]
pub struct Port {
    pub name: String,
    pub width: u32,
    pub signed: bool,
}

#[derive(Clone, Copy, Debug, PartialEq, Eq)]
pub enum Scope {
    Core,
    Full,
}

#[derive(Clone, Debug)]
pub struct Design {
    /// Stable unique identifier, e.g. `expr/add/w2x2/us`.
    pub id: String,
    /// Template class: expr | unary | misc | wide | stmt | seq | struct | pair | opt.
    pub class: &'static str,
    /// Top module name (always `Top` for single designs).
    pub top: String,
    pub src: String,
    pub clk: String,
    pub rst: String,
    /// Data inputs in letter order (first port = least significant bits of the letter).
    pub inputs: Vec<Port>,
    pub outputs: Vec<Port>,
    /// Member of the quick subset.
    pub core: bool,
    /// Free-form tags: simulator passes a shape is aimed at, constructs used.
    pub tags: Vec<String>,
}

impl Design {
    pub fn input_bits(&self) -> u32 {
        self.inputs.iter().map(|p| p.width).sum()
    }
    /// Number of input letters (all valuations of the data inputs).
    pub fn letters(&self) -> u32 {
        1u32 << self.input_bits()
    }
    /// Splits a letter into per-port values (port order, LSB first).
    pub fn split_letter(&self, letter: u32) -> Vec<u64> {
        let mut out = Vec::with_capacity(self.inputs.len());
        let mut sh = 0;
        for p in &self.inputs {
            out.push(((letter >> sh) & ((1u32 << p.width) - 1)) as u64);
            sh += p.width;
        }
        out
    }
    pub fn has_tag(&self, t: &str) -> bool {
        self.tags.iter().any(|x| x == t)
    }
}

pub fn ty(width: u32, signed: bool) -> String {
    let s = if signed { "signed " } else { "" };
    if width == 1 { format!("{s}logic") } else { format!("{s}logic<{width}>") }
}

/// Module text builder.
pub struct B {
    id: String,
    class: &'static str,
    core: bool,
    tags: Vec<String>,
    rst_ty: String,
    clk_ty: String,
    ins: Vec<Port>,
    outs: Vec<Port>,
    pre: String,
    generics: String,
    body: String,
}

impl B {
    pub fn new(class: &'static str, id: impl Into<String>) -> B {
        B {
            id: id.into(),
            class,
            core: false,
            tags: vec![],
            rst_ty: "reset".into(),
            clk_ty: "clock".into(),
            ins: vec![],
            outs: vec![],
            pre: String::new(),
            generics: String::new(),
            body: String::new(),
        }
    }
    pub fn core(mut self, c: bool) -> B {
        self.core = c;
        self
    }
    pub fn tag(mut self, t: &str) -> B {
        self.tags.push(t.to_string());
        self
    }
    pub fn rst_ty(mut self, t: &str) -> B {
        self.rst_ty = t.into();
        self
    }
    pub fn clk_ty(mut self, t: &str) -> B {
        self.clk_ty = t.into();
        self
    }
    pub fn inp(mut self, name: &str, w: u32, signed: bool) -> B {
        self.ins.push(Port { name: name.into(), width: w, signed });
        self
    }
    pub fn out(mut self, name: &str, w: u32, signed: bool) -> B {
        self.outs.push(Port { name: name.into(), width: w, signed });
        self
    }
    /// Text placed before `module Top` (packages, interfaces, sub-modules).
    pub fn pre(mut self, t: &str) -> B {
        self.pre.push_str(t);
        if !t.ends_with('\n') {
            self.pre.push('\n');
        }
        self
    }
    /// One or more body lines.
    pub fn l(mut self, t: &str) -> B {
        for line in t.lines() {
            self.body.push_str("    ");
            self.body.push_str(line);
            self.body.push('\n');
        }
        self
    }
    pub fn finish(self) -> Design {
        assert!(self.ins.iter().map(|p| p.width).sum::<u32>() <= 4, "{}: >4 input bits", self.id);
        let mut s = String::new();
        s.push_str(&self.pre);
        let _ = writeln!(s, "module Top{} (", self.generics);
        let _ = writeln!(s, "    clk: input {},", self.clk_ty);
        let _ = writeln!(s, "    rst: input {},", self.rst_ty);
        for p in &self.ins {
            let _ = writeln!(s, "    {}: input {},", p.name, ty(p.width, p.signed));
        }
        for p in &self.outs {
            let _ = writeln!(s, "    {}: output {},", p.name, ty(p.width, p.signed));
        }
        s.push_str(") {\n");
        s.push_str(&self.body);
        s.push_str("}\n");
        Design {
            id: self.id,
            class: self.class,
            top: "Top".into(),
            src: s,
            clk: "clk".into(),
            rst: "rst".into(),
            inputs: self.ins,
            outputs: self.outs,
            core: self.core,
            tags: self.tags,
        }
    }
}

fn sg(s: bool) -> &'static str {
    if s { "s" } else { "u" }
}

// ------------------------------------------------------------------------------------------
// expr: one module per (binary operator, operand widths, operand signedness)
// ------------------------------------------------------------------------------------------

pub const BIN_OPS: &[(&str, &str)] = &[
    ("add", "+"),
    ("sub", "-"),
    ("mul", "*"),
    ("div", "/"),
    ("rem", "%"),
    ("pow", "**"),
    ("and", "&"),
    ("or", "|"),
    ("xor", "^"),
    ("xnor", "~^"),
    ("shl", "<<"),
    ("shr", ">>"),
    ("lt", "<:"),
    ("le", "<="),
    ("gt", ">:"),
    ("ge", ">="),
    ("eq", "=="),
    ("ne", "!="),
    ("weq", "==?"),
    ("wne", "!=?"),
];
pub const ARITH_SHIFT_OPS: &[(&str, &str)] = &[("ashl", "<<<"), ("ashr", ">>>")];
pub const WIDTH_PAIRS: &[(u32, u32)] = &[(2, 2), (1, 3), (3, 1), (1, 1), (2, 1), (1, 2)];

fn expr_module(name: &str, op: &str, wa: u32, wb: u32, sa: bool, sb: bool, core: bool) -> Design {
    let e = format!("a {op} b");
    B::new("expr", format!("expr/{name}/w{wa}x{wb}/{}{}", sg(sa), sg(sb)))
        .core(core)
        .inp("a", wa, sa)
        .inp("b", wb, sb)
        .out("y1", 1, false)
        .out("y3", 3, false)
        .out("y5", 5, false)
        .out("ys", 5, true)
        .out("yc", 1, false)
        .out("qa", 3, false)
        .out("qr", 5, false)
        .l(&format!("assign y1 = {e};"))
        .l(&format!("assign y3 = {e};"))
        .l(&format!("assign y5 = {e};"))
        .l(&format!("assign ys = {e};"))
        .l(&format!(
            "always_comb {{\n    yc = 0;\n    if ({e}) != 0 {{\n        yc = 1;\n    }}\n}}"
        ))
        .l("var acc: logic<3>;")
        .l(&format!(
            "always_ff {{\n    if_reset {{\n        acc = 0;\n    }} else {{\n        acc = acc + ({e});\n    }}\n}}"
        ))
        .l("assign qa = acc;")
        .l(&format!(
            "always_ff {{\n    if_reset {{\n        qr = 0;\n    }} else {{\n        qr = {e};\n    }}\n}}"
        ))
        .finish()
}

pub fn gen_expr(out: &mut Vec<Design>) {
    for &(wa, wb) in WIDTH_PAIRS {
        for (sa, sb) in [(false, false), (true, true), (true, false), (false, true)] {
            for &(name, op) in BIN_OPS {
                let core = (wa, wb) == (2, 2) && (sa == sb || sa);
                out.push(expr_module(name, op, wa, wb, sa, sb, core));
            }
            if sa {
                for &(name, op) in ARITH_SHIFT_OPS {
                    let core = (wa, wb) == (2, 2) || (wa, wb) == (3, 1);
                    out.push(expr_module(name, op, wa, wb, sa, sb, core));
                }
            }
        }
    }
    // logical operators: 1-bit operands, and reductions of wider operands
    for (name, op) in [("land", "&&"), ("lor", "||")] {
        out.push(expr_module(name, op, 1, 1, false, false, true));
        for (i, (ea, eb)) in [("(|a)", "(&b)"), ("(a == 2'd1)", "(b >: 2'd1)"), ("a[1]", "(^b)")]
            .iter()
            .enumerate()
        {
            let e = format!("{ea} {op} {eb}");
            out.push(
                B::new("expr", format!("expr/{name}/red{i}"))
                    .core(i == 0)
                    .inp("a", 2, false)
                    .inp("b", 2, false)
                    .out("y1", 1, false)
                    .out("y3", 3, false)
                    .out("qr", 2, false)
                    .l(&format!("assign y1 = {e};"))
                    .l(&format!("assign y3 = {{1'b0, {e}, 1'b1}};"))
                    .l(&format!(
                        "always_ff {{\n    if_reset {{\n        qr = 0;\n    }} else if {e} {{\n        qr = qr + 1;\n    }}\n}}"
                    ))
                    .finish(),
            );
        }
    }
}

// ------------------------------------------------------------------------------------------
// unary
// ------------------------------------------------------------------------------------------

pub const UN_OPS: &[(&str, &str)] = &[
    ("plus", "+"),
    ("neg", "-"),
    ("not", "~"),
    ("rand", "&"),
    ("ror", "|"),
    ("rxor", "^"),
    ("rnand", "~&"),
    ("rnor", "~|"),
    ("rxnor", "~^"),
];

pub fn gen_unary(out: &mut Vec<Design>) {
    for w in 1..=4u32 {
        for s in [false, true] {
            for &(name, op) in UN_OPS {
                let e = format!("{op}a");
                let mut b = B::new("unary", format!("unary/{name}/w{w}/{}", sg(s)))
                    .core(w == 3 || (w == 2 && s))
                    .inp("a", w, s);
                if w < 4 {
                    b = b.inp("b", 4 - w, false);
                }
                let bsum = if w < 4 { " + b" } else { "" };
                out.push(
                    b.out("y1", 1, false)
                        .out("y5", 5, false)
                        .out("ys", 5, true)
                        .out("yb", 5, false)
                        .out("qr", 3, false)
                        .l(&format!("assign y1 = {e};"))
                        .l(&format!("assign y5 = {e};"))
                        .l(&format!("assign ys = {e};"))
                        .l(&format!("assign yb = ({e}){bsum};"))
                        .l(&format!(
                            "always_ff {{\n    if_reset {{\n        qr = 0;\n    }} else {{\n        qr = qr ^ ({e});\n    }}\n}}"
                        ))
                        .finish(),
                );
            }
        }
    }
    // logical not: 1-bit operand and comparison operand
    for (i, e) in ["!a", "!(a == b)", "!(|b)"].iter().enumerate() {
        out.push(
            B::new("unary", format!("unary/lnot/{i}"))
                .core(i == 1)
                .inp("a", 1, false)
                .inp("b", 1, false)
                .out("y1", 1, false)
                .out("y3", 3, false)
                .l(&format!("assign y1 = {e};"))
                .l(&format!("assign y3 = {{{e}, a, b}};"))
                .finish(),
        );
    }
}

// Further template groups (same namespace, split only to keep files reviewable).
#[path = "gen_df_misc.rs"]
mod misc;
#[path = "gen_df_opt.rs"]
mod opt;
#[path = "gen_df_seq.rs"]
mod seq;
#[path = "gen_df_tb.rs"]
mod tb;

pub use opt::gen_opt_shapes;
pub use tb::{MultiTop, TbCase, multi_top_projects, tb_family};

/// Variant of a design whose logic lives one level down: `Top` is renamed `Core` and a new `Top`
/// with the same ports instantiates it.  The simulator treats every variable of the ROOT module
/// as externally visible (never fused / retired), so several passes (comb fusion, lane
/// vectorisation, dead-variable DCE) only act below the root.  Id gets the suffix `@sub`.
pub fn wrap_in_submodule(d: &Design) -> Design {
    let kind = |port: &str| -> String {
        let pat = format!("    {port}: input ");
        d.src
            .lines()
            .find_map(|l| l.strip_prefix(pat.as_str()))
            .map(|r| r.trim_end_matches(',').to_string())
            .unwrap_or_else(|| if port == "clk" { "clock".into() } else { "reset".into() })
    };
    let mut s = d.src.replacen("module Top (", "module Core (", 1);
    let _ = writeln!(s, "module Top (");
    let _ = writeln!(s, "    clk: input {},", kind("clk"));
    let _ = writeln!(s, "    rst: input {},", kind("rst"));
    for p in &d.inputs {
        let _ = writeln!(s, "    {}: input {},", p.name, ty(p.width, p.signed));
    }
    for p in &d.outputs {
        let _ = writeln!(s, "    {}: output {},", p.name, ty(p.width, p.signed));
    }
    let _ = writeln!(s, ") {{");
    let _ = writeln!(s, "    inst core: Core (");
    let _ = writeln!(s, "        clk,\n        rst,");
    for p in d.inputs.iter().chain(d.outputs.iter()) {
        let _ = writeln!(s, "        {},", p.name);
    }
    let _ = writeln!(s, "    );\n}}");
    let mut w = d.clone();
    w.id = format!("{}@sub", d.id);
    w.src = s;
    w
}

/// The whole family in deterministic order. `Scope::Core` keeps the members flagged `core`.
pub fn family(scope: Scope) -> Vec<Design> {
    let mut v = vec![];
    gen_expr(&mut v);
    gen_unary(&mut v);
    misc::gen_misc(&mut v);
    misc::gen_wide(&mut v);
    seq::gen_stmt(&mut v);
    seq::gen_seq(&mut v);
    seq::gen_struct(&mut v);
    seq::gen_pairs(&mut v);
    // `sub`: every 4th non-wide member once more with its logic below the root
    let subs: Vec<Design> = v
        .iter()
        .filter(|d| d.class != "wide")
        .step_by(4)
        .enumerate()
        .map(|(i, d)| {
            let mut w = wrap_in_submodule(d);
            w.class = "sub";
            w.core = i % 7 == 0;
            w
        })
        .collect();
    v.extend(subs);
    let mut opts = vec![];
    opt::gen_opt_shapes(&mut opts, scope);
    // single-module opt-shapes are explored below the root, where the passes act
    v.extend(opts.into_iter().map(|d| if d.has_tag("wrap") { wrap_in_submodule(&d) } else { d }));
    if scope == Scope::Core {
        v.retain(|d| d.core);
    }
    // ids must be unique
    let mut seen = std::collections::HashSet::new();
    for d in &v {
        assert!(seen.insert(d.id.clone()), "duplicate design id {}", d.id);
    }
    v
}

/// Members of one class only.
pub fn family_class(scope: Scope, class: &str) -> Vec<Design> {
    family(scope).into_iter().filter(|d| d.class == class).collect()
}

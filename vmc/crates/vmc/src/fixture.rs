//! The small multi-file project used by the CLI-level checks (C04, C05, C27).
//!
//! pkg.veryl (package const) <- a.veryl (module using Pkg::W) <- b.veryl (instantiates A)
//! t.veryl (#[test] module around A), examples/ex.veryl (analysed, never emitted).

pub const FILES: [&str; 5] = ["src/pkg.veryl", "src/a.veryl", "src/b.veryl", "src/t.veryl", "examples/ex.veryl"];

pub fn toml(strip_comments: bool, bundle: bool, sourcemap: bool) -> String {
    format!(
        r#"[project]
name = "prj"
version = "0.1.0"

[build]
clock_type = "posedge"
reset_type = "async_low"
incremental = true
exclude_std = true
sources = ["src"]
strip_comments = {strip}
target = {target}
sourcemap_target = {map}

[test]
"#,
        strip = strip_comments,
        target = if bundle {
            r#"{type = "bundle", path = "target/all.sv"}"#
        } else {
            r#"{type = "directory", path = "target"}"#
        },
        map = if sourcemap {
            r#"{type = "directory", path = "map"}"#
        } else {
            r#"{type = "none"}"#
        },
    )
}

/// Content of file `f` in variant `v` ∈ {v0, v1, warn, err_sem, err_syn}.
pub fn content(f: &str, v: &str) -> String {
    match (f, v) {
        ("src/pkg.veryl", "v0") => format!("/// package doc\npackage Pkg {{\n    const W: u32 = 4;\n{PKG_F}}}\n"),
        ("src/pkg.veryl", "v1") => format!("/// package doc\npackage Pkg {{\n    const W: u32 = 5;\n{PKG_F}}}\n"),
        // interface change that only a user's pass 2 notices: f gains an argument
        ("src/pkg.veryl", "iface") => "/// package doc\npackage Pkg {\n    const W: u32 = 4;\n    function f (\n        x: input logic,\n        y: input logic,\n    ) -> logic {\n        return ~x & y;\n    }\n}\n".into(),
        ("src/pkg.veryl", "warn") => {
            // a package cannot easily warn; use a second, unused-variable carrying module in the same file
            format!("/// package doc\npackage Pkg {{\n    const W: u32 = 4;\n{PKG_F}}}\nmodule PkgAux {{\n    var unused_p: logic;\n}}\n")
        }
        ("src/pkg.veryl", "err_sem") => format!("package Pkg {{\n    const W: u32 = UNDEFINED_NAME;\n{PKG_F}}}\n"),
        ("src/pkg.veryl", "err_syn") => format!("package Pkg {{\n    const W: u32 = ;\n{PKG_F}}}\n"),
        // src/c.veryl is NOT part of the base project: a `set` letter adds it, making it a new
        // dependent of the unchanged (restored) pkg.veryl
        ("src/c.veryl", v) => {
            let e = match v {
                "v0" => "Pkg::f(i)",
                "v1" => "~Pkg::f(i)",
                "warn" => "Pkg::f(i)",
                "err_sem" => "Pkg::no_such_function(i)",
                "err_syn" => "Pkg::f(i",
                _ => unreachable!(),
            };
            let extra = if v == "warn" { "    var unused_c: logic;\n" } else { "" };
            format!("module C (\n    i: input  logic,\n    o: output logic,\n) {{\n{extra}    assign o = {e};\n}}\n")
        }

        ("src/a.veryl", v) => {
            let body = match v {
                "v0" => "o_q = i_d;",
                "v1" => "o_q = ~i_d;",
                "warn" => "o_q = i_d;",
                "err_sem" => "o_q = undefined_sig;",
                "err_syn" => "o_q = = i_d;",
                _ => unreachable!(),
            };
            let extra = if v == "warn" { "    var unused_a: logic;\n" } else { "" };
            format!(
                "// module A\nmodule A (\n    i_clk: input  clock,\n    i_rst: input  reset,\n    i_d  : input  logic<Pkg::W>,\n    o_q  : output logic<Pkg::W>,\n) {{\n{extra}    always_ff {{\n        if_reset {{\n            o_q = 0;\n        }} else {{\n            {body}\n        }}\n    }}\n}}\n"
            )
        }
        ("src/b.veryl", v) => {
            let (extra, conn) = match v {
                "v0" => ("", "o_q"),
                "v1" => ("    var w: logic<Pkg::W>;\n    assign o_q = w + 1;\n", "w"),
                "warn" => ("    var unused_b: logic;\n", "o_q"),
                "err_sem" => ("", "no_such_signal"),
                "err_syn" => ("    var ;\n", "o_q"),
                _ => unreachable!(),
            };
            format!(
                "module B (\n    i_clk: input  clock,\n    i_rst: input  reset,\n    i_d  : input  logic<Pkg::W>,\n    o_q  : output logic<Pkg::W>,\n) {{\n{extra}    inst u: A (\n        i_clk: i_clk,\n        i_rst: i_rst,\n        i_d  : i_d  ,\n        o_q  : {conn},\n    );\n}}\n"
            )
        }
        ("src/t.veryl", v) => {
            let (extra, n) = match v {
                "v0" => ("", "3"),
                "v1" => ("", "4"),
                "warn" => ("    var unused_t: logic;\n", "3"),
                "err_sem" => ("", "undefined_count"),
                "err_syn" => ("    inst ;\n", "3"),
                _ => unreachable!(),
            };
            format!(
                "#[test(test_a)]\nmodule test_a {{\n    inst clk: $tb::clock_gen;\n    inst rst: $tb::reset_gen ( clk );\n{extra}    var d: logic<Pkg::W>;\n    var q: logic<Pkg::W>;\n    assign d = 1;\n    inst dut: A (\n        i_clk: clk,\n        i_rst: rst,\n        i_d  : d  ,\n        o_q  : q  ,\n    );\n    initial {{\n        rst.assert();\n        clk.next({n});\n        $display(\"q=%d\", q);\n        $finish();\n    }}\n}}\n"
            )
        }
        ("examples/ex.veryl", v) => {
            let body = match v {
                "v0" => "assign o = i;",
                "v1" => "assign o = ~i;",
                "warn" => "var unused_e: logic;\n    assign o = i;",
                "err_sem" => "assign o = nothing_here;",
                "err_syn" => "assign o = ;",
                _ => unreachable!(),
            };
            format!("module Ex (\n    i: input  logic<Pkg::W>,\n    o: output logic<Pkg::W>,\n) {{\n    {body}\n}}\n")
        }
        _ => unreachable!("{f} {v}"),
    }
}

/// function of the package that src/c.veryl calls
const PKG_F: &str = "    function f (\n        x: input logic,\n    ) -> logic {\n        return ~x;\n    }\n";

pub const VARIANTS: [&str; 5] = ["v0", "v1", "warn", "err_sem", "err_syn"];

//! Synthesizable design family for C19/C20 (and reusable by other netlist checks).
//!
//! Every design is a small Veryl source with top module `Top`, at most one clock `clk`, one
//! reset `rst`, data inputs `a`, `b`, … and outputs `y`, `z`, …. The family is a finite list,
//! generated deterministically, simplest first. `quick` marks the members of the quick tier.
//!
//! `alphabet`: `None` = all valuations of the data inputs (exhaustive); `Some(list)` = corner
//! valuations (wide designs; the run is then labelled non-exhaustive for that design).
//! `clean`: input letters that, applied before a reset, bring un-reset storage (RAM words)
//! back to all-zero so the explorer can restart the real simulator without rebuilding it; the
//! explorer *verifies* the restart against a fresh simulator, it does not trust this list.

#[derive(Clone, Debug)]
pub struct Design {
    pub name: String,
    /// Template class (goes into violation signatures).
    pub template: String,
    pub text: String,
    /// (name, width)
    pub inputs: Vec<(String, u32)>,
    pub outputs: Vec<(String, u32)>,
    pub clocked: bool,
    pub has_reset: bool,
    pub alphabet: Option<Vec<Vec<u64>>>,
    pub clean: Vec<Vec<u64>>,
    /// The design declares an array that may be inferred as RAM under some RamConfig.
    pub ram_candidate: bool,
    pub quick: bool,
}

impl Design {
    pub fn input_bits(&self) -> u32 {
        self.inputs.iter().map(|x| x.1).sum()
    }
    /// All letters of the input alphabet (each letter = one value per data input).
    pub fn letters(&self) -> Vec<Vec<u64>> {
        if let Some(a) = &self.alphabet {
            return a.clone();
        }
        let total = self.input_bits();
        let mut out = Vec::with_capacity(1usize << total);
        for v in 0..(1u64 << total) {
            let mut rest = v;
            let mut letter = vec![];
            for (_, w) in &self.inputs {
                letter.push(rest & ((1u64 << w) - 1));
                rest >>= w;
            }
            out.push(letter);
        }
        out
    }
    pub fn exhaustive_alphabet(&self) -> bool {
        self.alphabet.is_none()
    }
}

/// Builds a `Design` from source text by reading the port list of `module Top` (development
/// probes and replays). Data ports must be `[signed] logic` / `logic<N>`.
pub fn design_from_text(name: &str, text: &str) -> Option<Design> {
    let start = text.find("module Top")?;
    let rest = &text[start..];
    let open = rest.find('(')?;
    let close = rest.find(") {")?;
    let mut d = Design {
        name: name.to_string(),
        template: "file".into(),
        text: text.to_string(),
        inputs: vec![],
        outputs: vec![],
        clocked: false,
        has_reset: false,
        alphabet: None,
        clean: vec![],
        ram_candidate: false,
        quick: false,
    };
    for line in rest[open + 1..close].split(',') {
        let line = line.trim();
        if line.is_empty() {
            continue;
        }
        let (n, t) = line.split_once(':')?;
        let (n, t) = (n.trim(), t.trim());
        let (dir, ty) = t.split_once(' ')?;
        let ty = ty.trim();
        if ty.starts_with("clock") {
            d.clocked = true;
            continue;
        }
        if ty.starts_with("reset") {
            d.has_reset = true;
            continue;
        }
        let w = match ty.find('<') {
            Some(i) => ty[i + 1..ty.find('>')?].trim().parse::<u32>().ok()?,
            None => 1,
        };
        match dir {
            "input" => d.inputs.push((n.to_string(), w)),
            "output" => d.outputs.push((n.to_string(), w)),
            _ => return None,
        }
    }
    Some(d)
}

#[derive(Clone, Copy, PartialEq, Eq)]
pub enum ClkKind {
    Default,
    Pos,
    Neg,
}
#[derive(Clone, Copy, PartialEq, Eq)]
pub enum RstKind {
    Default,
    AsyncHigh,
    AsyncLow,
    SyncHigh,
    SyncLow,
}

impl ClkKind {
    fn ty(self) -> &'static str {
        match self {
            ClkKind::Default => "clock",
            ClkKind::Pos => "clock_posedge",
            ClkKind::Neg => "clock_negedge",
        }
    }
    fn tag(self) -> &'static str {
        match self {
            ClkKind::Default => "clk",
            ClkKind::Pos => "pos",
            ClkKind::Neg => "neg",
        }
    }
}
impl RstKind {
    fn ty(self) -> &'static str {
        match self {
            RstKind::Default => "reset",
            RstKind::AsyncHigh => "reset_async_high",
            RstKind::AsyncLow => "reset_async_low",
            RstKind::SyncHigh => "reset_sync_high",
            RstKind::SyncLow => "reset_sync_low",
        }
    }
    fn tag(self) -> &'static str {
        match self {
            RstKind::Default => "rst",
            RstKind::AsyncHigh => "ah",
            RstKind::AsyncLow => "al",
            RstKind::SyncHigh => "sh",
            RstKind::SyncLow => "sl",
        }
    }
}

/// Operator family of a binary operator name (violation signature class).
pub fn op_group(name: &str) -> &'static str {
    match name {
        "add" | "sub" | "acc" => "addsub",
        "mul" => "mul",
        "div" | "mod" => "divmod",
        "and" | "or" | "xor" | "xnor" => "bitwise",
        "shl" | "ashl" => "shl",
        "shr" => "shr",
        "ashr" => "ashr",
        "shift" => "shift",
        "lt" | "le" | "gt" | "ge" | "eq" | "ne" => "compare",
        "land" | "lor" => "logical",
        _ => "other",
    }
}

/// Template label of a binary-operator design: mixed signedness and results narrower than the
/// context-determining operand are features of their own (they exercise operand extension and
/// the context width, not the operator).
fn binop_template(name: &str, sa: bool, sb: bool, wa: u32, wb: u32, wy: u32) -> String {
    if sa != sb {
        return "binop:mixed-sign".to_string();
    }
    let g = op_group(name);
    let ctx = if matches!(g, "shl" | "shr" | "ashr") { wa } else { wa.max(wb) };
    let narrow = wy < ctx && !matches!(g, "compare" | "logical");
    format!(
        "binop:{g}{}{}",
        if g == "ashr" { if sa { "-signed" } else { "-unsigned" } } else { "" },
        if narrow { ":narrowing" } else { "" }
    )
}

fn ty(width: u32, signed: bool) -> String {
    format!("{}logic<{}>", if signed { "signed " } else { "" }, width)
}

struct B {
    out: Vec<Design>,
}

impl B {
    /// Combinational design: ports + body.
    #[allow(clippy::too_many_arguments)]
    fn comb(
        &mut self,
        name: String,
        template: &str,
        ins: &[(&str, u32, bool)],
        outs: &[(&str, u32, bool)],
        body: &str,
        prelude: &str,
        quick: bool,
    ) {
        let mut ports = String::new();
        for (n, w, s) in ins {
            ports.push_str(&format!("    {n}: input {},\n", ty(*w, *s)));
        }
        for (n, w, s) in outs {
            ports.push_str(&format!("    {n}: output {},\n", ty(*w, *s)));
        }
        let text = format!("{prelude}module Top (\n{ports}) {{\n{body}\n}}\n");
        self.out.push(Design {
            name,
            template: template.to_string(),
            text,
            inputs: ins.iter().map(|x| (x.0.to_string(), x.1)).collect(),
            outputs: outs.iter().map(|x| (x.0.to_string(), x.1)).collect(),
            clocked: false,
            has_reset: false,
            alphabet: None,
            clean: vec![],
            ram_candidate: false,
            quick,
        });
    }

    /// Clocked design with `clk` and (optionally) `rst`.
    #[allow(clippy::too_many_arguments)]
    fn seq(
        &mut self,
        name: String,
        template: &str,
        ck: ClkKind,
        rk: Option<RstKind>,
        ins: &[(&str, u32, bool)],
        outs: &[(&str, u32, bool)],
        body: &str,
        prelude: &str,
        quick: bool,
    ) -> &mut Design {
        let mut ports = format!("    clk: input {},\n", ck.ty());
        if let Some(r) = rk {
            ports.push_str(&format!("    rst: input {},\n", r.ty()));
        }
        for (n, w, s) in ins {
            ports.push_str(&format!("    {n}: input {},\n", ty(*w, *s)));
        }
        for (n, w, s) in outs {
            ports.push_str(&format!("    {n}: output {},\n", ty(*w, *s)));
        }
        let text = format!("{prelude}module Top (\n{ports}) {{\n{body}\n}}\n");
        self.out.push(Design {
            name,
            template: template.to_string(),
            text,
            inputs: ins.iter().map(|x| (x.0.to_string(), x.1)).collect(),
            outputs: outs.iter().map(|x| (x.0.to_string(), x.1)).collect(),
            clocked: true,
            has_reset: rk.is_some(),
            alphabet: None,
            clean: vec![],
            ram_candidate: false,
            quick,
        });
        self.out.last_mut().unwrap()
    }
}

/// Corner values of a `w`-bit operand.
pub fn corners(w: u32) -> Vec<u64> {
    let m = if w >= 64 { u64::MAX } else { (1u64 << w) - 1 };
    let mut v = vec![
        0,
        1,
        2,
        m,
        m - 1,
        m >> 1,
        (m >> 1) + 1,
        0x5555_5555_5555_5555 & m,
        0xaaaa_aaaa_aaaa_aaaa & m,
        0x0f0f_0f0f_0f0f_0f0f & m,
        0x3333_3333_3333_3333 & m,
        (m >> 1) - 1,
        0x0123_4567_89ab_cdef & m,
        0xfedc_ba98_7654_3210 & m,
    ];
    v.sort();
    v.dedup();
    v
}

fn cross(lists: &[Vec<u64>]) -> Vec<Vec<u64>> {
    let mut out: Vec<Vec<u64>> = vec![vec![]];
    for l in lists {
        let mut next = vec![];
        for p in &out {
            for x in l {
                let mut q = p.clone();
                q.push(*x);
                next.push(q);
            }
        }
        out = next;
    }
    out
}

pub fn family() -> Vec<Design> {
    let mut b = B { out: vec![] };
    gen_binops(&mut b);
    gen_unary(&mut b);
    gen_exprs(&mut b);
    gen_stmts(&mut b);
    gen_struct(&mut b);
    gen_fusion(&mut b);
    gen_seq(&mut b);
    gen_passes(&mut b);
    gen_ram(&mut b);
    // unique names
    let mut seen = std::collections::HashSet::new();
    for d in &b.out {
        assert!(seen.insert(d.name.clone()), "duplicate design name {}", d.name);
    }
    b.out
}

// ------------------------------------------------------------------------------------------
// 1. binary operators

fn gen_binops(b: &mut B) {
    // (token, name, class) class: a=arith, d=div-like (guarded), s=shift, c=compare, w=bitwise, l=logical
    let ops: [(&str, &str, char); 21] = [
        ("+", "add", 'a'),
        ("-", "sub", 'a'),
        ("*", "mul", 'a'),
        ("/", "div", 'd'),
        ("%", "mod", 'd'),
        ("&", "and", 'w'),
        ("|", "or", 'w'),
        ("^", "xor", 'w'),
        ("~^", "xnor", 'w'),
        ("<<", "shl", 's'),
        (">>", "shr", 's'),
        ("<<<", "ashl", 's'),
        (">>>", "ashr", 's'),
        ("<:", "lt", 'c'),
        ("<=", "le", 'c'),
        (">:", "gt", 'c'),
        (">=", "ge", 'c'),
        ("==", "eq", 'c'),
        ("!=", "ne", 'c'),
        ("&&", "land", 'l'),
        ("||", "lor", 'l'),
    ];
    let widths: [(u32, u32); 9] = [(2, 2), (3, 2), (1, 3), (1, 1), (2, 1), (3, 3), (1, 2), (2, 3), (3, 1)];
    let signs: [(bool, bool, &str); 4] = [(false, false, "uu"), (true, true, "ss"), (true, false, "su"), (false, true, "us")];
    for (tok, name, class) in ops {
        for (wi, (wa, wb)) in widths.iter().enumerate() {
            for (sa, sb, stag) in signs {
                // result widths: natural, one wider (extension rules), one narrower (truncation)
                let nat = match class {
                    'c' | 'l' => 1,
                    'a' if name == "mul" => wa + wb,
                    's' => *wa,
                    _ => *wa.max(wb),
                };
                let mut wys = vec![nat, nat + 2];
                if nat > 1 {
                    wys.push(nat - 1);
                }
                for wy in wys {
                    let expr = if class == 'd' {
                        format!("if b == 0 ? 0 : a {tok} b")
                    } else {
                        format!("a {tok} b")
                    };
                    // the output is signed when both operands are, so a wider y shows sign extension
                    let sy = sa && sb;
                    let quick = wi < 3
                        && (stag == "uu" || (stag == "ss" && matches!(class, 'a' | 'd' | 'c' | 's')))
                        && (wy == nat || (wy == nat + 2 && matches!(class, 'a' | 'd' | 's') && wi == 0));
                    b.comb(
                        format!("binop/{name}/{stag}/{wa}x{wb}->{wy}"),
                        &binop_template(name, sa, sb, *wa, *wb, wy),
                        &[("a", *wa, sa), ("b", *wb, sb)],
                        &[("y", wy, sy)],
                        &format!("    assign y = {expr};"),
                        "",
                        quick,
                    );
                }
            }
        }
    }
    // 4-bit arithmetic (the widths the repo's own tests use), unsigned and signed, exhaustive 8 bits
    for (tok, name) in [("*", "mul"), ("/", "div"), ("%", "mod"), ("+", "add"), ("-", "sub"), ("<:", "lt"), (">>>", "ashr"), ("<<", "shl")] {
        for (s, stag) in [(false, "uu"), (true, "ss")] {
            let guarded = matches!(name, "div" | "mod");
            let expr = if guarded { format!("if b == 0 ? 0 : a {tok} b") } else { format!("a {tok} b") };
            let wy = if name == "mul" { 8 } else if name == "lt" { 1 } else { 4 };
            b.comb(
                format!("binop4/{name}/{stag}"),
                &binop_template(name, s, s, 4, 4, wy),
                &[("a", 4, s), ("b", 4, s)],
                &[("y", wy, s)],
                &format!("    assign y = {expr};"),
                "",
                stag == "uu" || matches!(name, "mul" | "div" | "mod" | "lt"),
            );
        }
    }
    // operator by constant (const-prop / constant multiplier lowering)
    for k in [0u32, 1, 2, 3, 5, 6, 7] {
        for (tok, name) in [("*", "mul"), ("+", "add"), ("&", "and"), ("<<", "shl"), ("==", "eq"), ("<:", "lt")] {
            if name == "shl" && k > 3 {
                continue;
            }
            b.comb(
                format!("constop/{name}/k{k}"),
                &format!("constop:{}", op_group(name)),
                &[("a", 4, false)],
                &[("y", 6, false)],
                &format!("    assign y = a {tok} 4'd{k};"),
                "",
                k == 5 || k == 0,
            );
        }
    }
}

// ------------------------------------------------------------------------------------------
// 2. unary operators

fn gen_unary(b: &mut B) {
    let ops = [
        ("~", "not"),
        ("-", "neg"),
        ("+", "plus"),
        ("!", "lnot"),
        ("&", "rand"),
        ("|", "ror"),
        ("^", "rxor"),
        ("~&", "rnand"),
        ("~|", "rnor"),
        ("~^", "rxnor"),
    ];
    for (tok, name) in ops {
        for w in 1..=4u32 {
            for s in [false, true] {
                for wy in [1u32, w, w + 1] {
                    if wy == w && w == 1 {
                        continue;
                    }
                    b.comb(
                        format!("unary/{name}/{}{w}->{wy}", if s { "s" } else { "u" }),
                        &format!("unary:{name}"),
                        &[("a", w, s)],
                        &[("y", wy, s)],
                        &format!("    assign y = {tok}a;"),
                        "",
                        !s && (w == 3 && wy != 1 || w == 4 && wy == 1),
                    );
                }
            }
        }
    }
}

// ------------------------------------------------------------------------------------------
// 3. other expressions

fn gen_exprs(b: &mut B) {
    let mut e = |name: &str, ins: &[(&str, u32, bool)], outs: &[(&str, u32, bool)], body: &str, quick: bool| {
        let template = match name {
            // operand extension under mixed signedness / `>>>` on an unsigned operand are features
            // of their own (same classes as the binop family)
            "mixed/signed-mix" => "expr:mixed-sign".to_string(),
            // a width cast of a signed operand used inside an unsigned expression
            "cast/signed-ext" => "expr:cast-signed-operand-in-unsigned-context".to_string(),
            "mixed/ashr-unsigned" => "expr:ashr-unsigned".to_string(),
            _ if name.starts_with("literal/") => format!("expr:{}", name.replace('/', "-")),
            _ => format!("expr:{}", name.split('/').next().unwrap()),
        };
        b.comb(format!("expr/{name}"), &template, ins, outs, body, "", quick);
    };
    let u = false;
    e("concat/ab", &[("a", 2, u), ("b", 3, u)], &[("y", 5, u)], "    assign y = {a, b};", true);
    e("concat/const", &[("a", 2, u), ("b", 2, u)], &[("y", 6, u)], "    assign y = {a, 2'b10, b};", false);
    e("concat/repeat", &[("a", 2, u)], &[("y", 6, u)], "    assign y = {a repeat 3};", true);
    e("concat/mixed", &[("a", 2, u), ("b", 1, u)], &[("y", 6, u)], "    assign y = {b repeat 2, a, a[0], b};", false);
    e("concat/lhs", &[("a", 4, u)], &[("y", 2, u), ("z", 2, u)], "    assign {y, z} = a + 4'd3;", true);
    e("select/bit-const", &[("a", 4, u)], &[("y", 1, u), ("z", 1, u)], "    assign y = a[2];\n    assign z = a[0];", false);
    e("select/bit-dyn", &[("a", 4, u), ("b", 2, u)], &[("y", 1, u)], "    assign y = a[b];", true);
    e("select/bit-dyn-oor", &[("a", 3, u), ("b", 2, u)], &[("y", 1, u)], "    assign y = if b <: 3 ? a[b] : 1'b0;", false);
    e("select/part", &[("a", 4, u)], &[("y", 2, u), ("z", 3, u)], "    assign y = a[2:1];\n    assign z = a[3:1];", true);
    e("select/plus-colon", &[("a", 4, u)], &[("y", 2, u)], "    assign y = a[1+:2];", false);
    e("select/minus-colon", &[("a", 4, u)], &[("y", 2, u)], "    assign y = a[3-:2];", false);
    e("select/step", &[("a", 4, u)], &[("y", 2, u)], "    assign y = a[1 step 2];", false);
    e("select/msb-lsb", &[("a", 4, u)], &[("y", 1, u), ("z", 1, u)], "    assign y = a[msb];\n    assign z = a[lsb];", true);
    e("ternary/plain", &[("a", 1, u), ("b", 2, u), ("c", 2, u)], &[("y", 2, u)], "    assign y = if a ? b : c;", true);
    e("ternary/nested", &[("a", 2, u), ("b", 2, u), ("c", 2, u)], &[("y", 2, u)], "    assign y = if a == 0 ? b : if a == 1 ? c : if a == 2 ? b ^ c : b & c;", true);
    e("ternary/widths", &[("a", 1, u), ("b", 1, u), ("c", 3, u)], &[("y", 4, u)], "    assign y = if a ? b : c;", false);
    e("ternary/signed", &[("a", 1, u), ("b", 2, true), ("c", 3, true)], &[("y", 4, true)], "    assign y = if a ? b : c;", false);
    e("caseexpr/plain", &[("a", 2, u), ("b", 2, u)], &[("y", 2, u)], "    assign y = case a {\n        0: b,\n        1: ~b,\n        2: b + 2'd1,\n        default: 2'd3,\n    };", true);
    e("caseexpr/multi", &[("a", 3, u), ("b", 2, u)], &[("y", 2, u)], "    assign y = case a {\n        0, 5: b,\n        1..=3: ~b,\n        6..7: 2'd1,\n        default: 2'd2,\n    };", true);
    e("switchexpr/plain", &[("a", 2, u), ("b", 2, u)], &[("y", 2, u)], "    assign y = switch {\n        a == 0: b,\n        a >: b: 2'd1,\n        a == 2, b == 1: a ^ b,\n        default: 2'd0,\n    };", true);
    e("inside/ranges", &[("a", 4, u)], &[("y", 1, u), ("z", 1, u)], "    assign y = inside a {1, 4..7, 9..=11};\n    assign z = outside a {0, 2..=3, 12..15};", true);
    e("inside/expr", &[("a", 2, u), ("b", 2, u)], &[("y", 1, u)], "    assign y = inside a + b {1, 2..=3};", false);
    e("cast/width", &[("a", 2, u), ("b", 2, true)], &[("y", 4, u), ("z", 4, true)], "    assign y = a as 4;\n    assign z = b as 4;", true);
    e("cast/signed-ext", &[("a", 2, true), ("b", 2, u)], &[("y", 4, u)], "    assign y = (a as 4) + (b as 4);", false);
    e("eqwild/const", &[("a", 4, u)], &[("y", 1, u), ("z", 1, u)], "    assign y = a ==? 4'b1x0x;\n    assign z = a !=? 4'bx11x;", true);
    e("mixed/precedence", &[("a", 2, u), ("b", 2, u), ("c", 2, u)], &[("y", 3, u)], "    assign y = a + b * c - (a & b | c ^ a);", true);
    e("mixed/compare-chain", &[("a", 2, u), ("b", 2, u), ("c", 2, u)], &[("y", 1, u)], "    assign y = (a <: b) && (b <= c) || (a == c) && !(b != 2'd1);", true);
    e("mixed/signed-mix", &[("a", 3, true), ("b", 3, u)], &[("y", 5, true), ("z", 1, u)], "    assign y = a + b;\n    assign z = a <: b;", true);
    e("mixed/signed-cmp", &[("a", 3, true), ("b", 3, true)], &[("y", 1, u), ("z", 1, u), ("w", 1, u)], "    assign y = a <: b;\n    assign z = a >= b;\n    assign w = a <: 0;", true);
    e("mixed/shift-wide-amount", &[("a", 3, u), ("b", 3, u)], &[("y", 6, u), ("z", 3, u)], "    assign y = a << b;\n    assign z = a >> b;", true);
    e("mixed/ashr-signed", &[("a", 4, true), ("b", 2, u)], &[("y", 4, true), ("z", 6, true)], "    assign y = a >>> b;\n    assign z = a >>> b;", true);
    e("mixed/ashr-unsigned", &[("a", 4, u), ("b", 2, u)], &[("y", 4, u)], "    assign y = a >>> b;", false);
    e("mixed/self-determined", &[("a", 2, u), ("b", 2, u)], &[("y", 1, u), ("z", 3, u)], "    assign y = (a + b) >: 2'd2;\n    assign z = {1'b0, a} + {1'b0, b};", true);
    e("mixed/width-ctx", &[("a", 2, u), ("b", 2, u)], &[("y", 3, u), ("z", 3, u)], "    assign y = (a + b) >> 1;\n    assign z = {a + b} >> 1;", true);
    e("mixed/neg-ctx", &[("a", 2, u)], &[("y", 4, u), ("z", 4, u)], "    assign y = -a;\n    assign z = ~a;", true);
    e("mixed/mul-ctx", &[("a", 3, u), ("b", 3, u)], &[("y", 6, u), ("z", 3, u)], "    assign y = a * b;\n    assign z = a * b;", false);
    e("mixed/divmod-identity", &[("a", 3, u), ("b", 3, u)], &[("y", 3, u), ("z", 3, u)], "    assign y = if b == 0 ? 0 : a / b;\n    assign z = if b == 0 ? a : a % b;", true);
    e("mixed/signed-divmod", &[("a", 3, true), ("b", 3, true)], &[("y", 3, true), ("z", 3, true)], "    assign y = if b == 0 ? 0 : a / b;\n    assign z = if b == 0 ? 0 : a % b;", true);
    e("select/dyn-plus-colon", &[("a", 5, u), ("b", 2, u)], &[("y", 2, u)], "    assign y = a[b+:2];", true);
    e("select/dyn-elem-packed", &[("a", 6, u), ("b", 1, u), ("c", 1, u)], &[("y", 3, u), ("z", 1, u)], "    var m: logic<2, 3>;\n    assign m = a;\n    assign y = m[b];\n    assign z = m[b][c];", true);
    e("literal/signed-sized", &[("a", 4, true)], &[("y", 6, true), ("z", 1, u)], "    assign y = a + 4'sb1110;\n    assign z = a <: 4'sb1110;", true);
    e("literal/signed-const", &[("a", 3, true)], &[("y", 5, true), ("z", 5, true)], "    const K: signed logic<3> = 3'sb101;\n    assign y = a + K;\n    assign z = K;", true);
    e("literal/fill", &[("a", 3, u), ("b", 3, u)], &[("y", 3, u), ("z", 5, u), ("w", 1, u)], "    assign y = a ^ '1;\n    assign z = {b, 2'b00} | '0;\n    assign w = a == '1;", true);
    e("literal/unsized-mixed", &[("a", 3, u)], &[("y", 5, u), ("z", 1, u)], "    assign y = a + 9;\n    assign z = a >: 5;", true);
    e("literal/based-wide-const", &[("a", 4, u)], &[("y", 8, u)], "    assign y = {a, a} ^ 8'ha5;", false);
    e("let/chain", &[("a", 2, u), ("b", 2, u)], &[("y", 3, u)], "    let t: logic<3> = a + b;\n    let s: logic<3> = t ^ {b, 1'b1};\n    assign y = s - t;", true);
}

// ------------------------------------------------------------------------------------------
// 4. statements, functions, generate, instances

fn gen_stmts(b: &mut B) {
    let u = false;
    let mut e = |name: &str, ins: &[(&str, u32, bool)], outs: &[(&str, u32, bool)], body: &str, prelude: &str, quick: bool| {
        let class = name.split('/').next().unwrap();
        let template = match (class, name) {
            ("inst-shared", _) => "inst:shared-output-var".to_string(),
            // the result is narrower than the operands of a right shift (see binop:*:narrowing)
            (_, "ctx/ternary-then-shift") | (_, "ctx/sum-then-shift-narrow") => "stmt:ctx-narrowing".to_string(),
            _ => format!("stmt:{class}"),
        };
        b.comb(format!("stmt/{name}"), &template, ins, outs, body, prelude, quick);
    };
    e("if/else-chain", &[("a", 2, u), ("b", 2, u)], &[("y", 2, u)],
      "    always_comb {\n        if a == 0 {\n            y = b;\n        } else if a == 1 {\n            y = ~b;\n        } else if a == 2 {\n            y = b + 2'd1;\n        } else {\n            y = 2'd0;\n        }\n    }", "", true);
    e("if/default-then-override", &[("a", 2, u), ("b", 2, u)], &[("y", 2, u), ("z", 1, u)],
      "    always_comb {\n        y = 2'd1;\n        z = 1'b0;\n        if a[0] {\n            y = b;\n            if a[1] {\n                z = 1'b1;\n                y = y + 2'd1;\n            }\n        }\n    }", "", true);
    e("if/nested2", &[("a", 1, u), ("b", 1, u), ("c", 2, u)], &[("y", 2, u)],
      "    always_comb {\n        if a {\n            if b {\n                y = c;\n            } else {\n                y = ~c;\n            }\n        } else {\n            if b {\n                y = c + 2'd1;\n            } else {\n                y = c - 2'd1;\n            }\n        }\n    }", "", true);
    e("case/labels", &[("a", 3, u), ("b", 2, u)], &[("y", 2, u)],
      "    always_comb {\n        case a {\n            0: y = b;\n            1, 2: y = ~b;\n            3..=5: {\n                y = b;\n                y = y + 2'd1;\n            }\n            default: y = 2'd2;\n        }\n    }", "", true);
    e("case/no-default-preset", &[("a", 2, u), ("b", 2, u)], &[("y", 2, u)],
      "    always_comb {\n        y = 2'd3;\n        case a {\n            0: y = b;\n            2: y = b ^ 2'd1;\n        }\n    }", "", true);
    e("case/onehot-decode", &[("a", 2, u)], &[("y", 4, u)],
      "    always_comb {\n        case a {\n            0: y = 4'b0001;\n            1: y = 4'b0010;\n            2: y = 4'b0100;\n            default: y = 4'b1000;\n        }\n    }", "", true);
    e("case/wide-decode", &[("a", 4, u)], &[("y", 3, u)],
      "    always_comb {\n        case a {\n            0: y = 3'd0;\n            1: y = 3'd1;\n            2, 3: y = 3'd2;\n            4..=7: y = 3'd3;\n            8: y = 3'd4;\n            9: y = 3'd5;\n            10: y = 3'd6;\n            11: y = 3'd7;\n            12: y = 3'd1;\n            13: y = 3'd6;\n            default: y = 3'd0;\n        }\n    }", "", true);
    e("switch/plain", &[("a", 2, u), ("b", 2, u)], &[("y", 2, u)],
      "    always_comb {\n        switch {\n            a == b: y = 2'd0;\n            a >: b, a == 2'd0: y = 2'd1;\n            default: {\n                y = 2'd2;\n                y = y | b;\n            }\n        }\n    }", "", true);
    e("compound/ops", &[("a", 3, u), ("b", 3, u)], &[("y", 3, u)],
      "    always_comb {\n        y = a;\n        y += b;\n        y ^= 3'd5;\n        y <<= 1;\n        y |= b;\n        y -= 3'd1;\n        y &= 3'd6;\n        y >>= 1;\n    }", "", true);
    e("compound/mul-div", &[("a", 3, u), ("b", 2, u)], &[("y", 3, u)],
      "    always_comb {\n        y = a;\n        y *= b;\n        y += 3'd1;\n        y /= 3'd3;\n        y %= 3'd5;\n    }", "", false);
    e("blockvar/let-var", &[("a", 2, u), ("b", 2, u)], &[("y", 3, u)],
      "    always_comb {\n        let t: logic<3> = a + b;\n        var v: logic<3>;\n        v = t;\n        if a[0] {\n            v = v + 3'd1;\n        }\n        y = v ^ t;\n    }", "", true);
    e("multiassign/bits", &[("a", 2, u), ("b", 2, u)], &[("y", 4, u)],
      "    always_comb {\n        y = 4'd0;\n        y[1:0] = a;\n        y[3] = b[0];\n        if b[1] {\n            y[2] = a[1];\n        }\n    }", "", true);
    e("multiassign/dyn-bit-write", &[("a", 2, u), ("b", 1, u)], &[("y", 4, u)],
      "    always_comb {\n        y = 4'b0110;\n        y[a] = b;\n    }", "", true);
    e("two-blocks", &[("a", 2, u), ("b", 2, u)], &[("y", 2, u), ("z", 2, u)],
      "    var t: logic<2>;\n    always_comb {\n        t = a & b;\n    }\n    always_comb {\n        y = t | a;\n        z = t ^ b;\n    }", "", false);
    // procedural for loops (unrolled by the synthesizer)
    e("for/popcount", &[("a", 4, u)], &[("y", 3, u)],
      "    always_comb {\n        y = 3'd0;\n        for i in 0..4 {\n            if a[i] {\n                y += 3'd1;\n            }\n        }\n    }", "", true);
    e("for/reverse", &[("a", 4, u), ("b", 1, u)], &[("y", 4, u)],
      "    always_comb {\n        for i in 0..4 {\n            y[i] = a[3 - i] ^ b;\n        }\n    }", "", true);
    e("for/break-first-set", &[("a", 4, u)], &[("y", 3, u)],
      "    always_comb {\n        y = 3'd7;\n        for i in 0..4 {\n            if a[i] {\n                y = i as 3;\n                break;\n            }\n        }\n    }", "", true);
    e("for/rev-last-set", &[("a", 4, u)], &[("y", 3, u)],
      "    always_comb {\n        y = 3'd7;\n        for i in rev 0..4 {\n            if a[i] {\n                y = i as 3;\n            }\n        }\n    }", "", true);
    e("for/step", &[("a", 4, u), ("b", 2, u)], &[("y", 4, u)],
      "    always_comb {\n        y = a;\n        for i in 0..4 step += 2 {\n            y[i] = b[i / 2];\n        }\n    }", "", false);
    e("for/running-sum", &[("a", 4, u)], &[("y", 4, u)],
      "    always_comb {\n        var acc: logic<2>;\n        acc = 2'd0;\n        for i in 0..2 {\n            acc = acc + a[2 * i+:2];\n            y[2 * i+:2] = acc;\n        }\n    }", "", true);
    // system functions
    e("sysfunc/clog2-const", &[("a", 3, u)], &[("y", 4, u)], "    const K: u32 = $clog2(5);\n    assign y = a + K;", "", true);
    e("sysfunc/signed-cast", &[("a", 3, u), ("b", 2, u)], &[("y", 3, true), ("z", 1, u)], "    assign y = $signed(a) >>> b;\n    assign z = $signed(a) <: $signed(3'd1);", "", true);
    e("sysfunc/unsigned-cast", &[("a", 3, true), ("b", 2, u)], &[("y", 3, u), ("z", 1, u)], "    assign y = $unsigned(a) >> b;\n    assign z = $unsigned(a) <: 3'd4;", "", true);
    // context-determined widths
    e("ctx/cmp-of-sum", &[("a", 2, u), ("b", 2, u), ("c", 3, u)], &[("y", 1, u), ("z", 1, u)], "    assign y = (a + b) == c;\n    assign z = (a + b) >: c;", "", true);
    e("ctx/concat-operands", &[("a", 2, u), ("b", 2, u)], &[("y", 4, u)], "    assign y = {a + b, a - b};", "", true);
    e("ctx/ternary-then-shift", &[("a", 3, u), ("b", 3, u), ("c", 1, u)], &[("y", 2, u)], "    assign y = (if c ? a : b) >> 1;", "", false);
    e("ctx/sum-then-shift-narrow", &[("a", 3, u), ("b", 3, u)], &[("y", 2, u)], "    assign y = (a + b) >> 1;", "", false);
    e("ctx/sum-wide-target", &[("a", 2, u), ("b", 2, u), ("c", 2, u)], &[("y", 4, u)], "    assign y = a + b + c;", "", true);
    e("ctx/mul-add-wide", &[("a", 2, u), ("b", 2, u), ("c", 2, u)], &[("y", 5, u)], "    assign y = a * b + c;", "", true);
    e("ctx/shift-amount-expr", &[("a", 4, u), ("b", 1, u), ("c", 1, u)], &[("y", 4, u)], "    assign y = a << (b + c);", "", true);
    e("ctx/neg-compare", &[("a", 2, u), ("b", 2, u)], &[("y", 1, u)], "    assign y = -a == b;", "", true);
    e("ctx/reduction-in-arith", &[("a", 3, u), ("b", 2, u)], &[("y", 3, u)], "    assign y = b + &a + |a;", "", true);
    // functions
    e("func/return", &[("a", 2, u), ("b", 2, u)], &[("y", 3, u)],
      "    function f (\n        p: input logic<2>,\n        q: input logic<2>,\n    ) -> logic<3> {\n        return p + q;\n    }\n    assign y = f(a, b) ^ f(b, 2'd1);", "", true);
    e("func/output-arg", &[("a", 2, u), ("b", 2, u)], &[("y", 2, u), ("z", 2, u)],
      "    function f (\n        p: input logic<2>,\n        q: output logic<2>,\n    ) -> logic<2> {\n        q = ~p;\n        return p + 2'd1;\n    }\n    var t: logic<2>;\n    always_comb {\n        y = f(a, t);\n        z = t & b;\n    }", "", true);
    e("func/nested", &[("a", 2, u), ("b", 2, u)], &[("y", 3, u)],
      "    function g (\n        p: input logic<2>,\n    ) -> logic<2> {\n        return p ^ 2'd2;\n    }\n    function f (\n        p: input logic<2>,\n        q: input logic<2>,\n    ) -> logic<3> {\n        return g(p) + g(q);\n    }\n    assign y = f(a, b);", "", true);
    e("func/void", &[("a", 2, u), ("b", 2, u)], &[("y", 2, u)],
      "    function f (\n        p: input logic<2>,\n        q: output logic<2>,\n    ) {\n        q = p - 2'd1;\n    }\n    always_comb {\n        f(a & b, y);\n    }", "", true);
    e("func/if-inside", &[("a", 2, u), ("b", 1, u)], &[("y", 2, u)],
      "    function f (\n        p: input logic<2>,\n        s: input logic,\n    ) -> logic<2> {\n        var r: logic<2>;\n        r = p;\n        if s {\n            r = r + 2'd1;\n        }\n        return r;\n    }\n    assign y = f(a, b);", "", true);
    e("func/named-args", &[("a", 2, u), ("b", 2, u)], &[("y", 2, u)],
      "    function f (\n        p: input logic<2>,\n        q: input logic<2>,\n    ) -> logic<2> {\n        return p - q;\n    }\n    assign y = f(q: a, p: b);", "", false);
    // const / param
    e("const/local", &[("a", 3, u)], &[("y", 3, u)],
      "    const K: u32 = 5;\n    const M: logic<3> = 3'b101;\n    assign y = (a + K) ^ M;", "", true);
    // generate
    e("gen/for", &[("a", 4, u), ("b", 1, u)], &[("y", 4, u)],
      "    for i in 0..4 :g {\n        assign y[i] = a[3 - i] ^ b;\n    }", "", true);
    e("gen/for-chain", &[("a", 4, u)], &[("y", 4, u)],
      "    var t: logic<5>;\n    assign t[0] = 1'b0;\n    for i in 0..4 :g {\n        assign t[i + 1] = t[i] ^ a[i];\n    }\n    assign y = t[4:1];", "", true);
    e("gen/if", &[("a", 2, u), ("b", 2, u)], &[("y", 2, u)],
      "    const SEL: u32 = 1;\n    if SEL == 1 :g {\n        assign y = a & b;\n    } else {\n        assign y = a | b;\n    }", "", true);
    // instances
    let sub = "module Sub #(\n    param W: u32 = 2,\n    param K: u32 = 1,\n) (\n    p: input logic<W>,\n    q: input logic<W>,\n    r: output logic<W>,\n    s: output logic,\n) {\n    assign r = p + q + K;\n    assign s = p >: q;\n}\n";
    e("inst/single", &[("a", 2, u), ("b", 2, u)], &[("y", 2, u), ("z", 1, u)],
      "    inst u0: Sub (\n        p: a,\n        q: b,\n        r: y,\n        s: z,\n    );", sub, true);
    e("inst/param-override", &[("a", 3, u), ("b", 3, u)], &[("y", 3, u), ("z", 1, u)],
      "    inst u0: Sub #(\n        W: 3,\n        K: 2,\n    ) (\n        p: a,\n        q: b,\n        r: y,\n        s: z,\n    );", sub, true);
    e("inst/two-chained", &[("a", 2, u), ("b", 2, u)], &[("y", 2, u), ("z", 1, u)],
      "    var t: logic<2>;\n    var c0: logic;\n    var c1: logic;\n    inst u0: Sub (\n        p: a,\n        q: b,\n        r: t,\n        s: c0,\n    );\n    inst u1: Sub #(\n        K: 3,\n    ) (\n        p: t,\n        q: a,\n        r: y,\n        s: c1,\n    );\n    assign z = c0 ^ c1;", sub, true);
    e("inst/unconnected-expr", &[("a", 2, u), ("b", 2, u)], &[("y", 2, u)],
      "    inst u0: Sub (\n        p: a ^ b,\n        q: 2'd1,\n        r: y,\n        s: _,\n    );", sub, true);
    e("inst-shared/generate-array", &[("a", 4, u), ("b", 2, u)], &[("y", 4, u)],
      "    var s: logic<2>;\n    for i in 0..2 :g {\n        inst u: Sub (\n            p: a[2 * i+:2],\n            q: b,\n            r: y[2 * i+:2],\n            s: s[i],\n        );\n    }", sub, true);
    e("inst/generate-local-vars", &[("a", 4, u), ("b", 2, u)], &[("y", 4, u)],
      "    for i in 0..2 :g {\n        var r: logic<2>;\n        inst u: Sub (\n            p: a[2 * i+:2],\n            q: b,\n            r: r,\n            s: _,\n        );\n        assign y[2 * i+:2] = r;\n    }", sub, true);
    e("inst-shared/generate-array-elems", &[("a", 4, u), ("b", 2, u)], &[("y", 2, u), ("z", 2, u)],
      "    var r: logic<2> [2];\n    var s: logic [2];\n    for i in 0..2 :g {\n        inst u: Sub (\n            p: a[2 * i+:2],\n            q: b,\n            r: r[i],\n            s: s[i],\n        );\n    }\n    assign y = r[0];\n    assign z = r[1];", sub, false);
    // interface + modport
    let ifc = "interface Bus {\n    var d: logic<2>;\n    var v: logic;\n    function both () -> logic<3> {\n        return {v, d};\n    }\n    modport master {\n        d: output,\n        v: output,\n    }\n    modport slave {\n        d: input,\n        v: input,\n        both: import,\n    }\n}\nmodule Src (\n    m: modport Bus::master,\n    p: input logic<2>,\n    q: input logic,\n) {\n    assign m.d = p + 2'd1;\n    assign m.v = q;\n}\nmodule Dst (\n    s: modport Bus::slave,\n    r: output logic<3>,\n) {\n    assign r = if s.v ? s.both() : {1'b0, ~s.d};\n}\n";
    e("iface/modport-pair", &[("a", 2, u), ("b", 1, u)], &[("y", 3, u)],
      "    inst bus: Bus;\n    inst u0: Src (\n        m: bus,\n        p: a,\n        q: b,\n    );\n    inst u1: Dst (\n        s: bus,\n        r: y,\n    );", ifc, true);
    // package
    let pkg = "package Pkg {\n    const K: logic<2> = 2'd2;\n    function inc (\n        p: input logic<2>,\n    ) -> logic<2> {\n        return p + K;\n    }\n}\n";
    e("package/const-func", &[("a", 2, u)], &[("y", 2, u), ("z", 2, u)],
      "    import Pkg::*;\n    assign y = inc(a);\n    assign z = a ^ K;", pkg, true);
}

// ------------------------------------------------------------------------------------------
// 5. structs, enums, arrays

fn gen_struct(b: &mut B) {
    let u = false;
    let mut e = |name: &str, ins: &[(&str, u32, bool)], outs: &[(&str, u32, bool)], body: &str, quick: bool| {
        let class = name.split('/').next().unwrap();
        b.comb(format!("data/{name}"), &format!("data:{class}"), ins, outs, body, "", quick);
    };
    e("struct/fields", &[("a", 2, u), ("b", 3, u)], &[("y", 5, u), ("z", 3, u)],
      "    struct S {\n        hi: logic<2>,\n        lo: logic<3>,\n    }\n    var s: S;\n    assign s.hi = a;\n    assign s.lo = b;\n    assign y = s;\n    assign z = s.lo + s.hi;", true);
    e("struct/constructor", &[("a", 2, u), ("b", 3, u)], &[("y", 5, u)],
      "    struct S {\n        hi: logic<2>,\n        lo: logic<3>,\n    }\n    let s: S = S'{hi: a, lo: b};\n    assign y = {s.lo, s.hi};", true);
    e("struct/nested", &[("a", 2, u), ("b", 2, u)], &[("y", 5, u), ("z", 2, u)],
      "    struct I {\n        p: logic<2>,\n        q: logic,\n    }\n    struct O {\n        i: I,\n        r: logic<2>,\n    }\n    var o: O;\n    always_comb {\n        o.i.p = a;\n        o.i.q = a[0] ^ b[0];\n        o.r = b;\n    }\n    assign y = o;\n    assign z = o.i.p & o.r;", true);
    e("struct/cast-from-bits", &[("a", 4, u)], &[("y", 2, u), ("z", 2, u)],
      "    struct S {\n        hi: logic<2>,\n        lo: logic<2>,\n    }\n    var s: S;\n    assign s = a;\n    assign y = s.hi;\n    assign z = s.lo;", true);
    e("union/views", &[("a", 4, u)], &[("y", 2, u), ("z", 4, u)],
      "    struct S {\n        hi: logic<2>,\n        lo: logic<2>,\n    }\n    union U {\n        raw: logic<4>,\n        s: S,\n    }\n    var v: U;\n    assign v.raw = a;\n    assign y = v.s.hi ^ v.s.lo;\n    assign z = v.raw;", false);
    e("enum/decode", &[("a", 2, u)], &[("y", 2, u), ("z", 1, u)],
      "    enum E: logic<2> {\n        A = 0,\n        B = 1,\n        C = 2,\n        D = 3,\n    }\n    var s: E;\n    assign s = a as E;\n    always_comb {\n        case s {\n            E::A: y = 2'd3;\n            E::B: y = 2'd0;\n            E::C: y = 2'd1;\n            default: y = 2'd2;\n        }\n    }\n    assign z = s == E::C;", true);
    e("enum/onehot", &[("a", 2, u)], &[("y", 3, u)],
      "    #[enum_encoding(onehot)]\n    enum E {\n        A,\n        B,\n        C,\n    }\n    var s: E;\n    always_comb {\n        case a {\n            0: s = E::A;\n            1: s = E::B;\n            default: s = E::C;\n        }\n    }\n    assign y = s;", true);
    e("packed2d/select", &[("a", 4, u), ("b", 1, u)], &[("y", 2, u), ("z", 1, u)],
      "    var m: logic<2, 2>;\n    assign m = a;\n    assign y = m[b];\n    assign z = m[1][0];", true);
    e("packed2d/write", &[("a", 2, u), ("b", 2, u)], &[("y", 4, u)],
      "    var m: logic<2, 2>;\n    always_comb {\n        m[0] = a;\n        m[1] = b;\n        m[1][0] = a[1];\n    }\n    assign y = m;", true);
    e("array/const-index", &[("a", 2, u), ("b", 2, u)], &[("y", 2, u)],
      "    var m: logic<2> [3];\n    assign m[0] = a;\n    assign m[1] = b;\n    assign m[2] = a ^ b;\n    assign y = m[2] + m[0];", true);
    e("array/dyn-read", &[("a", 2, u), ("b", 2, u)], &[("y", 2, u)],
      "    var m: logic<2> [4];\n    assign m[0] = a;\n    assign m[1] = ~a;\n    assign m[2] = a + 2'd1;\n    assign m[3] = 2'd2;\n    assign y = m[b];", true);
    e("array/dyn-write-comb", &[("a", 2, u), ("b", 1, u), ("c", 2, u)], &[("y", 2, u), ("z", 2, u)],
      "    var m: logic<2> [2];\n    always_comb {\n        m[0] = 2'd1;\n        m[1] = 2'd2;\n        m[b] = a;\n    }\n    assign y = m[0] ^ c;\n    assign z = m[1];", true);
    e("array/literal", &[("a", 2, u), ("b", 2, u)], &[("y", 2, u)],
      "    let m: logic<2> [4] = '{a, 2'd1, ~a, 2'd2};\n    assign y = m[b];", true);
    e("array/2d", &[("a", 2, u), ("b", 1, u), ("c", 1, u)], &[("y", 2, u)],
      "    var m: logic<2> [2, 2];\n    assign m[0][0] = a;\n    assign m[0][1] = ~a;\n    assign m[1][0] = a + 2'd1;\n    assign m[1][1] = a - 2'd1;\n    assign y = if b ? (if c ? m[1][1] : m[1][0]) : (if c ? m[0][1] : m[0][0]);", true);
    e("array/gen-lanes", &[("a", 4, u), ("b", 2, u)], &[("y", 4, u)],
      "    var m: logic<2> [2];\n    for i in 0..2 :g {\n        assign m[i] = a[2 * i+:2] + b;\n    }\n    assign y = {m[1], m[0]};", true);
}

// ------------------------------------------------------------------------------------------
// 6. shapes for post-pass fusion / mux rewrites (all operand orders)

fn gen_fusion(b: &mut B) {
    let u = false;
    let i3: [(&str, u32, bool); 3] = [("a", 1, u), ("b", 1, u), ("c", 1, u)];
    let i4: [(&str, u32, bool); 4] = [("a", 1, u), ("b", 1, u), ("c", 1, u), ("d", 1, u)];
    let o1: [(&str, u32, bool); 1] = [("y", 1, u)];
    // three-input compound shapes, every permutation of the operand names
    let perms3 = [["a", "b", "c"], ["a", "c", "b"], ["b", "a", "c"], ["b", "c", "a"], ["c", "a", "b"], ["c", "b", "a"]];
    let shapes3: [(&str, &str); 12] = [
        ("aoi21", "~((P & Q) | R)"),
        ("aoi21r", "~(R | (P & Q))"),
        ("oai21", "~((P | Q) & R)"),
        ("oai21r", "~(R & (P | Q))"),
        ("ao21", "(P & Q) | R"),
        ("ao21r", "R | (P & Q)"),
        ("oa21", "(P | Q) & R"),
        ("oa21r", "R & (P | Q)"),
        ("and3", "(P & Q) & R"),
        ("or3", "P | (Q | R)"),
        ("nand3", "~(P & (Q & R))"),
        ("nor3", "~((P | Q) | R)"),
    ];
    for (sname, shape) in shapes3 {
        for (pi, p) in perms3.iter().enumerate() {
            let ex = shape.replace('P', p[0]).replace('Q', p[1]).replace('R', p[2]);
            b.comb(
                format!("fusion/{sname}/p{pi}"),
                &format!("fusion:{}", sname.trim_end_matches('r')),
                &i3,
                &o1,
                &format!("    assign y = {ex};"),
                "",
                pi == 0 || pi == 3 || pi == 4,
            );
        }
    }
    // asymmetric in the and-leg: one operand inverted, so a swapped pin is visible for every order
    for (pi, p) in perms3.iter().enumerate() {
        for (sname, shape) in [("aoi21n", "~((P & ~Q) | R)"), ("oai21n", "~((P | ~Q) & R)"), ("ao21n", "(~P & Q) | R"), ("oa21n", "(P | Q) & ~R")] {
            let ex = shape.replace('P', p[0]).replace('Q', p[1]).replace('R', p[2]);
            b.comb(
                format!("fusion/{sname}/p{pi}"),
                &format!("fusion:{}", sname.trim_end_matches('n')),
                &i3,
                &o1,
                &format!("    assign y = {ex};"),
                "",
                pi < 2,
            );
        }
    }
    let shapes4: [(&str, &str); 8] = [
        ("ao22", "(P & Q) | (R & S)"),
        ("aoi22", "~((P & Q) | (R & S))"),
        ("oai22", "~((P | Q) & (R | S))"),
        ("ao31", "((P & Q) & R) | S"),
        ("ao31r", "S | (P & (Q & R))"),
        ("aoi31", "~(((P & Q) & R) | S)"),
        ("aoi31r", "~(S | (P & Q & R))"),
        ("oa22", "(P | Q) & (R | S)"),
    ];
    let perms4 = [["a", "b", "c", "d"], ["d", "c", "b", "a"], ["b", "d", "a", "c"], ["c", "a", "d", "b"]];
    for (sname, shape) in shapes4 {
        for (pi, p) in perms4.iter().enumerate() {
            let ex = shape.replace('P', p[0]).replace('Q', p[1]).replace('R', p[2]).replace('S', p[3]);
            b.comb(
                format!("fusion/{sname}/p{pi}"),
                &format!("fusion:{}", sname.trim_end_matches('r')),
                &i4,
                &o1,
                &format!("    assign y = {ex};"),
                "",
                pi == 0 || pi == 2,
            );
        }
    }
    // two endpoints: a shallow slow path (one mux2) and a deeper fast path (not + and2) — the
    // level-deepest endpoint is not the delay-critical one (report checks of C20)
    b.comb("report/shallow-slow-vs-deep-fast".into(), "report:depth-vs-delay", &i3, &[("y", 1, u), ("z", 1, u)],
           "    assign y = if a ? b : c;\n    assign z = ~a & b;", "", true);
    // fan-out on the inner gate: fusion must not fire (or must keep the inner cell)
    b.comb("fusion/shared-inner/aoi".into(), "fusion:shared", &i3, &[("y", 1, u), ("z", 1, u)],
           "    let t: logic = a & b;\n    assign y = ~(t | c);\n    assign z = t ^ c;", "", true);
    b.comb("fusion/shared-inner/oai".into(), "fusion:shared", &i3, &[("y", 1, u), ("z", 1, u)],
           "    let t: logic = a | b;\n    assign y = ~(t & c);\n    assign z = t;", "", true);
    b.comb("fusion/not-chain".into(), "fusion:not", &i3, &[("y", 1, u), ("z", 1, u), ("w", 1, u)],
           "    assign y = ~(a & b);\n    assign z = ~(~(a | c));\n    assign w = ~(a ^ b ^ c);", "", true);
    // two-bit compound shapes (per-bit fusion with shared operands)
    b.comb("fusion/vec/aoi".into(), "fusion:vec", &[("a", 2, u), ("b", 2, u), ("c", 2, u)], &[("y", 2, u)],
           "    assign y = ~((a & b) | c);", "", true);
    b.comb("fusion/vec/mix".into(), "fusion:vec", &[("a", 2, u), ("b", 2, u), ("c", 2, u)], &[("y", 2, u), ("z", 2, u)],
           "    assign y = (a | b) & ~c;\n    assign z = ~((a | c) & (b | ~c));", "", true);
    // mux rewrites
    let mux: [(&str, &[(&str, u32, bool)], &str); 16] = [
        ("const0-d0", &i3, "if a ? b : 1'b0"),
        ("const1-d1", &i3, "if a ? 1'b1 : b"),
        ("const0-d1", &i3, "if a ? 1'b0 : b"),
        ("const1-d0", &i3, "if a ? b : 1'b1"),
        ("sel-eq-d0", &i3, "if a ? b : a"),
        ("sel-eq-d1", &i3, "if a ? a : b"),
        ("xor", &i3, "if a ? ~b : b"),
        ("xnor", &i3, "if a ? b : ~b"),
        ("same-arms", &i3, "if a ? (b & c) : (b & c)"),
        ("mom-a", &i4, "if a ? d : (if b ? d : c)"),
        ("mom-b", &i4, "if a ? (if b ? d : c) : c"),
        ("mom-c", &i4, "if a ? c : (if b ? d : c)"),
        ("mom-d", &i4, "if a ? (if b ? c : d) : c"),
        ("same-sel-nest", &i4, "if a ? (if a ? b : c) : (if a ? d : c)"),
        ("opposite-phase", &i4, "if a ? (if ~a ? b : c) : d"),
        ("common-xor", &i4, "if a ? (b ^ c) : (b ^ d)"),
    ];
    for (name, ins, ex) in mux {
        b.comb(format!("fusion/mux/{name}"), "fusion:mux", ins, &o1, &format!("    assign y = {ex};"), "", true);
    }
    // boolean distribution / factoring
    let dist: [(&str, &str); 6] = [
        ("or-of-and", "(a & b) | (a & c)"),
        ("or-of-and-x", "(b & a) | (c & a) | (a & d)"),
        ("and-of-or", "(a | b) & (a | c)"),
        ("and-of-or-x", "(b | a) & (c | a) & (d | a)"),
        ("absorb-or", "a | (a & b) | (~a & c)"),
        ("absorb-and", "a & (a | b) & (~a | c)"),
    ];
    for (name, ex) in dist {
        b.comb(format!("fusion/dist/{name}"), "fusion:dist", &i4, &o1, &format!("    assign y = ({ex}) ^ (d & 1'b0);"), "", true);
    }
    // constants / identities the worklist folds
    let cp: [(&str, &str); 10] = [
        ("and0", "(a & 1'b0) | b"),
        ("or1", "(a | 1'b1) & b"),
        ("xor-self", "(a ^ a) | c"),
        ("xnor-self", "(b ~^ b) & c"),
        ("dbl-neg", "~(~(a & c))"),
        ("demorgan", "~(~a & ~b) ^ c"),
        ("and-self", "(a & a) ^ (b | b)"),
        ("and-compl", "(a & ~a) | (b | ~b) & c"),
        ("mux-const-sel", "if 1'b1 ? a : b"),
        ("cse", "(a & b) ^ (b & a) ^ c"),
    ];
    for (name, ex) in cp {
        b.comb(format!("fusion/constprop/{name}"), "fusion:constprop", &i3, &o1, &format!("    assign y = {ex};"), "", true);
    }
}

// ------------------------------------------------------------------------------------------
// 7. sequential

const CLOCKS: [ClkKind; 3] = [ClkKind::Default, ClkKind::Pos, ClkKind::Neg];
const RESETS: [RstKind; 5] = [RstKind::Default, RstKind::AsyncHigh, RstKind::AsyncLow, RstKind::SyncHigh, RstKind::SyncLow];

/// Template label of a sequential design: the construct under test.
fn seq_template(name: &str) -> String {
    match name {
        // a register is read after it was assigned in the same always_ff (non-blocking: old value)
        "pipeline/2stage" | "regs/bit-raw" => "seq:ff-read-after-write".into(),
        // the if_reset branch assigns array elements / struct members / bit selects
        "regfile/ff-reset" | "regs/struct" => "seq:reset-partial-assign".into(),
        _ => format!("seq:{}", name.replace('/', "-")),
    }
}

fn gen_seq(b: &mut B) {
    let u = false;
    // (name, inputs, outputs, body) — body uses always_ff with if_reset; every register is reset
    let templates: Vec<(&str, Vec<(&str, u32, bool)>, Vec<(&str, u32, bool)>, String)> = vec![
        ("reg/plain", vec![("a", 2, u)], vec![("y", 2, u)],
         "    always_ff {\n        if_reset {\n            y = 2'd0;\n        } else {\n            y = a;\n        }\n    }".into()),
        ("reg/reset-value", vec![("a", 3, u)], vec![("y", 3, u)],
         "    always_ff {\n        if_reset {\n            y = 3'b101;\n        } else {\n            y = a ^ y;\n        }\n    }".into()),
        ("reg/enable", vec![("a", 2, u), ("b", 1, u)], vec![("y", 2, u)],
         "    always_ff {\n        if_reset {\n            y = 2'd2;\n        } else if b {\n            y = a;\n        }\n    }".into()),
        ("reg/enable-clear", vec![("a", 2, u), ("b", 1, u), ("c", 1, u)], vec![("y", 2, u)],
         "    always_ff {\n        if_reset {\n            y = 2'd1;\n        } else {\n            if c {\n                y = 2'd0;\n            } else if b {\n                y = y + a;\n            }\n        }\n    }".into()),
        ("counter/up", vec![("a", 1, u)], vec![("y", 3, u)],
         "    always_ff {\n        if_reset {\n            y = 3'd0;\n        } else if a {\n            y = y + 3'd1;\n        }\n    }".into()),
        ("counter/updown-load", vec![("a", 2, u), ("b", 2, u)], vec![("y", 3, u), ("z", 1, u)],
         "    var cnt: logic<3>;\n    always_ff {\n        if_reset {\n            cnt = 3'd4;\n        } else {\n            case a {\n                0: cnt = cnt;\n                1: cnt += 3'd1;\n                2: cnt -= 3'd1;\n                default: cnt = {1'b0, b};\n            }\n        }\n    }\n    assign y = cnt;\n    assign z = cnt == 3'd7;".into()),
        ("counter/modulo", vec![("a", 1, u)], vec![("y", 3, u), ("z", 1, u)],
         "    always_ff {\n        if_reset {\n            y = 3'd0;\n        } else if a {\n            if y == 3'd4 {\n                y = 3'd0;\n            } else {\n                y = y + 3'd1;\n            }\n        }\n    }\n    assign z = a && y == 3'd4;".into()),
        ("shiftreg/4", vec![("a", 1, u), ("b", 1, u)], vec![("y", 4, u)],
         "    always_ff {\n        if_reset {\n            y = 4'b1000;\n        } else if b {\n            y = {y[2:0], a};\n        }\n    }".into()),
        ("pipeline/2stage", vec![("a", 2, u), ("b", 2, u)], vec![("y", 3, u)],
         "    var s0: logic<3>;\n    always_ff {\n        if_reset {\n            s0 = 3'd0;\n            y = 3'd7;\n        } else {\n            s0 = a + b;\n            y = s0 ^ {1'b0, a};\n        }\n    }".into()),
        ("fsm/enum", vec![("a", 1, u), ("b", 1, u)], vec![("y", 2, u), ("z", 1, u)],
         "    enum St: logic<2> {\n        Idle,\n        Run,\n        Wait,\n        Done,\n    }\n    var st: St;\n    always_ff {\n        if_reset {\n            st = St::Idle;\n        } else {\n            case st {\n                St::Idle: if a {\n                    st = St::Run;\n                }\n                St::Run: if b {\n                    st = St::Wait;\n                } else if a {\n                    st = St::Done;\n                }\n                St::Wait: st = St::Done;\n                default: if !a {\n                    st = St::Idle;\n                }\n            }\n        }\n    }\n    assign y = st;\n    assign z = st == St::Done && b;".into()),
        ("mealy/acc", vec![("a", 2, u)], vec![("y", 3, u)],
         "    var acc: logic<2>;\n    always_ff {\n        if_reset {\n            acc = 2'd3;\n        } else {\n            acc = acc + a;\n        }\n    }\n    assign y = acc + a;".into()),
        ("regfile/ff-reset", vec![("a", 1, u), ("b", 1, u), ("c", 2, u), ("d", 1, u)], vec![("y", 2, u)],
         "    var m: logic<2> [2];\n    always_ff {\n        if_reset {\n            m[0] = 2'd1;\n            m[1] = 2'd2;\n        } else if a {\n            m[b] = c;\n        }\n    }\n    assign y = m[d];".into()),
        ("regs/struct", vec![("a", 2, u), ("b", 1, u)], vec![("y", 3, u)],
         "    struct S {\n        f: logic,\n        v: logic<2>,\n    }\n    var s: S;\n    always_ff {\n        if_reset {\n            s.f = 1'b1;\n            s.v = 2'd0;\n        } else {\n            s.f = b ^ s.v[0];\n            if b {\n                s.v = a;\n            }\n        }\n    }\n    assign y = s;".into()),
        ("regs/bit-writes", vec![("a", 2, u), ("b", 1, u)], vec![("y", 4, u)],
         "    always_ff {\n        if_reset {\n            y = 4'b0011;\n        } else {\n            y[a] = b;\n            y[3] = b ^ a[0];\n        }\n    }".into()),
        ("regs/bit-raw", vec![("a", 2, u), ("b", 1, u)], vec![("y", 4, u)],
         "    always_ff {\n        if_reset {\n            y = 4'b0011;\n        } else {\n            y[a] = b;\n            y[3] = y[0];\n        }\n    }".into()),
        ("regs/hold-const", vec![("a", 1, u)], vec![("y", 2, u), ("z", 1, u)],
         "    var k: logic<2>;\n    always_ff {\n        if_reset {\n            k = 2'd2;\n            z = 1'b0;\n        } else {\n            k = k;\n            z = a ^ k[1];\n        }\n    }\n    assign y = k;".into()),
    ];
    for (ti, (name, ins, outs, body)) in templates.iter().enumerate() {
        for ck in CLOCKS {
            for rk in RESETS {
                let base = ck == ClkKind::Default && rk == RstKind::Default;
                // quick: every template in the default config, plus every clock/reset kind on three templates
                let quick = base || ti == 1 || ti == 4 || (ti == 8 && ck == ClkKind::Neg);
                let body2 = body.replace("always_ff {", "always_ff (clk, rst) {");
                b.seq(
                    format!("seq/{name}/{}-{}", ck.tag(), rk.tag()),
                    &seq_template(name),
                    ck,
                    Some(rk),
                    ins,
                    outs,
                    &body2,
                    "",
                    quick,
                );
            }
        }
    }
    // registers without reset (power-up value 0 on both sides)
    for ck in CLOCKS {
        b.seq(format!("seq/noreset/plain/{}", ck.tag()), "seq:ff-read-after-write", ck, None, &[("a", 2, u)], &[("y", 2, u), ("z", 2, u)],
              "    var q: logic<2>;\n    always_ff (clk) {\n        q = a;\n        y = q;\n    }\n    assign z = q ^ a;", "", true);
    }
    b.seq("seq/noreset/mixed".into(), "seq:noreset", ClkKind::Default, Some(RstKind::Default), &[("a", 2, u)], &[("y", 2, u), ("z", 2, u)],
          "    always_ff (clk) {\n        z = a;\n    }\n    always_ff (clk, rst) {\n        if_reset {\n            y = 2'd1;\n        } else {\n            y = z + a;\n        }\n    }", "", true);
    // implicit default clock/reset
    b.seq("seq/implicit-clock-reset".into(), "seq:reg", ClkKind::Default, Some(RstKind::Default), &[("a", 2, u)], &[("y", 2, u)],
          "    always_ff {\n        if_reset {\n            y = 2'd3;\n        } else {\n            y = y - a;\n        }\n    }", "", true);
    // sequential sub-module (flattened FFs) and generate-for registers
    let sub = "module Cell (\n    clk: input clock,\n    rst: input reset,\n    d: input logic,\n    en: input logic,\n    q: output logic,\n) {\n    always_ff (clk, rst) {\n        if_reset {\n            q = 1'b1;\n        } else if en {\n            q = d;\n        }\n    }\n}\n";
    b.seq("seq/inst/chain".into(), "inst:shared-output-var", ClkKind::Default, Some(RstKind::Default), &[("a", 1, u), ("b", 1, u)], &[("y", 3, u)],
          "    var t: logic<4>;\n    assign t[0] = a;\n    for i in 0..3 :g {\n        inst u: Cell (\n            clk: clk,\n            rst: rst,\n            d: t[i],\n            en: b,\n            q: t[i + 1],\n        );\n    }\n    assign y = t[3:1];", sub, true);
    b.seq("seq/gen/for-regs".into(), "seq:reset-partial-assign", ClkKind::Default, Some(RstKind::Default), &[("a", 2, u)], &[("y", 4, u)],
          "    for i in 0..4 :g {\n        always_ff (clk, rst) {\n            if_reset {\n                y[i] = i % 2;\n            } else {\n                y[i] = a[i % 2] ^ y[(i + 1) % 4];\n            }\n        }\n    }", "", true);
    // generate-for registers with a whole-variable reset (no partial assignment in if_reset)
    b.seq("seq/gen/for-regs-whole-reset".into(), "seq:gen", ClkKind::Default, Some(RstKind::Default), &[("a", 2, u)], &[("y", 4, u)],
          "    var r: logic<4>;\n    var n: logic<4>;\n    for i in 0..4 :g {\n        assign n[i] = a[i % 2] ^ r[(i + 1) % 4];\n    }\n    always_ff (clk, rst) {\n        if_reset {\n            r = 4'b1010;\n        } else {\n            r = n;\n        }\n    }\n    assign y = r;", "", true);
    // reset value given by a constant expression rather than a literal
    b.seq("seq/reset-const-expr".into(), "seq:reset-const-expr", ClkKind::Default, Some(RstKind::Default), &[("a", 2, u)], &[("y", 3, u)],
          "    const K: logic<3> = 3'd5;\n    always_ff (clk, rst) {\n        if_reset {\n            y = K ^ 3'd3;\n        } else {\n            y = y + {1'b0, a};\n        }\n    }", "", true);
    b.seq("seq/reset-const-name".into(), "seq:reset-const-name", ClkKind::Default, Some(RstKind::Default), &[("a", 2, u)], &[("y", 3, u)],
          "    const K: logic<3> = 3'd5;\n    always_ff (clk, rst) {\n        if_reset {\n            y = K;\n        } else {\n            y = y + {1'b0, a};\n        }\n    }", "", true);
    // two always_ff blocks, the second reads the register of the first (old value on both sides)
    b.seq("seq/two-blocks-chain".into(), "seq:two-blocks", ClkKind::Default, Some(RstKind::Default), &[("a", 2, u), ("b", 1, u)], &[("y", 2, u), ("z", 2, u)],
          "    var p: logic<2>;\n    always_ff (clk, rst) {\n        if_reset {\n            p = 2'd1;\n        } else if b {\n            p = a;\n        }\n    }\n    always_ff (clk, rst) {\n        if_reset {\n            y = 2'd2;\n        } else {\n            y = p + 2'd1;\n        }\n    }\n    assign z = p;", "", true);
    // shift register written with a for loop: every stage reads its predecessor's OLD value
    b.seq("seq/for-shift".into(), "seq:ff-read-after-write", ClkKind::Default, Some(RstKind::Default), &[("a", 1, u), ("b", 1, u)], &[("y", 4, u)],
          "    always_ff (clk, rst) {\n        if_reset {\n            y = 4'b0001;\n        } else if b {\n            y[0] = a;\n            for i in 1..4 {\n                y[i] = y[i - 1];\n            }\n        }\n    }", "", true);
    // the same shift register written so that no bit is read after it was assigned
    b.seq("seq/for-shift-down".into(), "seq:for-in-ff", ClkKind::Default, Some(RstKind::Default), &[("a", 1, u), ("b", 1, u)], &[("y", 4, u)],
          "    always_ff (clk, rst) {\n        if_reset {\n            y = 4'b0001;\n        } else if b {\n            for i in rev 1..4 {\n                y[i] = y[i - 1];\n            }\n            y[0] = a;\n        }\n    }", "", true);
    // procedural locals inside always_ff (`var` / `let` declared in the block): blocking semantics
    b.seq("seq/ff-local-var".into(), "seq:ff-local-var", ClkKind::Default, Some(RstKind::Default), &[("a", 2, u), ("b", 1, u)], &[("y", 3, u)],
          "    always_ff (clk, rst) {\n        if_reset {\n            y = 3'd2;\n        } else {\n            var t: logic<3>;\n            t = y + {1'b0, a};\n            if b {\n                t = t ^ 3'd5;\n            }\n            y = t;\n        }\n    }", "", true);
    b.seq("seq/ff-local-let".into(), "seq:ff-local-var", ClkKind::Default, Some(RstKind::Default), &[("a", 2, u), ("b", 1, u)], &[("y", 3, u), ("z", 1, u)],
          "    always_ff (clk, rst) {\n        if_reset {\n            y = 3'd0;\n            z = 1'b0;\n        } else {\n            let s: logic<3> = y + {1'b0, a};\n            let c: logic = s[2] ^ b;\n            y = s;\n            z = c;\n        }\n    }", "", true);
    // case / switch inside always_ff
    b.seq("seq/case-in-ff".into(), "seq:case-in-ff", ClkKind::Default, Some(RstKind::Default), &[("a", 2, u), ("b", 2, u)], &[("y", 2, u), ("z", 1, u)],
          "    always_ff (clk, rst) {\n        if_reset {\n            y = 2'd0;\n            z = 1'b1;\n        } else {\n            case a {\n                0: y = b;\n                1: {\n                    y = y + b;\n                    z = ~z;\n                }\n                2: z = b[0];\n                default: {}\n            }\n        }\n    }", "", true);
    b.seq("seq/switch-in-ff".into(), "seq:switch-in-ff", ClkKind::Default, Some(RstKind::Default), &[("a", 2, u), ("b", 2, u)], &[("y", 2, u)],
          "    always_ff (clk, rst) {\n        if_reset {\n            y = 2'd3;\n        } else {\n            switch {\n                a == b: y = 2'd0;\n                a >: y: y = a;\n                default: y = y - 2'd1;\n            }\n        }\n    }", "", true);
    // interface with registers on one side
    let ifc = "interface Bus {\n    var d: logic<2>;\n    var v: logic;\n    modport master {\n        d: output,\n        v: output,\n    }\n    modport slave {\n        d: input,\n        v: input,\n    }\n}\nmodule Src (\n    clk: input clock,\n    rst: input reset,\n    m: modport Bus::master,\n    p: input logic<2>,\n) {\n    always_ff (clk, rst) {\n        if_reset {\n            m.d = 2'd2;\n            m.v = 1'b0;\n        } else {\n            m.d = p;\n            m.v = p[0] ^ p[1];\n        }\n    }\n}\nmodule Dst (\n    s: modport Bus::slave,\n    r: output logic<3>,\n) {\n    assign r = if s.v ? {1'b1, s.d} : {1'b0, ~s.d};\n}\n";
    b.seq("seq/iface-registered".into(), "seq:iface", ClkKind::Default, Some(RstKind::Default), &[("a", 2, u)], &[("y", 3, u)],
          "    inst bus: Bus;\n    inst u0: Src (\n        clk: clk,\n        rst: rst,\n        m: bus,\n        p: a,\n    );\n    inst u1: Dst (\n        s: bus,\n        r: y,\n    );", ifc, true);
    // two-level hierarchy with a parameterised counter
    let cnt = "module Cnt #(\n    param W: u32 = 2,\n    param INIT: u32 = 1,\n) (\n    clk: input clock,\n    rst: input reset,\n    en: input logic,\n    q: output logic<W>,\n) {\n    always_ff (clk, rst) {\n        if_reset {\n            q = INIT;\n        } else if en {\n            q = q + 1;\n        }\n    }\n}\nmodule Mid (\n    clk: input clock,\n    rst: input reset,\n    en: input logic,\n    lo: output logic<2>,\n    hi: output logic<3>,\n) {\n    inst c0: Cnt (\n        clk: clk,\n        rst: rst,\n        en: en,\n        q: lo,\n    );\n    inst c1: Cnt #(\n        W: 3,\n        INIT: 6,\n    ) (\n        clk: clk,\n        rst: rst,\n        en: en & lo == 2'd3,\n        q: hi,\n    );\n}\n";
    b.seq("seq/hier-2level-param-reset".into(), "seq:reset-const-name", ClkKind::Default, Some(RstKind::Default), &[("a", 1, u)], &[("y", 2, u), ("z", 3, u)],
          "    inst m: Mid (\n        clk: clk,\n        rst: rst,\n        en: a,\n        lo: y,\n        hi: z,\n    );", cnt, true);
    let cnt2 = cnt.replace("q = INIT;", "q = 1;").replace("    param INIT: u32 = 1,\n", "    param STEP: u32 = 1,\n").replace("q = q + 1;", "q = q + STEP;").replace("        INIT: 6,\n", "        STEP: 3,\n");
    b.seq("seq/hier-2level".into(), "seq:hier", ClkKind::Default, Some(RstKind::Default), &[("a", 1, u)], &[("y", 2, u), ("z", 3, u)],
          "    inst m: Mid (\n        clk: clk,\n        rst: rst,\n        en: a,\n        lo: y,\n        hi: z,\n    );", &cnt2, true);
    // function used inside always_ff
    b.seq("seq/func-in-ff".into(), "seq:func", ClkKind::Default, Some(RstKind::Default), &[("a", 2, u)], &[("y", 3, u)],
          "    function nxt (\n        p: input logic<3>,\n        q: input logic<2>,\n    ) -> logic<3> {\n        return if q == 0 ? p : p + {1'b0, q};\n    }\n    always_ff (clk, rst) {\n        if_reset {\n            y = 3'd0;\n        } else {\n            y = nxt(y, a);\n        }\n    }", "", true);
}

// ------------------------------------------------------------------------------------------
// 8. shapes for the restructuring passes (balance, prefix, counter) and wide arithmetic

fn gen_passes(b: &mut B) {
    let u = false;
    // reductions / running folds over >= 8 leaves (balance)
    for (op, name) in [("&", "and"), ("|", "or"), ("^", "xor")] {
        for n in [8u32, 9, 12] {
            let mut body = String::from("    always_comb {\n        y = a[0];\n");
            for i in 1..n {
                body.push_str(&format!("        y = y {op} a[{i}];\n"));
            }
            body.push_str("    }");
            b.comb(format!("pass/balance/fold-{name}/{n}"), "pass:balance", &[("a", n, u)], &[("y", 1, u)], &body, "", n == 8);
        }
        b.comb(format!("pass/balance/reduce-{name}/10"), "pass:balance", &[("a", 10, u)], &[("y", 1, u)], &format!("    assign y = {op}a;"), "", true);
        // mixed-arrival fold: leaves come out of registers and of deeper logic
        b.comb(format!("pass/balance/uneven-{name}"), "pass:balance", &[("a", 8, u), ("b", 2, u)], &[("y", 1, u)],
               &format!("    let t: logic = (a[0] ^ b[0]) & (a[1] | b[1]);\n    always_comb {{\n        y = t;\n        y = y {op} a[2];\n        y = y {op} a[3];\n        y = y {op} (a[4] & b[0]);\n        y = y {op} a[5];\n        y = y {op} a[6];\n        y = y {op} a[7];\n        y = y {op} b[1];\n        y = y {op} a[0];\n    }}"), "", name == "xor");
    }
    // prefix scans with every partial result observed
    for n in [8u32, 10] {
        // priority encoder: found / index
        let iw = 4;
        let mut body = format!("    always_comb {{\n        y = {iw}'d0;\n        z = 1'b0;\n");
        for i in 0..n {
            body.push_str(&format!("        if !z && a[{i}] {{\n            y = {iw}'d{i};\n            z = 1'b1;\n        }}\n"));
        }
        body.push_str("    }");
        b.comb(format!("pass/prefix/prio-enc/{n}"), "pass:prefix", &[("a", n, u)], &[("y", iw, u), ("z", 1, u)], &body, "", n == 8);
        // arbiter grant mask: g[i] = a[i] & !(a[0] | … | a[i-1])
        let mut body = String::from("    var seen: logic<N1>;\n    assign seen[0] = 1'b0;\n    for i in 0..N :g {\n        assign seen[i + 1] = seen[i] | a[i];\n        assign y[i] = a[i] & !seen[i];\n    }").replace("N1", &(n + 1).to_string()).replace('N', &n.to_string());
        b.comb(format!("pass/prefix/arbiter/{n}"), "pass:prefix", &[("a", n, u)], &[("y", n, u)], &body, "", n == 8);
        // gray to binary: running xor from the top
        body = String::from("    var t: logic<N1>;\n    assign t[N] = 1'b0;\n    for i in 0..N :g {\n        assign t[N - 1 - i] = t[N - i] ^ a[N - 1 - i];\n    }\n    assign y = t[N - 1:0];").replace("N1", &(n + 1).to_string()).replace('N', &n.to_string());
        b.comb(format!("pass/prefix/gray2bin/{n}"), "pass:prefix", &[("a", n, u)], &[("y", n, u)], &body, "", n == 8);
        // running and (thermometer)
        body = String::from("    var t: logic<N1>;\n    assign t[0] = 1'b1;\n    for i in 0..N :g {\n        assign t[i + 1] = t[i] & a[i];\n    }\n    assign y = t[N:1];").replace("N1", &(n + 1).to_string()).replace('N', &n.to_string());
        b.comb(format!("pass/prefix/running-and/{n}"), "pass:prefix", &[("a", n, u)], &[("y", n, u)], &body, "", false);
    }
    // conditional-increment scans (counter rebuild): popcount, gated popcount, clz-style, else-if writeback
    for n in [8u32, 9, 12] {
        let cw = 4;
        let mut body = format!("    always_comb {{\n        y = {cw}'d0;\n");
        for i in 0..n {
            body.push_str(&format!("        if a[{i}] {{\n            y = y + {cw}'d1;\n        }}\n"));
        }
        body.push_str("    }");
        b.comb(format!("pass/counter/popcount/{n}"), "pass:counter", &[("a", n, u)], &[("y", cw, u)], &body, "", n != 9);
    }
    {
        // enable-gated popcount with a non-zero seed and a narrow (wrapping) counter
        let n = 8;
        let mut body = String::from("    always_comb {\n        y = {1'b0, b};\n");
        for i in 0..n {
            body.push_str(&format!("        if c && a[{i}] {{\n            y = y + 3'd1;\n        }}\n"));
        }
        body.push_str("    }");
        b.comb("pass/counter/gated-seeded-wrap/8".into(), "pass:counter", &[("a", 8, u), ("b", 2, u), ("c", 1, u)], &[("y", 3, u)], &body, "", true);
        // count trailing zeros: stop counting after the first one
        let mut body = String::from("    always_comb {\n        y = 4'd0;\n        z = 1'b0;\n");
        for i in 0..n {
            body.push_str(&format!("        if a[{i}] {{\n            z = 1'b1;\n        }} else if !z {{\n            y = y + 4'd1;\n        }}\n"));
        }
        body.push_str("    }");
        b.comb("pass/counter/ctz/8".into(), "pass:counter", &[("a", 8, u)], &[("y", 4, u), ("z", 1, u)], &body, "", true);
        // += form with an observed intermediate count
        let mut body = String::from("    always_comb {\n        y = 4'd0;\n        z = 4'd0;\n");
        for i in 0..10 {
            body.push_str(&format!("        if a[{i}] {{\n            y += 4'd1;\n        }}\n"));
            if i == 4 {
                body.push_str("        z = y;\n");
            }
        }
        body.push_str("    }");
        b.comb("pass/counter/observed-mid/10".into(), "pass:counter", &[("a", 10, u)], &[("y", 4, u), ("z", 4, u)], &body, "", true);
        // the same scan fed from a shift register (sequential, full product space)
        let mut body = String::from("    var sr: logic<8>;\n    always_ff (clk, rst) {\n        if_reset {\n            sr = 8'h01;\n        } else if b {\n            sr = {sr[6:0], a};\n        }\n    }\n    always_comb {\n        y = 4'd0;\n");
        for i in 0..8 {
            body.push_str(&format!("        if sr[{i}] {{\n            y = y + 4'd1;\n        }}\n"));
        }
        body.push_str("    }");
        b.seq("pass/counter/popcount-of-shiftreg".into(), "pass:counter", ClkKind::Default, Some(RstKind::Default), &[("a", 1, u), ("b", 1, u)], &[("y", 4, u)], &body, "", true);
    }
    // 16-stage scans: long enough for the popcount-tree rebuild to beat the serial chain
    {
        let n = 16;
        // count trailing zeros, for-loop form with a found flag (else-if writeback)
        b.comb("pass/counter/ctz/16".into(), "pass:counter", &[("a", 16, u)], &[("y", 5, u)],
               "    var found: logic;\n    always_comb {\n        y = 5'd0;\n        found = 1'b0;\n        for i in 0..16 {\n            if !found && a[i] {\n                found = 1'b1;\n            } else if !found {\n                y = y + 5'd1;\n            }\n        }\n    }", "", true);
        // count leading zeros
        b.comb("pass/counter/clz/16".into(), "pass:counter", &[("a", 16, u)], &[("y", 5, u), ("z", 1, u)],
               "    always_comb {\n        y = 5'd0;\n        z = 1'b0;\n        for i in rev 0..16 {\n            if a[i] {\n                z = 1'b1;\n            } else if !z {\n                y = y + 5'd1;\n            }\n        }\n    }", "", false);
        // popcount gated by an enable (two-term conditions), non-zero seed, wrapping 4-bit counter
        let mut body = String::from("    always_comb {\n        y = {2'b00, b};\n");
        for i in 0..n {
            body.push_str(&format!("        if c && a[{i}] {{\n            y = y + 4'd1;\n        }}\n"));
        }
        body.push_str("    }");
        b.comb("pass/counter/gated-seeded-wrap/16".into(), "pass:counter", &[("a", 16, u), ("b", 2, u), ("c", 1, u)], &[("y", 4, u)], &body, "", false);
        // plain popcount and popcount with a negated gate
        let mut body = String::from("    always_comb {\n        y = 5'd0;\n");
        for i in 0..n {
            body.push_str(&format!("        if a[{i}] {{\n            y = y + 5'd1;\n        }}\n"));
        }
        body.push_str("    }");
        b.comb("pass/counter/popcount/16".into(), "pass:counter", &[("a", 16, u)], &[("y", 5, u)], &body, "", true);
        let mut body = String::from("    always_comb {\n        y = 5'd0;\n");
        for i in 0..n {
            body.push_str(&format!("        if !c && a[{i}] {{\n            y = y + 5'd1;\n        }}\n"));
        }
        body.push_str("    }");
        b.comb("pass/counter/popcount-neg-gate/16".into(), "pass:counter", &[("a", 16, u), ("c", 1, u)], &[("y", 5, u)], &body, "", false);
    }
    // wide arithmetic (parallel-prefix adders, wallace multiplier, comparators): corner alphabets,
    // plus one fully exhaustive 8+8 adder/subtractor/comparator
    for (tok, name) in [("+", "add"), ("-", "sub"), ("<:", "lt"), ("==", "eq"), ("*", "mul")] {
        let wy = match name { "lt" | "eq" => 1, "mul" => 16, _ => 9 };
        b.comb(format!("wide/{name}/8x8-exhaustive"), &format!("wide:{name}"), &[("a", 8, u), ("b", 8, u)], &[("y", wy, u)],
               &format!("    assign y = a {tok} b;"), "", name == "add");
    }
    for w in [12u32, 16, 24, 32, 33] {
        for (tok, name) in [("+", "add"), ("-", "sub"), ("<:", "lt"), (">=", "ge"), ("==", "eq")] {
            for s in [false, true] {
                let wy = match name { "lt" | "ge" | "eq" => 1, _ => w + 1 };
                let quick = (w == 16 || w == 33) && !s && matches!(name, "add" | "lt");
                b.comb(format!("wide/{name}/{}{w}", if s { "s" } else { "u" }), &format!("wide:{name}"), &[("a", w, s), ("b", w, s)], &[("y", wy, s)],
                       &format!("    assign y = a {tok} b;"), "", quick);
                let d = b.out.last_mut().unwrap();
                d.alphabet = Some(cross(&[corners(w), corners(w)]));
            }
        }
    }
    b.comb("wide/mul/s12".into(), "wide:mul", &[("a", 12, true), ("b", 12, true)], &[("y", 24, true)], "    assign y = a * b;", "", false);
    b.out.last_mut().unwrap().alphabet = Some(cross(&[corners(12), corners(12)]));
    b.comb("wide/div/s12".into(), "wide:div", &[("a", 12, true), ("b", 12, true)], &[("y", 12, true), ("z", 12, true)],
           "    assign y = if b == 0 ? 0 : a / b;\n    assign z = if b == 0 ? 0 : a % b;", "", false);
    b.out.last_mut().unwrap().alphabet = Some(cross(&[corners(12), corners(12)]));
    b.comb("wide/ashr/s16".into(), "wide:shift", &[("a", 16, true), ("b", 5, u)], &[("y", 16, true)], "    assign y = a >>> b;", "", true);
    b.out.last_mut().unwrap().alphabet = Some(cross(&[corners(16), (0..32).collect()]));
    for w in [12u32, 16] {
        b.comb(format!("wide/mul/u{w}"), "wide:mul", &[("a", w, u), ("b", w, u)], &[("y", 2 * w, u)], "    assign y = a * b;", "", w == 12);
        b.out.last_mut().unwrap().alphabet = Some(cross(&[corners(w), corners(w)]));
        b.comb(format!("wide/div/u{w}"), "wide:div", &[("a", w, u), ("b", w, u)], &[("y", w, u), ("z", w, u)],
               "    assign y = if b == 0 ? 0 : a / b;\n    assign z = if b == 0 ? 0 : a % b;", "", false);
        b.out.last_mut().unwrap().alphabet = Some(cross(&[corners(w), corners(w)]));
        b.comb(format!("wide/shift/u{w}"), "wide:shift", &[("a", w, u), ("b", 5, u)], &[("y", w, u), ("z", w, u)],
               "    assign y = a << b;\n    assign z = a >> b;", "", w == 16);
        b.out.last_mut().unwrap().alphabet = Some(cross(&[corners(w), (0..32).collect()]));
    }
    // wide accumulator: sequential, corner letters, bounded depth
    b.seq("wide/acc/u16".into(), "wide:acc", ClkKind::Default, Some(RstKind::Default), &[("a", 16, u)], &[("y", 16, u)],
          "    always_ff (clk, rst) {\n        if_reset {\n            y = 16'hfff0;\n        } else {\n            y = y + a;\n        }\n    }", "", false);
    b.out.last_mut().unwrap().alphabet = Some(cross(&[vec![0, 1, 0xf, 0x10, 0xffff, 0x8000, 0x00ff]]));
    b.seq("wide/acc/u10".into(), "wide:acc", ClkKind::Default, Some(RstKind::Default), &[("a", 10, u)], &[("y", 10, u)],
          "    always_ff (clk, rst) {\n        if_reset {\n            y = 10'h3f0;\n        } else {\n            y = y + a;\n        }\n    }", "", true);
    b.out.last_mut().unwrap().alphabet = Some(cross(&[vec![0, 1, 0xf, 0x10, 0x3ff, 0x200, 0x0ff]]));
}

// ------------------------------------------------------------------------------------------
// 9. memories around the RAM-inference thresholds

fn gen_ram(b: &mut B) {
    let u = false;
    // (depth, width): tiny ones are RAM only under "always infer"; 1020/1024/1028 bits straddle the
    // default floor of 1024 bits; 64x16 and 32x32 reach it with other aspect ratios.
    let sizes: [(u32, u32, bool); 9] = [
        (2, 1, false),
        (4, 2, true),
        (4, 4, false),
        (255, 4, true),
        (256, 4, true),
        (257, 4, false),
        (128, 8, false),
        (64, 16, false),
        (32, 32, false),
    ];
    for (depth, width, q, spread) in sizes.iter().flat_map(|&(d, w, q)| {
        // `spread`: the two address input bits drive address bit 0 and a HIGH address bit, so
        // words {0, 1, 2^k, 2^k + 1} are used instead of {0, 1, 2, 3} (address decoding of the
        // upper bits takes part); only for memories with at least 8 words
        let mut v = vec![(d, w, q, false)];
        if d >= 8 {
            v.push((d, w, false, true));
        }
        v
    }) {
        let abits = {
            let mut k = 0;
            while (1u32 << k) < depth {
                k += 1;
            }
            k.max(1)
        };
        // the design only ever addresses words 0..min(depth,4)
        let in_abits = abits.min(2);
        let reach = depth.min(4);
        // position of the high address bit in spread mode: 2^hi + 1 must stay below depth
        let hi: u32 = {
            let mut k: u32 = 0;
            while (2u32 << k) <= depth {
                k += 1;
            }
            k.saturating_sub(1)
        };
        let pad = |name: &str| -> String {
            if spread {
                let top = abits - hi - 1;
                let mid = hi - 1;
                let mut parts = vec![];
                if top > 0 {
                    parts.push(format!("{top}'b0"));
                }
                parts.push(format!("{name}[1]"));
                if mid > 0 {
                    parts.push(format!("{mid}'b0"));
                }
                parts.push(format!("{name}[0]"));
                format!("{{{}}}", parts.join(", "))
            } else if abits > in_abits {
                format!("{{{}'b0, {name}}}", abits - in_abits)
            } else {
                name.to_string()
            }
        };
        let data = |name: &str| -> String { if width > 1 { format!("{{{name} repeat {width}}}") } else { name.to_string() } };
        let tag = format!("{depth}x{width}{}", if spread { "-hiaddr" } else { "" });
        // letters: we, wa, wd, ra  -> write zero to each reachable word
        let clean4: Vec<Vec<u64>> = (0..reach as u64).map(|k| vec![1, k, 0, 0]).collect();
        let ins4: [(&str, u32, bool); 4] = [("we", 1, u), ("wa", in_abits, u), ("wd", 1, u), ("ra", in_abits, u)];
        let mut ram = |b: &mut B, name: &str, ck: ClkKind, rk: Option<RstKind>, ins: &[(&str, u32, bool)], outs: &[(&str, u32, bool)], body: String, prelude: &str, clean: Vec<Vec<u64>>, quick: bool| {
            let quick_big = matches!(name, "async-read" | "sync-read-rbw" | "two-read-ports" | "in-submodule-x2");
            let d = b.seq(format!("ram/{name}/{tag}"), &format!("ram:{name}"), ck, rk, ins, outs, &body, prelude, quick && q && (depth * width <= 64 || quick_big));
            d.clean = clean;
            d.ram_candidate = true;
        };
        let decl = format!("    var mem: logic<{width}> [{depth}];\n");
        let (wa, ra, wd) = (pad("wa"), pad("ra"), data("wd"));

        ram(b, "async-read", ClkKind::Default, None, &ins4, &[("y", width, u)],
            format!("{decl}    always_ff (clk) {{\n        if we {{\n            mem[{wa}] = {wd};\n        }}\n    }}\n    assign y = mem[{ra}];"), "", clean4.clone(), true);
        ram(b, "sync-read-rbw", ClkKind::Default, None, &ins4, &[("y", width, u)],
            format!("{decl}    always_ff (clk) {{\n        if we {{\n            mem[{wa}] = {wd};\n        }}\n        y = mem[{ra}];\n    }}"), "", clean4.clone(), true);
        ram(b, "sync-read-before-write-stmt", ClkKind::Default, None, &ins4, &[("y", width, u)],
            format!("{decl}    always_ff (clk) {{\n        y = mem[{ra}];\n        if we {{\n            mem[{wa}] = {wd};\n        }}\n    }}"), "", clean4.clone(), false);
        ram(b, "same-addr-rw", ClkKind::Default, None, &ins4[..3], &[("y", width, u), ("z", width, u)],
            format!("{decl}    always_ff (clk) {{\n        if we {{\n            mem[{wa}] = {wd};\n        }}\n        y = mem[{wa}];\n    }}\n    assign z = mem[{wa}];"), "",
            (0..reach as u64).map(|k| vec![1, k, 0]).collect(), true);
        ram(b, "bypass-write-first", ClkKind::Default, None, &ins4, &[("y", width, u)],
            format!("{decl}    always_ff (clk) {{\n        if we {{\n            mem[{wa}] = {wd};\n        }}\n    }}\n    assign y = if we && wa == ra ? {wd} : mem[{ra}];"), "", clean4.clone(), true);
        ram(b, "unconditional-write", ClkKind::Default, None, &ins4[1..], &[("y", width, u)],
            format!("{decl}    always_ff (clk) {{\n        mem[{wa}] = {wd};\n    }}\n    assign y = mem[{ra}];"), "",
            (0..reach as u64).map(|k| vec![k, 0, 0]).collect(), false);
        ram(b, "nested-enable", ClkKind::Default, None, &[("we", 1, u), ("wa", in_abits, u), ("wd", 1, u), ("ra", in_abits, u), ("m", 1, u)], &[("y", width, u)],
            format!("{decl}    always_ff (clk) {{\n        if we {{\n            case m {{\n                1'b1: mem[{wa}] = {wd};\n                default: if wa == ra {{\n                    mem[{wa}] = ~{wd};\n                }}\n            }}\n        }}\n    }}\n    assign y = mem[{ra}];"), "",
            (0..reach as u64).map(|k| vec![1, k, 0, 0, 1]).collect(), true);
        ram(b, "negedge", ClkKind::Neg, None, &ins4, &[("y", width, u)],
            format!("{decl}    always_ff (clk) {{\n        if we {{\n            mem[{wa}] = {wd};\n        }}\n    }}\n    assign y = mem[{ra}];"), "", clean4.clone(), false);
        if !spread {
        ram(b, "two-read-ports", ClkKind::Default, None, &ins4, &[("y", width, u), ("z", width, u)],
            format!("{decl}    always_ff (clk) {{\n        if we {{\n            mem[{wa}] = {wd};\n        }}\n    }}\n    assign y = mem[{ra}];\n    assign z = mem[{}];", pad(&format!("(ra + {in_abits}'d1)"))), "", clean4.clone(), true);
        ram(b, "read-index-reassigned", ClkKind::Default, None, &ins4, &[("y", width, u), ("z", width, u)],
            format!("{decl}    always_ff (clk) {{\n        if we {{\n            mem[{wa}] = {wd};\n        }}\n    }}\n    always_comb {{\n        var t: logic<{abits}>;\n        t = {ra};\n        y = mem[t];\n        t = {};\n        z = mem[t];\n    }}", pad("(ra ^ wa)")), "", clean4.clone(), true);
        }
        ram(b, "two-write-ports", ClkKind::Default, None, &[("we", 1, u), ("wa", in_abits, u), ("wd", 1, u), ("ra", in_abits, u), ("w2", 1, u)], &[("y", width, u)],
            format!("{decl}    always_ff (clk) {{\n        if we {{\n            mem[{wa}] = {wd};\n        }}\n        if w2 {{\n            mem[{ra}] = ~{wd};\n        }}\n    }}\n    assign y = mem[{ra}];"), "",
            (0..reach as u64).map(|k| vec![1, k, 0, 0, 0]).collect(), true);
        ram(b, "with-reset-regs", ClkKind::Default, Some(RstKind::Default), &[("we", 1, u), ("wd", 1, u), ("ra", in_abits, u)], &[("y", width, u), ("z", in_abits, u)],
            format!("{decl}    var wp: logic<{in_abits}>;\n    always_ff (clk, rst) {{\n        if_reset {{\n            wp = 0;\n        }} else if we {{\n            wp = wp + 1;\n        }}\n    }}\n    always_ff (clk) {{\n        if we {{\n            mem[{}] = {wd};\n        }}\n    }}\n    assign y = mem[{ra}];\n    assign z = wp;", pad("wp")), "",
            (0..reach as u64).map(|_| vec![1, 0, 0]).collect(), true);
        ram(b, "with-reset-regs-memfirst", ClkKind::Default, Some(RstKind::Default), &[("we", 1, u), ("wd", 1, u), ("ra", in_abits, u)], &[("y", width, u), ("z", in_abits, u)],
            format!("{decl}    var wp: logic<{in_abits}>;\n    always_ff (clk) {{\n        if we {{\n            mem[{}] = {wd};\n        }}\n    }}\n    always_ff (clk, rst) {{\n        if_reset {{\n            wp = 0;\n        }} else if we {{\n            wp = wp + 1;\n        }}\n    }}\n    assign y = mem[{ra}];\n    assign z = wp;", pad("wp")), "",
            (0..reach as u64).map(|_| vec![1, 0, 0]).collect(), true);
        if width >= 2 {
            let lo = width / 2;
            ram(b, "masked-rmw", ClkKind::Default, None, &[("we", 1, u), ("wa", in_abits, u), ("wd", 1, u), ("ra", in_abits, u), ("m", 2, u)], &[("y", width, u)],
                format!("{decl}    let mk: logic<{width}> = {{{{m[1] repeat {}}}, {{m[0] repeat {lo}}}}};\n    always_ff (clk) {{\n        if we {{\n            mem[{wa}] = (mem[{wa}] & ~mk) | ({wd} & mk);\n        }}\n    }}\n    assign y = mem[{ra}];", width - lo), "",
                (0..reach as u64).map(|k| vec![1, k, 0, 0, 3]).collect(), true);
            ram(b, "lane-writes", ClkKind::Default, None, &[("we", 1, u), ("wa", in_abits, u), ("wd", 1, u), ("ra", in_abits, u), ("m", 2, u)], &[("y", width, u)],
                format!("{decl}    always_ff (clk) {{\n        if we && m[0] {{\n            mem[{wa}][{}:0] = {{wd repeat {lo}}};\n        }}\n        if we && m[1] {{\n            mem[{wa}][{}:{lo}] = {{~wd repeat {}}};\n        }}\n    }}\n    assign y = mem[{ra}];", lo - 1, width - 1, width - lo), "",
                // lane 1 stores ~wd, so cleaning takes two passes per word
                (0..reach as u64).flat_map(|k| vec![vec![1, k, 0, 0, 1], vec![1, k, 1, 0, 2]]).collect(), true);
            ram(b, "read-bit-select", ClkKind::Default, None, &ins4, &[("y", 1, u), ("z", 1, u)],
                format!("{decl}    always_ff (clk) {{\n        if we {{\n            mem[{wa}] = {{{}, wd & ra[0]}};\n        }}\n    }}\n    assign y = mem[{ra}][0];\n    assign z = mem[{ra}][{}];", if width > 2 { format!("{{wd repeat {}}}", width - 1) } else { "wd".to_string() }, width - 1), "",
                clean4.clone(), false);
        }
        // memory inside a sub-module, instantiated twice (flattening re-bases RAM indices)
        let prelude = format!("module Mem (\n    clk: input clock,\n    we: input logic,\n    wa: input logic<{in_abits}>,\n    wd: input logic,\n    ra: input logic<{in_abits}>,\n    q: output logic<{width}>,\n) {{\n{decl}    always_ff (clk) {{\n        if we {{\n            mem[{wa}] = {wd};\n        }}\n    }}\n    assign q = mem[{ra}];\n}}\n");
        ram(b, "in-submodule-x2", ClkKind::Default, None, &ins4, &[("y", width, u), ("z", width, u)],
            "    inst m0: Mem (\n        clk: clk,\n        we: we,\n        wa: wa,\n        wd: wd,\n        ra: ra,\n        q: y,\n    );\n    inst m1: Mem (\n        clk: clk,\n        we: we & wa[0],\n        wa: ra,\n        wd: wd,\n        ra: wa,\n        q: z,\n    );".to_string(),
            &prelude,
            // m0 cleaned by (we,k,0,*); m1 (written at address ra when wa[0]) by (we,1,0,r)
            (0..reach as u64).map(|k| vec![1, k, 0, 0]).chain((0..reach as u64).map(|r| vec![1, 1, 0, r])).collect(),
            depth == 4 || depth == 256);
    }
}

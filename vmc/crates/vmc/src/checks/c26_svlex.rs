//! A small, whitespace-insensitive SystemVerilog tokenizer for C26 (comments are tokens).
//! Shares no code with veryl. Also used (with byte spans) to find the token gaps of Veryl source
//! text, whose lexical syntax is close enough for the generated designs.

#[derive(Clone, Copy, Debug, PartialEq, Eq, Hash, PartialOrd, Ord)]
pub enum Kind {
    LineComment,
    BlockComment,
    Str,
    Ident,
    Number,
    Op,
    Directive,
}

#[derive(Clone, Debug, PartialEq, Eq, Hash, PartialOrd, Ord)]
pub struct Tok {
    pub kind: Kind,
    pub text: String,
    pub start: usize,
    pub end: usize,
}

impl Tok {
    pub fn is_comment(&self) -> bool {
        matches!(self.kind, Kind::LineComment | Kind::BlockComment)
    }
}

const OPS: &[&str] = &[
    "<<<=", ">>>=", "===", "!==", "==?", "!=?", "<<<", ">>>", "<<=", ">>=", "&&&", "->>", "<->", "|->", "|=>", "**", "==",
    "!=", "<=", ">=", "&&", "||", "<<", ">>", "+=", "-=", "*=", "/=", "%=", "&=", "|=", "^=", "++", "--", "->", "::", "+:",
    "-:", "~&", "~|", "~^", "^~", "##",
];

fn is_id_start(c: u8) -> bool {
    c.is_ascii_alphabetic() || c == b'_' || c == b'$'
}
fn is_id_cont(c: u8) -> bool {
    c.is_ascii_alphanumeric() || c == b'_' || c == b'$'
}

/// Tokenizes `s`. Never fails: an unknown byte is a one-byte `Op`.
pub fn lex(s: &str) -> Vec<Tok> {
    let b = s.as_bytes();
    let mut i = 0;
    let mut out = vec![];
    let push = |out: &mut Vec<Tok>, kind: Kind, st: usize, en: usize, text: String| {
        out.push(Tok { kind, text, start: st, end: en });
    };
    while i < b.len() {
        let c = b[i];
        if c == b' ' || c == b'\t' || c == b'\n' || c == b'\r' {
            i += 1;
            continue;
        }
        let st = i;
        if c == b'/' && b.get(i + 1) == Some(&b'/') {
            while i < b.len() && b[i] != b'\n' {
                i += 1;
            }
            let t = s[st..i].trim_end().to_string();
            push(&mut out, Kind::LineComment, st, i, t);
            continue;
        }
        if c == b'/' && b.get(i + 1) == Some(&b'*') {
            i += 2;
            while i + 1 < b.len() && !(b[i] == b'*' && b[i + 1] == b'/') {
                i += 1;
            }
            i = (i + 2).min(b.len());
            push(&mut out, Kind::BlockComment, st, i, s[st..i].to_string());
            continue;
        }
        if c == b'"' {
            i += 1;
            while i < b.len() && b[i] != b'"' {
                if b[i] == b'\\' {
                    i += 1;
                }
                i += 1;
            }
            i = (i + 1).min(b.len());
            push(&mut out, Kind::Str, st, i, s[st..i].to_string());
            continue;
        }
        if c == b'`' {
            i += 1;
            while i < b.len() && is_id_cont(b[i]) {
                i += 1;
            }
            let name = &s[st..i];
            if name == "`define" {
                // the rest of the logical line belongs to the directive
                while i < b.len() && b[i] != b'\n' {
                    if b[i] == b'\\' && (b.get(i + 1) == Some(&b'\n') || (b.get(i + 1) == Some(&b'\r') && b.get(i + 2) == Some(&b'\n'))) {
                        i += if b[i + 1] == b'\r' { 3 } else { 2 };
                        continue;
                    }
                    i += 1;
                }
                let t: String = s[st..i].split_whitespace().collect::<Vec<_>>().join(" ");
                push(&mut out, Kind::Directive, st, i, t);
            } else {
                push(&mut out, Kind::Directive, st, i, name.to_string());
            }
            continue;
        }
        if c == b'\\' {
            // escaped identifier: up to the next white space
            i += 1;
            while i < b.len() && !matches!(b[i], b' ' | b'\t' | b'\n' | b'\r') {
                i += 1;
            }
            push(&mut out, Kind::Ident, st, i, s[st..i].to_string());
            continue;
        }
        if is_id_start(c) {
            while i < b.len() && is_id_cont(b[i]) {
                i += 1;
            }
            push(&mut out, Kind::Ident, st, i, s[st..i].to_string());
            continue;
        }
        if c.is_ascii_digit() {
            while i < b.len() && (b[i].is_ascii_digit() || b[i] == b'_') {
                i += 1;
            }
            if i + 1 < b.len() && b[i] == b'.' && b[i + 1].is_ascii_digit() {
                i += 1;
                while i < b.len() && (b[i].is_ascii_digit() || b[i] == b'_') {
                    i += 1;
                }
            }
            if i < b.len() && (b[i] == b'e' || b[i] == b'E') {
                let mut j = i + 1;
                if j < b.len() && (b[j] == b'+' || b[j] == b'-') {
                    j += 1;
                }
                if j < b.len() && b[j].is_ascii_digit() {
                    while j < b.len() && (b[j].is_ascii_digit() || b[j] == b'_') {
                        j += 1;
                    }
                    i = j;
                }
            }
            push(&mut out, Kind::Number, st, i, s[st..i].to_string());
            continue;
        }
        if c == b'\'' {
            // based literal tail, unbased unsized literal, or a lone apostrophe (cast, '{ )
            let mut j = i + 1;
            if j < b.len() && (b[j] == b's' || b[j] == b'S') {
                j += 1;
            }
            if j < b.len() && matches!(b[j], b'b' | b'o' | b'd' | b'h' | b'B' | b'O' | b'D' | b'H') {
                let mut k = j + 1;
                while k < b.len() && (b[k].is_ascii_hexdigit() || matches!(b[k], b'x' | b'z' | b'X' | b'Z' | b'_' | b'?')) {
                    k += 1;
                }
                if k > j + 1 {
                    push(&mut out, Kind::Number, st, k, s[st..k].to_string());
                    i = k;
                    continue;
                }
            }
            if i + 1 < b.len() && matches!(b[i + 1], b'0' | b'1' | b'x' | b'z' | b'X' | b'Z') && !b.get(i + 2).is_some_and(|c| is_id_cont(*c)) {
                push(&mut out, Kind::Number, st, i + 2, s[st..i + 2].to_string());
                i += 2;
                continue;
            }
            push(&mut out, Kind::Op, st, i + 1, "'".to_string());
            i += 1;
            continue;
        }
        let mut matched = false;
        for op in OPS {
            if s[i..].starts_with(op) {
                push(&mut out, Kind::Op, st, i + op.len(), op.to_string());
                i += op.len();
                matched = true;
                break;
            }
        }
        if matched {
            continue;
        }
        // single character (possibly multi-byte)
        let ch_len = s[i..].chars().next().map(|c| c.len_utf8()).unwrap_or(1);
        push(&mut out, Kind::Op, st, i + ch_len, s[i..i + ch_len].to_string());
        i += ch_len;
    }
    out
}

/// Comment text with white space runs collapsed (block comments may be re-indented).
pub fn squash_ws(t: &str) -> String {
    t.split_whitespace().collect::<Vec<_>>().join(" ")
}

#[cfg(test)]
mod tests {
    use super::*;
    #[test]
    fn basics() {
        let t = lex("assign a = 8'hff + b; // c\n/* x\n y */ `ifdef A\n x <= '0; \"s//\"");
        let k: Vec<&str> = t.iter().map(|x| x.text.as_str()).collect();
        assert_eq!(k, vec!["assign", "a", "=", "8", "'hff", "+", "b", ";", "// c", "/* x\n y */", "`ifdef", "A", "x", "<=", "'0", ";", "\"s//\""]);
    }
}

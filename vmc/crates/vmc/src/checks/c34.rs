//! C34 — reusing converted modules across tests is invisible.
//!
//! (a) library leg: for projects whose tops share sub-modules with different parameters and
//!     instance layouts, EVERY sequence of length <= 4 of `build_ir_cached(top_i)` on ONE
//!     `ProtoModuleCache` is executed in a fresh `vmc worker sim` process (one analysis per
//!     process, as the CLI does; with `dut_reuse` on: `compute_recurring_set` first and
//!     VERYL_DUT_REUSE_MIN_BYTES=0 so the tiny DUTs count as reusable); the simulator built LAST
//!     is explored in lock-step (E2) against a from-scratch `build_ir` of the same top.
//! (b) CLI leg: `veryl test --format json` on the same projects with VERYL_DUT_REUSE=1
//!     (+ MIN_BYTES=0) versus VERYL_DUT_REUSE=0, one worker thread (taskset), every order of the
//!     4 tests (forced through `.build/test_timings`), per backend; per-test status, message
//!     and `$display` output must agree.

use super::c02::{design_case, template_of};
use super::e2::{self, Bounds, Machine, Outcome, Stats, Worker};
use super::gen_df::{self, Design, MultiTop};
use super::simworker::load_doc;
use super::simx::{self, VerylSim};
use crate::core::*;
use crate::proj::Sandbox;
use serde_json::{Value, json};
use std::collections::{BTreeMap, BTreeSet};

#[derive(Clone)]
struct SeqJob {
    project: usize,
    seq: Vec<usize>,
    config: &'static str,
    dut_reuse: bool,
}

struct SeqResult {
    stats: Stats,
    violation: Option<Violation>,
    machinery: Option<String>,
    not_run: bool,
    shape_equal: bool,
}

fn all_sequences(n_tops: usize, max_len: usize) -> Vec<Vec<usize>> {
    let mut out = vec![];
    for len in 1..=max_len {
        let total = n_tops.pow(len as u32);
        for mut x in 0..total {
            let mut s = Vec::with_capacity(len);
            for _ in 0..len {
                s.push(x % n_tops);
                x /= n_tops;
            }
            s.reverse();
            out.push(s);
        }
    }
    out
}

fn run_seq(p: &MultiTop, job: &SeqJob, scratch: &std::path::Path, bounds: &Bounds) -> SeqResult {
    install_quiet_panic_hook();
    let mut res = SeqResult { stats: Stats::default(), violation: None, machinery: None, not_run: false, shape_equal: false };
    let last = &p.tops[*job.seq.last().unwrap()];
    let names: Vec<String> = job.seq.iter().map(|i| p.tops[*i].top.clone()).collect();
    // baseline: from-scratch build in this thread
    let cfg = simx::config_from_name(job.config).unwrap();
    let ir = match simx::analyze(&p.src) {
        Ok(ir) => ir,
        Err(e) => {
            res.machinery = Some(format!("{}: analyzer rejects the project: {e}", p.id));
            return res;
        }
    };
    let mut fresh = match VerylSim::build(&ir, last, &cfg) {
        Ok(m) => m,
        Err(e) => {
            res.machinery = Some(format!("{}: fresh build failed: {e}", last.id));
            return res;
        }
    };
    fresh.name = format!("fresh:{}", job.config);
    // cached: own process, one ProtoModuleCache over the whole sequence
    let mut env: Vec<(String, String)> = vec![];
    if job.dut_reuse {
        env.push(("VERYL_DUT_REUSE_MIN_BYTES".into(), "0".into()));
    }
    let label = format!("cached:{}{}:{}", job.config, if job.dut_reuse { "+reuse" } else { "" }, names.join(">"));
    let wdir = scratch.join(format!("w{}", std::thread::current().id().as_u64_hack()));
    let _ = std::fs::create_dir_all(&wdir);
    let mut w = match Worker::spawn(&label, &env, &wdir) {
        Ok(w) => w,
        Err(e) => {
            res.machinery = Some(e);
            return res;
        }
    };
    let mut doc = load_doc(last, job.config);
    doc["cache_seq"] = json!(names);
    doc["dut_reuse"] = json!(job.dut_reuse);
    if job.dut_reuse {
        doc["recurring_tops"] = json!(p.tops.iter().map(|t| t.top.clone()).collect::<Vec<_>>());
    }
    match w.load(&doc) {
        Ok(shape) => {
            let a = shape.split(" clif_").next().unwrap_or("").to_string();
            res.shape_equal = a == fresh.shape.to_line();
        }
        Err(e) => {
            res.violation = Some(Violation {
                signature: format!("C34:build-error:{}:{}", job.config, template_of(&last.id)),
                what: format!(
                    "build_ir_cached sequence {:?} (dut_reuse={}) fails although a from-scratch build of {} succeeds: {e}",
                    names, job.dut_reuse, last.top
                ),
                case: json!({"project": p.id, "src": p.src, "sequence": names, "config": job.config, "dut_reuse": job.dut_reuse}),
                expected: json!("builds like build_ir from scratch"),
                observed: json!(e),
            });
            return res;
        }
    }
    let outcome = {
        let mut ms: Vec<Box<dyn Machine + '_>> = vec![Box::new(&mut fresh), Box::new(&mut w)];
        e2::explore(&mut ms, last.letters(), bounds, &mut res.stats)
    };
    match outcome {
        Outcome::Ok => {}
        Outcome::Diverged(dv) => {
            let port = dv.port.and_then(|i| last.outputs.get(i)).map(|p| p.name.clone());
            res.violation = Some(Violation {
                signature: format!(
                    "C34:{}{}:{}:{}:{}",
                    job.config,
                    if job.dut_reuse { "+reuse" } else { "" },
                    template_of(&last.id),
                    // which earlier builds matter: a hit (same top built before) or only other tops
                    if job.seq[..job.seq.len() - 1].contains(job.seq.last().unwrap()) { "cache-hit" } else { "cache-miss-after-others" },
                    dv.kind
                ),
                what: format!(
                    "after build_ir_cached of {:?} on one ProtoModuleCache (dut_reuse={}) the simulator of {} differs from a from-scratch build after {} step(s){}",
                    names,
                    job.dut_reuse,
                    last.top,
                    dv.at,
                    port.as_ref().map(|p| format!(" at port {p}")).unwrap_or_default()
                ),
                case: json!({"project": p.id, "sequence": names, "config": job.config, "dut_reuse": job.dut_reuse,
                    "design": design_case(last, &dv.path, &[job.config.to_string()])}),
                expected: json!({"build": "from scratch", "observation": dv.expected}),
                observed: json!({"build": "cached sequence", "observation": dv.observed, "port": port}),
            });
        }
        Outcome::Machinery(e) => {
            if e.contains("panic:") {
                res.violation = Some(Violation {
                    signature: format!("C34:panic:{}:{}", job.config, template_of(&last.id)),
                    what: format!("panic while stepping the cached build of {:?}: {e}", names),
                    case: json!({"project": p.id, "src": p.src, "sequence": names, "config": job.config, "dut_reuse": job.dut_reuse}),
                    expected: json!("no panic"),
                    observed: json!(e),
                });
            } else {
                res.machinery = Some(format!("{} {:?}: {e}", p.id, names));
            }
        }
    }
    res
}

trait ThreadIdHack {
    fn as_u64_hack(&self) -> u64;
}
impl ThreadIdHack for std::thread::ThreadId {
    fn as_u64_hack(&self) -> u64 {
        // ThreadId has no stable integer accessor; its Debug form is `ThreadId(N)`
        format!("{self:?}").trim_start_matches("ThreadId(").trim_end_matches(')').parse().unwrap_or(0)
    }
}

// ---------------------------------------------------------------------------------------------
// CLI leg
// ---------------------------------------------------------------------------------------------

fn permutations(n: usize) -> Vec<Vec<usize>> {
    fn go(cur: &mut Vec<usize>, used: &mut Vec<bool>, out: &mut Vec<Vec<usize>>) {
        if cur.len() == used.len() {
            out.push(cur.clone());
            return;
        }
        for i in 0..used.len() {
            if !used[i] {
                used[i] = true;
                cur.push(i);
                go(cur, used, out);
                cur.pop();
                used[i] = false;
            }
        }
    }
    let mut out = vec![];
    go(&mut vec![], &mut vec![false; n], &mut out);
    out
}

/// Per-test (status, message, output) from `veryl test --format json`.
fn parse_report(stdout: &str) -> Option<BTreeMap<String, (String, String, String)>> {
    let start = stdout.find('{')?;
    let v: Value = serde_json::from_str(&stdout[start..]).ok()?;
    let tests = v.get("tests").or_else(|| v.get("results"))?.as_array()?;
    let mut m = BTreeMap::new();
    for t in tests {
        m.insert(
            t["name"].as_str()?.to_string(),
            (
                t["status"].as_str().unwrap_or("").to_string(),
                t["message"].as_str().unwrap_or("").to_string(),
                t["output"].as_str().unwrap_or("").to_string(),
            ),
        );
    }
    Some(m)
}

struct CliResult {
    runs: u64,
    tests: u64,
    violation: Option<Violation>,
    machinery: Option<String>,
    outputs: BTreeSet<String>,
    /// the remaining budget ran out while `veryl test` was running (counted as not run)
    timed_out: bool,
}

fn cli_order(p: &MultiTop, order: &[usize], backend: &str, root: &std::path::Path, deadline: std::time::Instant) -> CliResult {
    let mut res = CliResult { runs: 0, tests: 0, violation: None, machinery: None, outputs: BTreeSet::new(), timed_out: false };
    let veryl = bin_dir().join("veryl");
    let mut reports = vec![];
    for reuse in ["0", "1"] {
        let sb = Sandbox::new(&root.join(format!("r{reuse}")));
        sb.write("Veryl.toml", &crate::fixture::toml(false, false, false));
        sb.write("src/multi.veryl", &p.src);
        // longest-first scheduling reads .build/test_timings: force the order
        let mut timings = String::new();
        for (rank, ti) in order.iter().enumerate() {
            timings.push_str(&format!("{} {}\n", p.tests[*ti], 100.0 - rank as f64));
        }
        sb.write(".build/test_timings", &timings);
        let out = sb.run_program(
            std::path::Path::new("/usr/bin/taskset"),
            &["-c", "0", veryl.to_str().unwrap(), "test", "--format", "json", "--backend", backend, "--seed", "1"],
            &[("VERYL_DUT_REUSE", reuse), ("VERYL_DUT_REUSE_MIN_BYTES", "0"), ("VERYL_AOT_C_ASYNC", "0")],
            deadline.saturating_duration_since(std::time::Instant::now()).max(std::time::Duration::from_secs(3)),
        );
        if out.timed_out {
            res.timed_out = true;
            return res;
        }
        res.runs += 1;
        match parse_report(&out.stdout) {
            Some(m) => reports.push((reuse, m, out)),
            None => {
                res.machinery = Some(format!(
                    "{} order {:?} reuse={reuse}: no JSON report (exit {}): {}",
                    p.id,
                    order,
                    out.code,
                    out.stderr.chars().take(300).collect::<String>()
                ));
                return res;
            }
        }
    }
    let (a, b) = (&reports[0], &reports[1]);
    res.tests += a.1.len() as u64;
    for (name, x) in &a.1 {
        res.outputs.insert(hash_hex(x.2.as_bytes()));
        let y = b.1.get(name);
        if y != Some(x) {
            let order_names: Vec<&String> = order.iter().map(|i| &p.tests[*i]).collect();
            res.violation = Some(Violation {
                signature: format!(
                    "C34:cli:{backend}:{}:{}",
                    p.id,
                    match y {
                        None => "missing",
                        Some(y) if y.0 != x.0 => "status",
                        Some(y) if y.1 != x.1 => "message",
                        _ => "display",
                    }
                ),
                what: format!("`veryl test --backend {backend}` with DUT reuse differs from VERYL_DUT_REUSE=0 for test {name} (order {order_names:?})"),
                case: json!({"project": p.id, "src": p.src, "order": order_names, "backend": backend,
                    "env_reuse": {"VERYL_DUT_REUSE": "1", "VERYL_DUT_REUSE_MIN_BYTES": "0"}, "test_timings_forced": true}),
                expected: json!({"reuse": "0", "status": x.0, "message": x.1, "output": x.2}),
                observed: json!(y.map(|y| json!({"reuse": "1", "status": y.0, "message": y.1, "output": y.2}))),
            });
            break;
        }
    }
    res
}

pub fn run(ctx: &Ctx) -> Report {
    let mut rep = Report::new(Level::ModelChecking);
    let thorough = ctx.thorough();
    let budget = ctx.budget(45.0, 600.0);
    let scratch = ctx.dir("c34");
    let projects = gen_df::multi_top_projects();
    let max_len = 4;
    let seqs = all_sequences(4, max_len);

    // ---- (b) CLI leg -----------------------------------------------------------------------------
    let orders = permutations(4);
    let backends: Vec<&str> = if thorough { vec!["cranelift", "interpret", "cc"] } else { vec!["cranelift"] };
    let mut cli_jobs: Vec<(usize, Vec<usize>, &str)> = vec![];
    for (pi, _) in projects.iter().enumerate() {
        for b in &backends {
            for (oi, o) in orders.iter().enumerate() {
                // quick: 6 of the 24 orders per project (each test first at least once)
                if !thorough && oi % 4 != (pi % 4) {
                    continue;
                }
                cli_jobs.push((pi, o.clone(), b));
            }
        }
    }
    // The CLI leg runs FIRST and is capped by its share of the budget: orders are launched in
    // small batches (priority = list order) and no batch starts after the cap; a `veryl test`
    // still running at the cap is killed and counted as not run.
    let cli_cap = budget * 0.35;
    let cli_deadline = ctx.start + std::time::Duration::from_secs_f64(cli_cap);
    let mut cli_results: Vec<Option<CliResult>> = vec![];
    for batch in cli_jobs.chunks(4) {
        if ctx.elapsed() > cli_cap {
            cli_results.extend(batch.iter().map(|_| None));
            continue;
        }
        cli_results.extend(par_map(batch, |(pi, order, backend)| {
            let root = scratch.join(format!("cli-{pi}-{backend}-{}", order.iter().map(|x| x.to_string()).collect::<String>()));
            let r = cli_order(&projects[*pi], order, backend, &root, cli_deadline);
            if r.timed_out { None } else { Some(r) }
        }));
    }
    let (mut cli_runs, mut cli_tests, mut cli_not_run) = (0u64, 0u64, 0u64);
    let mut cli_sigs: BTreeSet<String> = BTreeSet::new();
    let mut cli_outputs: BTreeSet<String> = BTreeSet::new();
    for r in cli_results {
        let Some(r) = r else {
            cli_not_run += 1;
            continue;
        };
        cli_runs += r.runs;
        cli_tests += r.tests;
        cli_outputs.extend(r.outputs);
        if let Some(m) = r.machinery {
            rep.machinery(m);
        }
        if let Some(v) = r.violation {
            if cli_sigs.insert(v.signature.clone()) {
                rep.violation(v);
            }
        }
    }

    // ---- (a) library leg -------------------------------------------------------------------------
    let mut jobs: Vec<SeqJob> = vec![];
    let configs: Vec<(&'static str, bool)> = if thorough {
        vec![("jit", true), ("jit", false), ("interp", true), ("interp", false), ("cc", true), ("jit+4st", true)]
    } else {
        vec![("jit", true), ("interp", true)]
    };
    for (pi, _) in projects.iter().enumerate() {
        for (ci, (config, reuse)) in configs.iter().enumerate() {
            for s in &seqs {
                // quick: the second config only for sequences of length <= 3
                if !thorough && ci > 0 && s.len() > 3 {
                    continue;
                }
                if *config == "cc" && s.len() > 3 {
                    continue;
                }
                jobs.push(SeqJob { project: pi, seq: s.clone(), config, dut_reuse: *reuse });
            }
        }
    }
    let bounds = Bounds { max_states: 1 << 12, flat_len: 2, batch: 4096, ..Default::default() };
    let t0 = std::time::Instant::now();
    let start = ctx.elapsed();
    let lib_budget = budget;
    let results = par_map(&jobs, |j| {
        if start + t0.elapsed().as_secs_f64() > lib_budget {
            return SeqResult { stats: Stats::default(), violation: None, machinery: None, not_run: true, shape_equal: false };
        }
        let p = projects[j.project].clone();
        let j2 = j.clone();
        let sc = scratch.clone();
        let b = bounds.clone();
        run_isolated(simx::STACK, move || run_seq(&p, &j2, &sc, &b)).unwrap_or_else(|e| SeqResult {
            stats: Stats::default(),
            violation: None,
            machinery: Some(format!("sequence thread died: {e}")),
            not_run: false,
            shape_equal: false,
        })
    });
    let (mut done, mut not_run, mut states, mut transitions, mut flat, mut steps, mut compares, mut distinct, mut capped, mut nontrivial, mut shape_eq) =
        (0u64, 0u64, 0u64, 0u64, 0u64, 0u64, 0u64, 0u64, 0u64, 0u64, 0u64);
    let mut per_cfg: BTreeMap<String, u64> = BTreeMap::new();
    let mut sigs = BTreeSet::new();
    for (j, r) in jobs.iter().zip(results) {
        if r.not_run {
            not_run += 1;
            continue;
        }
        done += 1;
        *per_cfg.entry(format!("{}{}", j.config, if j.dut_reuse { "+reuse" } else { "" })).or_default() += 1;
        if let Some(m) = r.machinery {
            rep.machinery(m);
        }
        if let Some(v) = r.violation {
            if sigs.insert(v.signature.clone()) || rep.violations.len() < 50 {
                rep.violation(v);
            }
        } else if !r.stats.exhaustive() {
            capped += 1;
        }
        states += r.stats.states;
        transitions += r.stats.transitions;
        flat += r.stats.flat_sequences;
        steps += r.stats.steps;
        compares += r.stats.compares;
        distinct += r.stats.distinct_obs.len() as u64;
        nontrivial += (r.stats.distinct_obs.len() >= 2) as u64;
        shape_eq += r.shape_equal as u64;
        if done % 211 == 1 {
            rep.sample(json!({"project": projects[j.project].id, "sequence": j.seq, "config": j.config, "dut_reuse": j.dut_reuse,
                "states": r.stats.states, "transitions": r.stats.transitions}));
        }
    }

    rep.set("projects", projects.len() as u64);
    rep.set("tops_per_project", 4u64);
    rep.set("max_sequence_length", max_len as u64);
    rep.set("sequences_per_project_and_config", seqs.len() as u64);
    rep.set("sequence_explorations_requested", jobs.len() as u64);
    rep.set("sequence_explorations", done);
    rep.set("sequence_explorations_not_run_budget", not_run);
    rep.set("sequence_explorations_capped", capped);
    rep.set("sequence_explorations_nontrivial", nontrivial);
    rep.set("cached_build_shape_equals_fresh", shape_eq);
    rep.set("per_config_explorations", json!(per_cfg));
    rep.set("states", states);
    rep.set("transitions", transitions);
    rep.set("flat_sequences_no_dedup", flat);
    rep.set("machine_steps", steps);
    rep.set("traces_validated_against_impl", compares + cli_tests);
    rep.set("distinct_outputs", distinct);
    rep.set("cli_orders_requested", cli_jobs.len() as u64);
    rep.set("cli_veryl_test_runs", cli_runs);
    rep.set("cli_tests_compared", cli_tests);
    rep.set("cli_orders_not_run_budget", cli_not_run);
    rep.set("cli_distinct_test_outputs", cli_outputs.len() as u64);
    rep.set("exhaustive", not_run == 0 && capped == 0 && cli_not_run == 0);
    rep.set(
        "rule",
        "library leg: every sequence (length <= 4) of build_ir_cached(top) over 4 tops on one ProtoModuleCache in its own process, last simulator explored in lock-step (BFS over all input letters + flat sequences) against a from-scratch build_ir; CLI leg: veryl test --format json with VERYL_DUT_REUSE=1 vs 0 on one worker thread for forced test orders, per-test status/message/output compared",
    );
    rep.assume("CLI test order is forced through .build/test_timings (longest-first scheduling) and a single worker thread through taskset -c 0");
    rep.assume("two-worker pop schedules (C32 hook) are not explored here");
    if done == 0 {
        rep.machinery("vacuity guard: no cache sequence was explored");
    } else if nontrivial * 2 < done {
        rep.machinery("vacuity guard: fewer than half of the explorations showed >= 2 distinct observations");
    }
    if cli_runs > 0 && cli_outputs.len() < 4 {
        rep.machinery("vacuity guard: CLI leg saw fewer than 4 distinct test outputs");
    }
    if cli_runs == 0 && cli_not_run == 0 {
        rep.machinery("vacuity guard: CLI leg did not run");
    }
    rep
}

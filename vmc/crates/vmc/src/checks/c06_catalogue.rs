//! Catalogue FC for C06: single-file contents `f`, one per declaration kind / combination the
//! fragment codec must carry, each optionally with a dependency file `pre` (declares what `f`
//! refers to) and a `user` file (refers to what `f` declares, so that pass2 and the emitter of a
//! *freshly parsed* file walk the restored symbols of `f`).
//!
//! All entries are expected to analyse without errors; an entry the analyzer rejects is a
//! generator bug and is counted as skipped in the evidence.

pub struct FcEntry {
    pub name: &'static str,
    pub pre: Option<&'static str>,
    pub f: &'static str,
    pub user: Option<&'static str>,
    /// extra non-Veryl file to place next to `f` (name, content)
    pub aux: Option<(&'static str, &'static str)>,
}

const fn e(name: &'static str, pre: Option<&'static str>, f: &'static str, user: Option<&'static str>) -> FcEntry {
    FcEntry { name, pre, f, user, aux: None }
}

/// Fixed pool of files that may precede everything else (fixes the ID offsets).
pub const POOL: [&str; 2] = [
    r#"/// pool package
pub package PoolPkg0 {
    const PW: u32 = 3;
    struct PoolS {
        a: logic<PW>,
        b: logic<2> ,
    }
    enum PoolE: logic<2> {
        PA,
        PB = 2,
    }
    function PoolF (
        x: input logic<PW>,
    ) -> logic<PW> {
        return x + 1;
    }
}
"#,
    r#"/// pool interface
interface PoolIf1 {
    var v: logic<4>;
    modport mp {
        v: input,
    }
}
/// pool module, mentions the `$sv::` members the catalogue uses so that theirs are shadowed
module PoolMod1 (
    i_clk: input  clock   ,
    i_rst: input  reset   ,
    o_q  : output logic<4>,
) {
    inst u_if: $sv::foo_if;
    inst u_d : $sv::delay (
        i_clk: i_clk,
    );
    const _K: u32 = $sv::pkg::paramA;
    var r: logic<4>;
    always_ff {
        if_reset {
            r = 0;
        } else {
            r = r + 4'd1;
        }
    }
    assign o_q = r;
}
"#,
];

/// Last file of every order: its IDs lie after the restored window.
pub const TAIL: &str = r#"module TailMod (
    i_a: input  logic<2>,
    o_b: output logic<2>,
) {
    let t: logic<2> = i_a + 2'd1;
    assign o_b = t;
}
"#;

pub fn catalogue() -> Vec<FcEntry> {
    let mut v = vec![
        // ------------------------------------------------------------------ modules
        e(
            "module_basic",
            None,
            r#"/// basic module
pub module FcModA #(
    param P : u32 = 4,
    const LP: u32 = P + 1,
) (
    i_clk: input  clock    ,
    i_rst: input  reset    ,
    i_d  : input  logic<P> ,
    o_q  : output logic<P> ,
    o_w  : output logic<LP>,
) {
    var r: logic<P>;
    always_ff {
        if_reset {
            r = 0;
        } else {
            r = i_d;
        }
    }
    assign o_q = r;
    always_comb {
        o_w = {1'b0, r};
    }
}
"#,
            Some(
                r#"module FcUserA (
    i_clk: input  clock   ,
    i_rst: input  reset   ,
    i_d  : input  logic<6>,
    o_q  : output logic<6>,
) {
    var w: logic<7>;
    inst u0: FcModA #(
        P: 6,
    ) (
        i_clk     ,
        i_rst     ,
        i_d       ,
        o_q       ,
        o_w  : w  ,
    );
    let _x: logic = w[0];
}
"#,
            ),
        ),
        e(
            "module_generic_value",
            None,
            r#"/// generic module (value)
pub module FcGenM::<W: u32, D: u32 = 2> (
    i_a: input  logic<W>    ,
    o_b: output logic<W + D>,
) {
    assign o_b = {i_a, 1'b0 repeat D};
}
"#,
            Some(
                r#"module FcUserGenM {
    var a: logic<8> ;
    var b: logic<10>;
    var c: logic<11>;
    assign a = 8'h5a;
    inst u0: FcGenM::<8> (
        i_a: a,
        o_b: b,
    );
    inst u1: FcGenM::<8, 3> (
        i_a: a,
        o_b: c,
    );
    let _x: logic = b[0] ^ c[0];
}
"#,
            ),
        ),
        e(
            "module_generic_proto",
            None,
            r#"pub proto module FcProtoM #(
    param A: u32 = 1,
) (
    i_x: input  logic<A>,
    o_y: output logic<A>,
);

module FcImplM1 for FcProtoM #(
    param A: u32 = 1,
) (
    i_x: input  logic<A>,
    o_y: output logic<A>,
) {
    assign o_y = i_x;
}

module FcImplM2 for FcProtoM #(
    param A: u32 = 1,
) (
    i_x: input  logic<A>,
    o_y: output logic<A>,
) {
    assign o_y = ~i_x;
}

module FcWrapM::<T: FcProtoM = FcImplM1> (
    i_x: input  logic<2>,
    o_y: output logic<2>,
) {
    inst u: T #(
        A: 2,
    ) (
        i_x,
        o_y,
    );
}
"#,
            Some(
                r#"module FcUserProtoM {
    var x : logic<2>;
    var y0: logic<2>;
    var y1: logic<2>;
    var y2: logic<2>;
    assign x = 1;
    inst w0: FcWrapM::<FcImplM1> (
        i_x: x ,
        o_y: y0,
    );
    inst w1: FcWrapM::<FcImplM2> (
        i_x: x ,
        o_y: y1,
    );
    inst w2: FcWrapM::<> (
        i_x: x ,
        o_y: y2,
    );
    let _z: logic<2> = y0 ^ y1 ^ y2;
}
"#,
            ),
        ),
        e(
            "module_type_param_and_port_default",
            None,
            r#"package FcPkgPD {
    const A: bit = 0;
}
module FcTP #(
    param T1: type = logic       ,
    param T2: type = signed logic,
) (
    i_a: input  logic = FcPkgPD::A,
    i_c: input  logic = 0         ,
    o_d: output logic = _         ,
) {
    var _t1: T1;
    var _t2: T2;
    assign _t1 = 0;
    assign _t2 = 0;
    assign o_d = i_a & i_c;
}
"#,
            Some(
                r#"module FcUserTP {
    type my_t = logic<3>;
    struct my_s {
        a: logic,
    }
    var _d: logic;
    inst u0: FcTP;
    inst u1: FcTP #(
        T1: my_t,
        T2: my_s,
    ) (
        i_a: 1 ,
        o_d: _d,
    );
}
"#,
            ),
        ),
        e(
            "module_alias_and_gen",
            None,
            r#"package FcAPk::<A: u32> {
    type data_t = logic<A>;
}
module FcAInner::<W: u32, T: type> (
    a: output logic<W>,
    b: output T       ,
) {
    always_comb {
        a = '0;
        b = '0;
    }
}
module FcAOuter::<A: u32, B: u32> {
    gen W: u32  = A + B;
    gen T: type = logic<B>;
    var a: logic<W>;
    var b: T       ;
    inst u: FcAInner::<W, T> (
        a,
        b,
    );
}
module FcAAlias {
    alias package Pk8 = FcAPk::<8>;
    alias module Out12 = FcAOuter::<1, 2>;
    inst u: Out12;
    let _x: Pk8::data_t = 0;
}
"#,
            Some(
                r#"module FcUserAlias {
    inst u0: FcAOuter::<2, 3>;
    inst u1: FcAAlias;
    let _y: FcAPk::<4>::data_t = 1;
}
"#,
            ),
        ),
        // ------------------------------------------------------------------ interfaces
        e(
            "interface_modports",
            None,
            r#"/// interface with modports and functions
pub interface FcIfA #(
    param IW: u32 = 2,
) {
    var a: logic<IW>;
    var b: logic    ;
    var c: logic    ;

    function get_a () -> logic<IW> {
        return a;
    }
    function set_c (
        x: input logic,
    ) {
        c = x;
    }

    modport master {
        a    : output,
        b    : input ,
        c    : output,
        set_c: import,
    }
    modport slave {
        ..converse(master)
    }
    modport monitor {
        ..input
    }
    modport same_m {
        get_a: import,
        ..same(master)
    }
}
"#,
            Some(
                r#"module FcUserIfA_S (
    s: modport FcIfA::slave,
) {
    assign s.b = s.a[0] & s.c;
}
module FcUserIfA_Mon (
    m: modport FcIfA::monitor,
    o: output  logic         ,
) {
    assign o = m.b;
}
module FcUserIfA {
    inst bus: FcIfA #(
        IW: 2,
    );
    assign bus.a = 1;
    assign bus.c = 0;
    var o: logic;
    inst us: FcUserIfA_S (
        s: bus,
    );
    inst um: FcUserIfA_Mon (
        m: bus,
        o: o  ,
    );
    let _g: logic<2> = bus.get_a();
}
"#,
            ),
        ),
        e(
            "interface_generic_and_mixin",
            None,
            r#"package FcMixP::<W: u32> {
    type T = logic<W>;
}
interface FcMixA {
    var a: logic<8>;
    modport mp_a {
        a: input,
    }
}
interface FcMixB::<W: u32> {
    import FcMixP::<W>::*;
    var b: T;
    modport mp_b {
        b: input,
    }
}
pub interface FcMixC::<W1: u32, W2: u32 = 4> {
    mixin FcMixA;
    mixin FcMixB::<W1>;
    var c: logic<W2>;
    modport mp_abc {
        c: input,
        ..same(mp_a, mp_b)
    }
}
"#,
            Some(
                r#"module FcUserMixS::<W1: u32> (
    abc: modport FcMixC::<W1>::mp_abc,
    o  : output  logic               ,
) {
    assign o = abc.a[0] ^ abc.b[0] ^ abc.c[0];
}
module FcUserMix {
    inst abc: FcMixC::<16>;
    always_comb {
        abc.a = 0;
        abc.b = 0;
        abc.c = 0;
    }
    var o: logic;
    inst d: FcUserMixS::<16> (
        abc   ,
        o  : o,
    );
}
"#,
            ),
        ),
        e(
            "interface_clock_reset_and_generic_port",
            None,
            r#"interface FcIfCR {
    var clk: clock;
    var rst: reset;
    var en : logic;
    modport slave {
        clk: input,
        rst: input,
        en : input,
    }
}
module FcIfCRM (
    intf: modport FcIfCR::slave,
    g   : interface            ,
    h   : interface::slave     ,
    o   : output  logic        ,
) {
    var x: logic;
    always_ff (intf.clk, intf.rst) {
        if_reset {
            x = 0;
        } else if intf.en {
            x += 1;
        }
    }
    assign o = x;
}
"#,
            Some(
                r#"module FcUserIfCR {
    inst i0: FcIfCR;
    inst i1: FcIfCR;
    inst i2: FcIfCR;
    always_comb {
        i0.clk = 0;
        i0.rst = 0;
        i0.en  = 1;
        i1.clk = 0;
        i1.rst = 0;
        i1.en  = 1;
        i2.clk = 0;
        i2.rst = 0;
        i2.en  = 1;
    }
    var o: logic;
    inst u: FcIfCRM (
        intf: i0,
        g   : i1,
        h   : i2,
        o       ,
    );
}
"#,
            ),
        ),
        // ------------------------------------------------------------------ packages
        e(
            "package_basic",
            None,
            r#"/// a package
pub package FcPkgA {
    /// width
    const W : u32 = 5;
    const W2: u32 = W * 2;
    type word_t = logic<W>;
    type arr_t  = word_t [2];
    struct S {
        lo: word_t   ,
        hi: logic<W2>,
    }
    union U {
        x: logic<W>,
        y: bit<W>  ,
    }
    enum E: logic<2> {
        E0 = 1,
        E1 = 2,
        E2,
    }
    function inc (
        a: input  word_t,
        b: output word_t,
    ) -> word_t {
        let k: u32 = 1;
        b = a + k;
        return a + 2;
    }
}
"#,
            Some(
                r#"module FcUserPkgA (
    i: input  FcPkgA::word_t,
    o: output FcPkgA::word_t,
) {
    import FcPkgA::*;
    var s : S     ;
    var u : U     ;
    var en: E     ;
    var t : word_t;
    var ar: arr_t ;
    assign s.lo  = i;
    assign s.hi  = 0;
    assign u.x   = i;
    assign en    = E::E1;
    assign ar[0] = 0;
    assign ar[1] = 1;
    always_comb {
        o = inc(i, t);
    }
    const K : u32   = FcPkgA::W2 + $bits(word_t);
    let _z: logic = s.hi[0] ^ u.y[0] ^ (en == FcPkgA::E::E2) ^ t[0] ^ ar[1][0] ^ K[0];
}
"#,
            ),
        ),
        e(
            "package_generic",
            None,
            r#"/// generic packages
pub package FcGP::<T: u32> {
    const X: u32 = T;
}
pub package FcGPD::<T: u32 = 4> {
    const X: u32 = T;
    struct SD::<B: u32> {
        d0: logic<T>,
        d1: logic<B>,
    }
}
package FcGPT::<T: type> {
    type TYPE = T;
}
"#,
            Some(
                r#"module FcUserGP {
    import FcGPD::<5>::*;
    const A: u32 = FcGP::<1>::X;
    const B: u64 = FcGP::<2>::X;
    const C: u32 = FcGPD::<3>::X;
    const E: u64 = FcGPD::<>::X;
    const F: u64 = FcGPD::<7>::X;
    const G: u64 = X;
    var _d: FcGPD::<1>::SD::<2>;
    assign _d.d0 = 0;
    assign _d.d1 = 1;
    let _e: FcGPT::<i32>::TYPE   = 0;
    let _g: FcGPT::<lbool>::TYPE = false;
    let _s: u64                  = A + B + C + E + F + G;
}
"#,
            ),
        ),
        e(
            "package_proto",
            None,
            r#"proto package FcProtoP {
    type data_a;
    const N: u32;
    enum K {
        K0,
        K1,
    }
}
package FcImplP::<A: u32> for FcProtoP {
    type data_a = logic<A>;
    const N: u32 = A;
    enum K {
        K0,
        K1,
    }
}
module FcProtoPM::<PKG: FcProtoP> {
    let _a: PKG::data_a = 0;
    let _n: u32         = PKG::N;
}
"#,
            Some(
                r#"module FcUserProtoP {
    inst u0: FcProtoPM::<FcImplP::<8>>;
    alias package P3 = FcImplP::<3>;
    inst u1: FcProtoPM::<P3>;
}
"#,
            ),
        ),
        e(
            "package_self_ref_function",
            None,
            r#"package FcPkgF {
    const A: u32 = 3;
    function f1 (
        x: input logic<A>,
    ) -> logic<A> {
        return x + FcPkgF::A;
    }
    function gf::<T: u32> (
        a: input logic<T>,
    ) -> logic<T> {
        return a + 1;
    }
    struct GS::<T: type> {
        v: T,
    }
}
"#,
            Some(
                r#"module FcUserPkgF {
    let _a: logic<3>                 = FcPkgF::f1(1);
    let _b: logic<10>                = FcPkgF::gf::<10>(1);
    let _c: logic<20>                = FcPkgF::gf::<20>(1);
    type t4 = logic<4>;
    let _d: FcPkgF::GS::<t4>  = 0;
    let _e: FcPkgF::GS::<u32> = 0;
}
"#,
            ),
        ),
        // ------------------------------------------------------------------ imports
        e(
            "imports_of_pre",
            Some(
                r#"package FcImpPre {
    const A: u32 = 1;
    const B: u32 = 2;
    enum EN: logic<3> {
        P,
        Q,
        R,
    }
}
"#,
            ),
            r#"import FcImpPre::A;
import FcImpPre::*;
import FcImpPre::EN::*;

module FcImpM #(
    param PP: u32          = A,
    param V : FcImpPre::EN = P,
) (
    o_d: output logic<B>,
) {
    import FcImpPre::{A, B};
    assign o_d = '0;
    var a: FcImpPre::EN;
    assign a = Q;
    let _i: logic = inside a {P, Q, R};
    :g0 {
        import FcImpPre::A;
        let _a: u32 = A;
    }
    for i in 0..2 :g2 {
        import FcImpPre::B;
        let _a: u32 = B + i;
    }
}
interface FcImpI {
    import FcImpPre::*;
    var v: logic<B>;
}
package FcImpP {
    import FcImpPre::A;
    const C: u32 = A + 1;
}
"#,
            Some(
                r#"module FcUserImp {
    var d: logic<2>;
    inst u: FcImpM #(
        PP: FcImpP::C,
    ) (
        o_d: d,
    );
    inst i: FcImpI;
    assign i.v = d;
}
"#,
            ),
        ),
        e(
            "imports_sv",
            None,
            r#"import $sv::SvPkgA::A;
import $sv::SvPkgA::*;

module FcImpSv {
    import $sv::SvPkgB::*;
    let _a: logic = 0;
}
"#,
            None,
        ),
        // ------------------------------------------------------------------ $sv references
        e(
            "sv_references",
            None,
            r#"module FcSvRef (
    i_clk: input   clock              ,
    i_d  : input   logic              ,
    o_d  : output  logic              ,
    port : modport $sv::InterfaceA::mp,
) {
    const a: u32 = $sv::pkg::paramA;
    inst u0: $sv::delay (
        i_clk: i_clk,
        i_d  : i_d  ,
        o_d  : o_d  ,
    );
    inst u_if: $sv::foo_if;
    var s: $sv::StructA;
    assign s = 0;
    let _b: logic = s.memberA;
    inst c: $sv::InterfaceA;
    let _d: logic = c.memberA ^ port.x ^ a[0];
}
"#,
            Some(
                r#"module FcUserSvRef (
    i_clk: input  clock,
    i_d  : input  logic,
    o_d  : output logic,
) {
    inst p: $sv::InterfaceA;
    inst u: FcSvRef (
        i_clk      ,
        i_d        ,
        o_d        ,
        port : p   ,
    );
    inst u_if2: $sv::foo_if;
}
"#,
            ),
        ),
        // ------------------------------------------------------------------ attributes
        e(
            "attr_allow",
            None,
            r#"module FcAllow (
    clk: input clock,
    rst: input reset,
) {
    var a: logic;
    var b: logic;
    #[allow(unused_variable)]
    let c: logic = 1;
    #[allow(missing_reset_statement)]
    always_ff (clk, rst) {
        if_reset {
            a = 0;
        } else {
            a = 0;
            b = 0;
        }
    }
    #[allow(missing_port)]
    inst u0: FcAllowA;
    #[allow(unassign_variable)]
    var _d: logic;
}
module FcAllowA (
    clk: input clock,
    rst: input reset,
) {}
"#,
            None,
        ),
        e(
            "attr_sv_enum_cond_align_fmt",
            None,
            r#"module FcAttrs (
    i_clk: input clock,
    i_rst: input reset,
) {
    #[sv("ram_style=\"block\"")]
    let _a: logic = 1;
    #[sv("mark_debug=\"true\"")]
    let _b: logic = 1;
    #[enum_encoding(onehot)]
    enum F {
        X,
        Y,
        Z,
    }
    #[enum_member_prefix(FOO)]
    enum H: logic {
        H_0,
        H_1,
    }
    #[enum_encoding(gray)]
    enum G {
        GX,
        GY,
        GZ,
    }
    let x: logic = 1;
    var a: logic;
    var g: logic;
    always_comb {
        #[cond_type(unique)]
        case x {
            0: a = 1;
            1: a = 1;
        }
    }
    always_ff {
        #[cond_type(priority)]
        if_reset {
            g = 1;
        } else if x == 1 {
            g = 1;
        }
    }
    let aa: logic<32> = 1;
    #[align(number, identifier)]
    let _c: logic = {
        aa[0 ] repeat 1 , aa[10] repeat 8 ,
    };
    #[fmt(compact)]
    inst u0: FcAttrsA #( A: 1, B: 2 ) ( x: 1, y: _ );
    #[fmt(compact)]
    {
        inst u1: FcAttrsA #( A: 1, B: 2 ) ( x: 1, y: _ );
        inst u2: FcAttrsA #( A: 1, B: 2 ) ( x: 1, y: _ );
    }
    let _f: F = F::Y;
    let _h: H = H::H_1;
    let _g: G = G::GZ;
}
module FcAttrsA #(
    param A: u32 = 1,
    param B: u32 = 1,
) (
    x: input  logic,
    y: output logic,
) {
    assign y = x;
}
"#,
            Some(
                r#"module FcUserAttrs {
    var y: logic;
    inst u: FcAttrsA #(
        A: 3,
    ) (
        x: 0,
        y: y,
    );
}
"#,
            ),
        ),
        e(
            "attr_ifdef",
            None,
            r#"module FcIfdef #(
    #[ifdef(DEFINE_A)]
    param ParamA: u32 = 1,
    #[ifdef(DEFINE_A)]
    {
        param ParamB: u32 = 1,
    },
    param ParamC: u32 = 1,
) (
    #[ifdef(DEFINE_A)]
    port_x: input logic,
    #[elsif(DEFINE_B)]
    port_y: input logic,
    #[else]
    port_z: input logic,
    #[ifndef(DEFINE_A)]
    port_p: input logic,
    port_d: input logic,
) {
    #[ifdef(DEFINE_A)]
    #[ifdef(DEFINE_B)]
    let _a: logic<10> = 1;
    #[ifdef(DEFINE_A)]
    {
        let _b: logic<10> = 1;
        let _c: logic<10> = 1;
    }
    var _d: logic;
    always_comb {
        #[ifdef(DEFINE_D)]
        block {
            _d = 0;
        }
    }
    #[ifndef(DEFINE_D)]
    assign _d = 1;
    #[ifdef(DEFINE_E)]
    let _e: logic = 1;
    #[elsif(DEFINE_F)]
    let _e: logic = 2;
    #[else]
    let _e: logic = 3;
}
#[ifdef(DEFINE_A)]
module FcIfdef_A {}
#[ifndef(DEFINE_A)]
{
    module FcIfdef_B {}
    module FcIfdef_C {}
}
interface FcIfdefI {
    #[ifdef(TRACE)]
    var f: logic;
    #[else]
    var g: logic;
    var a: logic;
    modport master {
        #[ifdef(TRACE)]
        f: input,
        #[else]
        g: input,
        a: input,
    }
    modport slave {
        ..converse(master)
    }
}
"#,
            Some(
                r#"module FcUserIfdef (
    s: modport FcIfdefI::slave,
) {
    inst u: FcIfdef (
        port_z: 0,
        port_p: 0,
        port_d: 0,
    );
    inst b: FcIfdef_B;
    assign s.a = 0;
    assign s.g = 0;
}
"#,
            ),
        ),
        e(
            "attr_test_embed",
            None,
            r#"module FcTestDut (
    i: input  logic,
    o: output logic,
) {
    assign o = i;
}

#[test(fc_test1)]
embed (inline) sv{{{
module fc_test1;
   initial begin
       $display("hello");
       $finish();
   end
endmodule
}}}

#[test(fc_test4)]
module fc_test4 {
    var o: logic;
    inst d: FcTestDut (
        i: 1,
        o   ,
    );
    initial {
        $display("test4");
    }
}

embed (inline) sv{{{
module fc_plain;
endmodule
}}}
"#,
            Some(
                r#"#[test(fc_user_test)]
module fc_user_test {
    var o: logic;
    inst d: FcTestDut (
        i: 0,
        o   ,
    );
}
"#,
            ),
        ),
        // ------------------------------------------------------------------ embed / include
        FcEntry {
            name: "embed_include",
            pre: None,
            f: r#"package FcEmbP {
    const A: u32 = 32;
}
module FcEmbA {}
module FcEmbB::<V: u32> {
    const B: u32 = V;
}
module FcEmbC {
    inst u_a: FcEmbA;
    embed (inline) sv{{{
        `define bind_module_b \
        bind u_a \
        \{ FcEmbB::<FcEmbP::A> \} u_b0 ();

        `bind_module_b
        // synopsys translate_off
        initial begin
            $display("hello");
        end
        // synopsys translate_on
    }}}
}
include (inline, "fc_include.sv");
"#,
            user: Some(
                r#"module FcUserEmb {
    inst c: FcEmbC;
    inst b: FcEmbB::<7>;
}
"#,
            ),
            aux: Some(("fc_include.sv", "module fc_included;\n  // included text\nendmodule\n")),
        },
        // ------------------------------------------------------------------ unsafe / clock domains
        e(
            "unsafe_cdc_and_domains",
            None,
            r#"pub module FcCdcA (
    i_clk_a: input  'a clock,
    i_rst_a: input  'a reset,
    i_dat_a: input  'a logic,
    o_dat_a: output 'a logic,
    i_clk_b: input  'b clock,
    i_dat_b: input  'b logic,
    o_dat_b: output 'b logic,
    o_x    : output 'b logic,
) {
    assign o_dat_a = i_dat_a;
    assign o_dat_b = i_dat_b;
    unsafe (cdc) {
        assign o_x = i_dat_a;
    }
}
module FcCdcB (
    i_clk: input  'b clock,
    i_dat: input  'a logic,
    o_dat: output 'b logic,
) {
    unsafe (cdc) {
        inst u_sync: $sv::Synchronizer (
            c: i_clk,
            d: i_dat,
            q: o_dat,
        );
    }
}
pub module FcCdcC (
    i_clk   : input  '_ clock,
    i_clk_x2: input  '_ clock,
    i_dat   : input     logic,
    o_dat   : output    logic,
    i_thr   : input  'a logic,
    o_thr   : output 'a logic,
) {
    assign o_dat = i_dat;
    assign o_thr = i_thr;
}
module FcCdcD (
    i_clk_a: input  'a default clock,
    i_rst_a: input  'a default reset,
    i_clk_b: input  'b clock        ,
    i_rst_b: input  'b reset        ,
    i_d    : input  'a logic        ,
    o_d    : output 'a logic        ,
) {
    var r: 'a logic;
    always_ff {
        if_reset {
            r = 0;
        } else {
            r = i_d;
        }
    }
    assign o_d = r;
}
"#,
            Some(
                r#"module FcUserCdc (
    i_clk_a: input  'a clock,
    i_rst_a: input  'a reset,
    i_clk_b: input  'b clock,
    i_rst_b: input  'b reset,
    i_da   : input  'a logic,
    i_db   : input  'b logic,
    o_a    : output 'a logic,
    o_b    : output 'b logic,
    o_x    : output 'b logic,
    o_d    : output 'a logic,
) {
    inst u: FcCdcA (
        i_clk_a         ,
        i_rst_a         ,
        i_dat_a: i_da   ,
        o_dat_a: o_a    ,
        i_clk_b         ,
        i_dat_b: i_db   ,
        o_dat_b: o_b    ,
        o_x             ,
    );
    inst d: FcCdcD (
        i_clk_a        ,
        i_rst_a        ,
        i_clk_b        ,
        i_rst_b        ,
        i_d    : i_da  ,
        o_d            ,
    );
}
"#,
            ),
        ),
        // ------------------------------------------------------------------ doc comments
        e(
            "doc_comments",
            None,
            r#"/// Test module for doc comment
///
/// * list item0
/// * list item1
///
/// ```wavedrom
/// {signal: [
///   {name: 'clk', wave: 'p.....|...'},
///   {name: 'dat', wave: 'x.345x|=.x', data: ['head', 'body', 'tail', 'data']}
/// ]}
/// ```
///
/// ```mermaid
/// graph TD;
///     A-->B;
/// ```
pub module FcDoc #(
    /// Data width
    param ParamA: u32 = 1,
    const ParamB: u32 = 1, /// trailing doc
) (
    i_clk : input  logic        , /// Clock
    i_data: input  logic<ParamA>, /// Data input
    /// Data output
    o_data: output logic<ParamA>,
) {
    /// documented variable
    var v: logic;
    assign v      = i_clk;
    assign o_data = i_data;
    /// documented function
    function f () -> logic {
        return v;
    }
}

/// Test interface for doc comment — ünïcödé
pub interface FcDocI #(
    param ParamA: u32 = 1, /// Data width
) {
    /// member
    var m: logic;
    /// a modport
    modport mp {
        m: input, /// member doc
    }
}

/// Test package for doc comment
pub package FcDocP {
    /// enum doc
    enum E {
        /// member doc
        A,
        B, /// trailing member doc
    }
    /// struct doc
    struct S {
        /// field doc
        x: logic,
    }
}
"#,
            Some(
                r#"/// user doc
module FcUserDoc {
    var o: logic<1>;
    inst u: FcDoc (
        i_clk : 0,
        i_data: 0,
        o_data: o,
    );
    inst i: FcDocI;
    assign i.m = o;
    let _e: FcDocP::E = FcDocP::E::B;
    let _s: FcDocP::S = 0;
}
"#,
            ),
        ),
        e(
            "doc_test_wavedrom",
            None,
            r#"/// 1-cycle delay register.
///
/// ```wavedrom,test
/// {signal: [
///   {name: 'clk',   wave: 'p........'},
///   {name: 'rst_n', wave: '0.1......'},
///   {name: 'din',   wave: '0.01.0.1.'},
///   {name: 'dout',  wave: '0...1.0.1'}
/// ]}
/// ```
pub module FcDocT (
    i_clk  : input  'a clock,
    i_rst_n: input  'a reset,
    i_din  : input  'a logic,
    o_dout : output 'a logic,
) {
    var r_data: 'a logic;
    always_ff {
        if_reset {
            r_data = 0;
        } else {
            r_data = i_din;
        }
    }
    assign o_dout = r_data;
}
"#,
            None,
        ),
        // ------------------------------------------------------------------ enums / structs / typedefs
        e(
            "enums_structs_unions_typedefs",
            None,
            r#"package FcESU {
    enum B: logic<2> {
        X = 1,
        Y = 2,
        Z,
    }
    enum C {
        X = 2,
        Y = 3,
        Z,
    }
    enum I: bit<_> {
        IA = 2'b01,
        IB = 2'b10,
    }
    struct A {
        a  : bit<10>,
        aa : B      ,
        aaa: u32    ,
    }
    union UA {
        dd      : logic<44>,
        struct_a: A        ,
    }
    struct SU {
        uu: UA,
    }
    type word_t    = logic <16>       ;
    type words_t   = logic <16, 16>   ;
    type regfile_t = word_t        [2];
    type octbyte   = bit<8> [8]       ;
    type alias_a   = A                ;
}
"#,
            Some(
                r#"module FcUserESU {
    import FcESU::*;
    var a: A   ;
    var b: B   ;
    var c: FcESU::C;
    var i: I   ;
    assign a.a   = 1;
    assign a.aa  = B::Y;
    assign a.aaa = 1;
    assign b     = B::X;
    assign c     = FcESU::C::X;
    assign i     = I::IA;
    let _s0: A         = A'{a: 1000, aa: B::Z, aaa: 10,};
    let _s1: A         = A'{a: 10, ..default(0)};
    let _s2: SU        = SU'{uu: A'{a: 5, aa: B::X, aaa: 5},};
    var rf : regfile_t;
    assign rf[0] = '0;
    assign rf[1] = '0;
    const WB: u32     = $bits(word_t);
    let _o : octbyte = '{default: 0};
    let _al: alias_a = 0;
    let _k : logic   = a.a[0] ^ (b == B::Z) ^ (c == FcESU::C::Y) ^ i[0] ^ rf[1][0] ^ WB[0];
}
"#,
            ),
        ),
        // ------------------------------------------------------------------ bind / connect
        e(
            "bind",
            Some(
                r#"interface FcBindIA::<W: u32> {
    var a: logic<W>;
    modport mp {
        a: input,
    }
}
module FcBindTarget::<W: u32> (
    i_clk: input clock,
    i_rst: input reset,
) {
    inst a: FcBindIA::<W>;
    var b: logic;
    assign a.a = 0;
    assign b   = 0;
}
"#,
            ),
            r#"module FcBound::<W: u32> (
    a    : modport FcBindIA::<W>::mp,
    b    : input   logic            ,
    i_clk: input   clock            ,
    i_rst: input   reset            ,
) {}

module FcBinder {
    bind FcBindTarget::<32> <- u0: FcBound::<32> (
        a      ,
        b      ,
        i_clk  ,
        i_rst  ,
    );
}

bind FcBindTarget::<32> <- u1: FcBound::<32> (
    a      ,
    b      ,
    i_clk  ,
    i_rst  ,
);
"#,
            Some(
                r#"module FcUserBind (
    i_clk: input clock,
    i_rst: input reset,
) {
    inst t: FcBindTarget::<32> (
        i_clk,
        i_rst,
    );
}
"#,
            ),
        ),
        e(
            "connect",
            None,
            r#"package FcConP {
    enum Command {
        WRITE,
        READ,
    }
}
interface FcConA {
    import FcConP::Command;
    var command_ready: logic  ;
    var command_valid: logic  ;
    var command      : Command;
    modport mp {
        command_ready: output,
        command_valid: input ,
        command      : input ,
    }
}
interface FcConC {
    import FcConP::Command;
    var command_ready: logic  ;
    var command_valid: logic  ;
    var command      : Command;
    modport master_mp {
        command_ready: input ,
        command_valid: output,
        command      : output,
    }
    modport slave_mp {
        ..converse(master_mp)
    }
}
module FcConM1 (
    command_if: modport FcConA::mp,
) {
    inst bus_if: FcConC;
    always_comb {
        command_if <> bus_if.master_mp;
    }
    always_comb {
        bus_if.slave_mp <> 0;
    }
}
module FcConM2 (
    command_if: modport FcConA::mp,
) {
    inst bus_if: FcConC;
    connect command_if <> bus_if.master_mp;
    connect bus_if.slave_mp <> 0;
}
"#,
            Some(
                r#"module FcUserCon (
    m: modport FcConC::master_mp,
    s: modport FcConC::slave_mp ,
) {
    connect m <> s;
}
"#,
            ),
        ),
        // ------------------------------------------------------------------ literals / expressions
        e(
            "literals",
            None,
            r#"package FcLit {
    const a     : u32        = 0123456789;
    const aa    : u32        = 01234_56789;
    const b     : logic<32>  = 32'b01xzXZ;
    const bbb   : logic<32>  = 32'sb01_xz_XZ;
    const c     : logic<32>  = 32'o01234567xzXZ;
    const ccc   : logic<32>  = 32'so01234_567xzXZ;
    const d     : u32        = 32'd0123456789;
    const ddd   : u32        = 32'sd01234_56789;
    const e     : logic<128> = 128'h0123456789abcdefxzABCDEFXZ;
    const eee   : logic<128> = 128'sh01234_5678_9abc_defxz_ABCD_EFXZ;
    const f     : logic<32>  = '0;
    const ff    : logic<32>  = '1;
    const fff   : logic<32>  = 'x;
    const fffff : logic<32>  = 'z;
    const g     : f64        = 0123456789.0123456789;
    const gg    : f64        = 0123456789.0123456789e+012;
    const ggg   : f64        = 0123456789.0123456789E-012;
    const h     : logic<32>  = 'b0;
    const hhh   : logic<32>  = 'o0_0;
    const hhhhh : logic<32>  = 'h0_f;
    const s     : string     = "aaa\n\"q\"";
    const t     : bbool      = true;
    const u     : bbool      = false;
    const w8    : logic<8>   = 8'hff;
    const last  : logic<3>   = 3'd7;
}
"#,
            Some(
                r#"module FcUserLit {
    import FcLit::*;
    let _a: logic<128> = a + aa + b + bbb + c + ccc + d + ddd + e + eee + f + ff + fff + fffff + h + hhh + hhhhh;
    let _s: string     = s;
    let _t: logic      = t | u;
    let _r: f64        = g + gg + ggg;
    let _l: logic<3>   = last;
    let _v: logic [2]  = '{1, 1,};
    let _w: logic [2]  = '{1 repeat 2};
    let _x: logic [2]  = '{default: 1};
    let _c: logic      = "abc" == "abc";
    let _n: logic<8>   = FcLit::w8;
}
"#,
            ),
        ),
        e(
            "expressions_statements",
            None,
            r#"module FcExpr (
    i_clk: input  clock    ,
    i_rst: input  reset    ,
    i_a  : input  logic<8> ,
    i_b  : input  logic<8> ,
    o_c  : output logic<8> ,
    o_m  : output logic    ,
) {
    const WIDTH0: u32 = 10;
    let a: logic<10, 20> = 1;
    let _x: logic = a[msb][msb:lsb + 1];
    let _y: logic = a[msb - 3][msb - 5:lsb];
    var r: logic<8>;
    var s: logic<8>;
    function sat (
        x: input logic<8>,
        y: input logic<8>,
    ) -> logic<8> {
        var t: logic<9>;
        t = x + y;
        if t[8] {
            return 8'hff;
        } else {
            return t[7:0];
        }
    }
    always_ff {
        if_reset {
            r = 0;
        } else {
            case i_a {
                8'd0      : r = i_b;
                8'd1, 8'd2: r = r + 1;
                default   : {
                    r = sat(r, i_b);
                }
            }
        }
    }
    always_comb {
        s = 0;
        for i in 0..8 {
            s[i] = i_a[7 - i];
        }
        switch {
            i_a == 0: s = 1;
            i_b == 0: s = 2;
            default : s = s;
        }
        var tmp: logic<8>;
        tmp = s;
        let tmp2: logic<8> = tmp;
        s = tmp2;
    }
    assign o_c = if i_a >: i_b ? r : case i_b {
        0      : s,
        default: ~s,
    };
    assign o_m = inside i_a {0, 1..10, 20..=30} | outside i_b {5};
    let _cat: logic<24> = {i_a, i_b repeat 2};
    let _cst: logic<4>  = i_a as 4;
    let _w  : logic<4>  = WIDTH0 as 4;
    let _sf : u32       = $clog2(WIDTH0) + $bits(i_a);
    for k in 0..2 :g {
        let _q: logic = i_a[k];
    }
    if WIDTH0 == 10 :h {
        let _q: logic = 1;
    } else {
        let _q: logic = 0;
    }
    initial {
        $display("%d", WIDTH0);
    }
    final {
        $display("bye");
    }
    var r#in: logic;
    assign r#in = 0;
}
"#,
            Some(
                r#"module FcUserExpr (
    i_clk: input clock,
    i_rst: input reset,
) {
    var c: logic<8>;
    var m: logic   ;
    inst u: FcExpr (
        i_clk     ,
        i_rst     ,
        i_a  : 3  ,
        i_b  : 4  ,
        o_c  : c  ,
        o_m  : m  ,
    );
}
"#,
            ),
        ),
        e(
            "generic_function_inference",
            None,
            r#"module FcInfer (
    value: input logic<8>,
) {
    function FuncId::<T: u32> (
        x: input logic<T>,
    ) -> logic<T> {
        return x;
    }
    function FuncWide::<T: u32> (
        x: input logic<T>,
    ) -> logic<T + 1> {
        return {1'b0, x};
    }
    function FuncC::<IF: inst FcInferI> () -> logic {
        return IF.a;
    }
    let _a : logic<8>  = 0;
    let _b : logic<16> = 0;
    let _r1: logic<8>  = FuncId(_a);
    let _r2: logic<16> = FuncId(_b);
    let _rw: logic<9>  = FuncWide(_a);
    let _rp: logic<8>  = FuncId(value);
    let _e : logic<10> = FuncId::<10>(1);
    inst u: FcInferI;
    assign u.a = 0;
    let _i: logic = FuncC::<u>();
    let _t = _a;
    var _pc;
    assign _pc = _a;
}
interface FcInferI {
    var a: logic;
    modport mp {
        a: input,
    }
}
"#,
            Some(
                r#"module FcUserInfer {
    inst u: FcInfer (
        value: 1,
    );
}
"#,
            ),
        ),
        e(
            "inst_arrays_and_same_names",
            None,
            r#"module FcArrLeaf (
    i: input  logic,
    o: output logic,
) {
    assign o = i;
}
module FcArr {
    var o: logic<2>;
    for k in 0..2 :g {
        inst u: FcArrLeaf (
            i: 1   ,
            o: o[k],
        );
    }
    inst ia: FcArrI [2];
    assign ia[0].v = 0;
    assign ia[1].v = 1;
    var x: logic;
    always_comb {
        x = ia[0].v ^ o[0];
    }
}
interface FcArrI {
    var v: logic;
}
"#,
            Some(
                r#"module FcUserArr {
    inst a: FcArr;
    var o: logic;
    inst l: FcArrLeaf (
        i: 0,
        o   ,
    );
}
"#,
            ),
        ),
        e(
            "no_trailing_newline_with_warning",
            None,
            "module FcNoNl (\n    i: input logic,\n    o: output logic,\n) {\n    var unused_v: logic;\n    assign o = i;\n}\n// last line without newline",
            Some("module FcUserNoNl {\n    var o: logic;\n    inst u: FcNoNl (\n        i: 0,\n        o   ,\n    );\n}\n"),
        ),
        // `'a` is looked up as an ordinary name in pass1 (`insert_clock_domain`): when another file
        // declares something called `a`, the domain of `f` refers to a symbol outside f's window
        // (the documented non-cacheable case) — but only if that file was analysed first.
        e(
            "clock_domain_named_like_foreign_symbol",
            Some("package a {\n    const A0: u32 = 1;\n}\n"),
            r#"module FcDomX (
    i_clk: input  'a clock,
    i_d  : input  'a logic,
    o_d  : output 'a logic,
    i_e  : input  'b logic,
    o_e  : output 'b logic,
) {
    assign o_d = i_d;
    assign o_e = i_e;
}
"#,
            None,
        ),
        e("empty_file", None, "", None),
        e("comment_only_file", None, "// nothing here\n/* at all */\n", None),
    ];
    // an entry whose `user` has an error: later diagnostics must match too
    v.push(e(
        "user_with_error",
        None,
        r#"package FcErrP {
    const W: u32 = 3;
}
module FcErrM (
    i: input  logic<FcErrP::W>,
    o: output logic<FcErrP::W>,
) {
    assign o = i;
}
"#,
        Some(
            r#"module FcUserErr {
    var o: logic<3>;
    inst u: FcErrM (
        i      : 0,
        o      : o,
        no_such: 1,
    );
    let _k: u32 = FcErrP::NOPE;
}
"#,
        ),
    ));
    v
}

//! C25 — filelists are complete, dependency-ordered and collision-free.
//!
//! Engine E1 (finite family) on the real `veryl build` binary plus the real
//! `veryl_metadata::Metadata::paths` (the `PathSet` list the property names).
//!
//! Families (all enumerated exhaustively up to the stated bound):
//!  * `dag`      every labelled typed DAG on n files (node = package | interface | module, edge =
//!               package reference, interface instance / modport port, module instance), every
//!               distinguishable spelling (import vs scoped, inst vs modport); the configuration
//!               (target x sourcemap_target x filelist_type, 27) rotates with the member index;
//!  * `cfg`      every DAG on <= 2 files (quick) / <= 3 files (thorough) under ALL 27 configurations;
//!  * `multi`    every DAG on <= 3 files where one file additionally holds an independent second
//!               module, before or after its main declaration;
//!  * `extras`   a diamond project plus: a `#[test]` module, `examples/`, a path dependency with a
//!               referenced module, a package behind it and an unreferenced module, alias-only
//!               file, embed-only file, empty and comment-only files, `$std` (thorough) — under all
//!               27 configurations;
//!  * `layout`   collision layouts (same stem in two directories, two `sources` roots, example with
//!               the stem of a source, and the dependency grid: {1, 2} path dependencies x
//!               {alias == the dependency's own `[project]` name, alias != it — for two
//!               dependencies: both vendored copies carry the SAME `[project]` name under two
//!               aliases}, every dependency holding a file with the same project-relative path as
//!               a root source) under all 9 target x sourcemap_target settings.
//!
//! Oracle (from the abstract project only): the filelist has no duplicate line; its lines are
//! exactly the emitted `.sv` files; for every reference edge u -> v the line of v's file precedes
//! the line of u's file (for a bundle: v's text precedes u's text inside the bundle); every
//! emitted source is found in exactly one output; all `PathSet.dst` / `.map` of emitted files are
//! pairwise distinct.
//!
//! Every source starts with a `// @src<k>` comment; comments are copied to the output, which is
//! how outputs are attributed to sources without modelling the path mapping.

use super::projgen::{self, Kind, Node, Spelling};
use crate::core::*;
use crate::proj::{self, Sandbox};
use serde_json::{Value, json};
use std::collections::{BTreeMap, BTreeSet};
use std::path::{Path, PathBuf};

#[derive(Clone, Copy, Debug, PartialEq, Eq, Hash, PartialOrd, Ord)]
pub struct Cfg {
    pub target: u8, // 0 source, 1 directory, 2 bundle
    pub smap: u8,   // 0 target, 1 directory, 2 none
    pub fl: u8,     // 0 absolute, 1 relative, 2 flgen
}

impl Cfg {
    pub fn all() -> Vec<Cfg> {
        let mut v = vec![];
        for target in 0..3 {
            for smap in 0..3 {
                for fl in 0..3 {
                    v.push(Cfg { target, smap, fl });
                }
            }
        }
        v
    }
    pub fn target_name(&self) -> &'static str {
        ["source", "directory", "bundle"][self.target as usize]
    }
    pub fn smap_name(&self) -> &'static str {
        ["target", "directory", "none"][self.smap as usize]
    }
    pub fn fl_name(&self) -> &'static str {
        ["absolute", "relative", "flgen"][self.fl as usize]
    }
    pub fn text(&self) -> String {
        format!("target={} sourcemap_target={} filelist_type={}", self.target_name(), self.smap_name(), self.fl_name())
    }
    pub fn toml_lines(&self) -> String {
        let t = match self.target {
            0 => r#"{type = "source"}"#,
            1 => r#"{type = "directory", path = "target"}"#,
            _ => r#"{type = "bundle", path = "out/all.sv"}"#,
        };
        let m = match self.smap {
            0 => r#"{type = "target"}"#,
            1 => r#"{type = "directory", path = "map"}"#,
            _ => r#"{type = "none"}"#,
        };
        format!("target = {t}\nsourcemap_target = {m}\nfilelist_type = \"{}\"\n", self.fl_name())
    }
}

pub fn root_toml(cfg: Cfg, sources: &[&str], deps: &[(&str, &str)], exclude_std: bool) -> String {
    let srcs = sources.iter().map(|s| format!("\"{s}\"")).collect::<Vec<_>>().join(", ");
    let mut s = format!(
        "[project]\nname = \"prj\"\nversion = \"0.1.0\"\n\n[build]\nclock_type = \"posedge\"\nreset_type = \"async_low\"\nexclude_std = {exclude_std}\nsources = [{srcs}]\n{}",
        cfg.toml_lines()
    );
    if !deps.is_empty() {
        s.push_str("\n[dependencies]\n");
        for (n, p) in deps {
            s.push_str(&format!("{n} = {{path = \"{p}\"}}\n"));
        }
    }
    s
}

#[derive(Clone, Debug)]
pub struct Src {
    /// path relative to the sandbox root (`p/...` root project, `d/...` dependency)
    pub rel: String,
    pub text: String,
    /// `example` sources are analysed but never emitted
    pub example: bool,
    /// why a file may legitimately carry no declaration / what it is
    pub class: &'static str,
}

#[derive(Clone, Debug)]
pub struct Case {
    pub family: &'static str,
    pub label: String,
    pub cfg: Cfg,
    pub toml: String,
    /// other files (dependency Veryl.toml), relative to the sandbox root
    pub other: Vec<(String, String)>,
    pub srcs: Vec<Src>,
    /// (u, v, kind): source u references source v
    pub edges: Vec<(usize, usize, String)>,
    pub uses_std: bool,
}

fn marker(k: usize) -> String {
    format!("// @src{k}\n")
}

fn case_json(c: &Case) -> Value {
    json!({
        "family": c.family,
        "label": c.label,
        "config": c.cfg.text(),
        "Veryl.toml": c.toml,
        "other_files": c.other.iter().map(|(a,b)| json!({"path":a,"text":b})).collect::<Vec<_>>(),
        "sources": c.srcs.iter().map(|s| json!({"path": s.rel, "text": s.text, "example": s.example, "class": s.class})).collect::<Vec<_>>(),
        "reference_edges": c.edges.iter().map(|(u,v,k)| json!({"from": c.srcs[*u].rel, "to": c.srcs[*v].rel, "kind": k})).collect::<Vec<_>>(),
    })
}

// ------------------------------------------------------------------------------- families

fn dag_case(family: &'static str, nodes: &[Node], sp: Spelling, cfg: Cfg, extra: Option<(usize, bool)>) -> Case {
    let mut srcs = vec![];
    for k in 0..nodes.len() {
        let mut text = marker(k);
        let main = projgen::decl_text(nodes, k, sp);
        match extra {
            Some((f, before)) if f == k => {
                let x = format!("module X{k} (\n    i_x: input  logic,\n    o_x: output logic,\n) {{\n    assign o_x = i_x;\n}}\n");
                if before {
                    text.push_str(&x);
                    text.push_str(&main);
                } else {
                    text.push_str(&main);
                    text.push_str(&x);
                }
            }
            _ => text.push_str(&main),
        }
        srcs.push(Src { rel: format!("p/src/f{k}.veryl"), text, example: false, class: "normal" });
    }
    let label = format!(
        "{}{}{}{}",
        projgen::describe(nodes),
        if sp.pkg_scoped { " [pkg:scoped]" } else { "" },
        if sp.ifc_modport { " [ifc:modport]" } else { "" },
        match extra {
            Some((f, b)) => format!(" [extra module X{f} {} in f{f}]", if b { "first" } else { "last" }),
            None => String::new(),
        }
    );
    Case {
        family,
        label,
        cfg,
        toml: root_toml(cfg, &["src"], &[], true),
        other: vec![],
        srcs,
        edges: projgen::edges(nodes, sp),
        uses_std: false,
    }
}

/// The diamond used by the `extras` family: M0 -> {M1, M2}, M1 -> P3, M2 -> P3.
fn diamond() -> Vec<Node> {
    vec![
        Node { kind: Kind::Mod, refs: vec![1, 2] },
        Node { kind: Kind::Mod, refs: vec![3] },
        Node { kind: Kind::Mod, refs: vec![3] },
        Node { kind: Kind::Pkg, refs: vec![] },
    ]
}

pub const EXTRAS: [&str; 9] = ["test", "example", "dep", "alias", "embed", "empty", "comment-only", "all", "std"];

fn extras_case(which: &str, cfg: Cfg) -> Case {
    let nodes = diamond();
    let sp = Spelling { pkg_scoped: false, ifc_modport: false };
    let mut c = dag_case("extras", &nodes, sp, cfg, None);
    c.label = format!("diamond + {which}");
    let all = which == "all";
    let mut deps: Vec<(&str, &str)> = vec![];
    let mut push = |c: &mut Case, rel: &str, body: &str, example: bool, class: &'static str| -> usize {
        let k = c.srcs.len();
        c.srcs.push(Src { rel: rel.to_string(), text: format!("{}{}", marker(k), body), example, class });
        k
    };
    if which == "test" || all {
        let k = push(
            &mut c,
            "p/src/t_a.veryl",
            "#[test(t_a)]\nmodule t_a {\n    var a: logic<4>;\n    var b: logic<4>;\n    assign a = 1;\n    inst dut: M1 (\n        i_a: a,\n        o_a: b,\n    );\n    initial {\n        $finish();\n    }\n}\n",
            false,
            "normal",
        );
        c.edges.push((k, 1, "module.inst(from-test)".into()));
    }
    if which == "example" || all {
        push(
            &mut c,
            "p/examples/ex.veryl",
            "module Ex (\n    i_a: input  logic<4>,\n    o_a: output logic<4>,\n) {\n    inst u: M2 (\n        i_a: i_a,\n        o_a: o_a,\n    );\n}\n",
            true,
            "example",
        );
    }
    if which == "dep" || all {
        deps.push(("dep", "../d"));
        c.other.push(("d/Veryl.toml".into(), "[project]\nname = \"dep\"\nversion = \"0.1.0\"\n\n[build]\nclock_type = \"posedge\"\nreset_type = \"async_low\"\nexclude_std = true\nsources = [\"src\"]\ntarget = {type = \"directory\", path = \"target\"}\n".into()));
        let dp = push(&mut c, "d/src/a_dp.veryl", "package DP {\n    const DW: u32 = 4;\n}\n", false, "dependency");
        let dm = push(
            &mut c,
            "d/src/b_dm.veryl",
            "pub module DM (\n    i_a: input  logic<DP::DW>,\n    o_a: output logic<DP::DW>,\n) {\n    assign o_a = i_a;\n}\n",
            false,
            "dependency",
        );
        push(&mut c, "d/src/c_du.veryl", "pub module DU (\n    i_a: input  logic<4>,\n    o_a: output logic<4>,\n) {\n    assign o_a = i_a;\n}\n", false, "dependency-unreferenced");
        let user = push(
            &mut c,
            "p/src/a_user.veryl",
            "module User (\n    i_a: input  logic<4>,\n    o_a: output logic<4>,\n) {\n    inst u: dep::DM (\n        i_a: i_a,\n        o_a: o_a,\n    );\n}\n",
            false,
            "normal",
        );
        c.edges.push((dm, dp, "package.scoped(in-dependency)".into()));
        c.edges.push((user, dm, "module.inst(dependency)".into()));
    }
    if which == "alias" || all {
        let k = push(&mut c, "p/src/a_alias.veryl", "alias module AM = M1;\nalias package AP = P3;\n", false, "alias-only");
        c.edges.push((k, 1, "module.alias".into()));
        c.edges.push((k, 3, "package.alias".into()));
        let u = push(
            &mut c,
            "p/src/a_alias_user.veryl",
            "module AU (\n    i_a: input  logic<AP::W3>,\n    o_a: output logic<AP::W3>,\n) {\n    inst u: AM (\n        i_a: i_a,\n        o_a: o_a,\n    );\n}\n",
            false,
            "normal",
        );
        c.edges.push((u, 1, "module.inst(via-alias)".into()));
        c.edges.push((u, 3, "package.scoped(via-alias)".into()));
    }
    if which == "embed" || all {
        push(&mut c, "p/src/a_embed.veryl", "embed (inline) sv{{{\nmodule sv_only;\nendmodule\n}}}\n", false, "embed-only");
    }
    if which == "empty" || all {
        let k = c.srcs.len();
        c.srcs.push(Src { rel: "p/src/a_empty.veryl".into(), text: String::new(), example: false, class: "no-symbol:empty" });
        let _ = k;
    }
    if which == "comment-only" || all {
        push(&mut c, "p/src/a_comment.veryl", "// nothing but a comment\n", false, "no-symbol:comment-only");
    }
    let mut exclude_std = true;
    if which == "std" {
        exclude_std = false;
        c.uses_std = true;
        push(
            &mut c,
            "p/src/a_stduser.veryl",
            "module StdUser (\n    i_a: input  logic<4>,\n    o_a: output logic<4>,\n) {\n    inst u: $std::gray_encoder #(\n        WIDTH: 4,\n    ) (\n        i_bin : i_a,\n        o_gray: o_a,\n    );\n}\n",
            false,
            "normal",
        );
    }
    c.toml = root_toml(cfg, &["src"], &deps, exclude_std);
    c
}

pub const LAYOUTS: [&str; 9] = [
    "same-stem-two-dirs",
    "two-source-roots-same-stem",
    "two-source-roots-distinct",
    "dependency-same-relpath",
    "dependency-alias-differs-from-project-name",
    "two-dependencies-distinct-project-names-same-relpath",
    "two-aliases-same-project-name-same-relpath",
    "example-same-stem",
    "nested-dirs-distinct",
];

/// The dependency grid of the `layout` family: (layout, [(alias, directory, `[project]` name)]).
/// Every dependency holds `src/foo.veryl` (the relative path of the root's own source).
const DEP_LAYOUTS: [(&str, &[(&str, &str, &str)]); 4] = [
    ("dependency-same-relpath", &[("dep", "d", "dep")]),
    ("dependency-alias-differs-from-project-name", &[("al", "d", "util")]),
    ("two-dependencies-distinct-project-names-same-relpath", &[("da", "d1", "da"), ("db", "d2", "db")]),
    ("two-aliases-same-project-name-same-relpath", &[("u1", "d1", "util"), ("u2", "d2", "util")]),
];

fn layout_case(which: &str, cfg: Cfg) -> Case {
    let m = |name: &str| format!("module {name} (\n    i_a: input  logic<4>,\n    o_a: output logic<4>,\n) {{\n    assign o_a = i_a;\n}}\n");
    let mut srcs: Vec<Src> = vec![];
    let mut other = vec![];
    let mut sources = vec!["src"];
    let mut dep_specs: Vec<(String, String)> = vec![];
    let mut edges = vec![];
    let mut add = |rel: &str, body: String, example: bool, class: &'static str| {
        let k = srcs.len();
        srcs.push(Src { rel: rel.to_string(), text: format!("{}{}", marker(k), body), example, class });
    };
    match which {
        "same-stem-two-dirs" => {
            add("p/src/a/foo.veryl", m("FooA"), false, "normal");
            add("p/src/b/foo.veryl", m("FooB"), false, "normal");
        }
        "two-source-roots-same-stem" => {
            sources = vec!["rtl", "tb"];
            add("p/rtl/foo.veryl", m("FooA"), false, "normal");
            add("p/tb/foo.veryl", m("FooB"), false, "normal");
        }
        "two-source-roots-distinct" => {
            sources = vec!["rtl", "tb"];
            add("p/rtl/foo.veryl", m("FooA"), false, "normal");
            add("p/tb/bar.veryl", m("FooB"), false, "normal");
        }
        w if DEP_LAYOUTS.iter().any(|(l, _)| *l == w) => {
            let spec = DEP_LAYOUTS.iter().find(|(l, _)| *l == w).unwrap().1;
            let mut insts = String::new();
            for (i, (alias, dir, project)) in spec.iter().enumerate() {
                dep_specs.push((alias.to_string(), format!("../{dir}")));
                other.push((
                    format!("{dir}/Veryl.toml"),
                    format!("[project]\nname = \"{project}\"\nversion = \"0.1.0\"\n\n[build]\nclock_type = \"posedge\"\nreset_type = \"async_low\"\nexclude_std = true\nsources = [\"src\"]\ntarget = {{type = \"directory\", path = \"target\"}}\n"),
                ));
                add(&format!("{dir}/src/foo.veryl"), format!("pub {}", m("Foo")), false, "dependency");
                let (inp, outp) = if i == 0 { ("i_a".to_string(), if spec.len() == 1 { "o_a".to_string() } else { "w0".to_string() }) } else { ("w0".to_string(), "o_a".to_string()) };
                insts.push_str(&format!("    inst x{i}: {alias}::Foo (\n        i_a: {inp},\n        o_a: {outp},\n    );\n"));
            }
            let wire = if spec.len() > 1 { "    var w0: logic<4>;\n" } else { "" };
            add("p/src/foo.veryl", format!("module Foo (\n    i_a: input  logic<4>,\n    o_a: output logic<4>,\n) {{\n{wire}{insts}}}\n"), false, "normal");
            for i in 0..spec.len() {
                edges.push((spec.len(), i, "module.inst(dependency)".to_string()));
            }
        }
        "example-same-stem" => {
            add("p/src/foo.veryl", m("FooA"), false, "normal");
            add("p/examples/foo.veryl", m("FooEx"), true, "example");
        }
        "nested-dirs-distinct" => {
            add("p/src/a/foo.veryl", m("FooA"), false, "normal");
            add("p/src/b/bar.veryl", m("FooB"), false, "normal");
            add("p/src/top.veryl", m("Top"), false, "normal");
        }
        _ => unreachable!(),
    }
    let deps: Vec<(&str, &str)> = dep_specs.iter().map(|(a, b)| (a.as_str(), b.as_str())).collect();
    Case { family: "layout", label: which.to_string(), cfg, toml: root_toml(cfg, &sources, &deps, true), other, srcs, edges, uses_std: false }
}

// ------------------------------------------------------------------------------- observation

#[derive(Debug, Default)]
struct Outcome {
    skipped: Option<String>,
    violations: Vec<Violation>,
    filelist_lines: usize,
    edges_checked: usize,
    nontrivial: bool,
    /// informational: an example file was assigned the dst of a source
    example_overlap: bool,
    order_key: String,
}

fn write_case(sb: &Sandbox, c: &Case) {
    for d in ["p", "d", "d1", "d2"] {
        let _ = std::fs::remove_dir_all(sb.root.join(d));
    }
    std::fs::create_dir_all(sb.root.join("p")).unwrap();
    let w = |rel: &str, text: &str| {
        let p = sb.root.join(rel);
        std::fs::create_dir_all(p.parent().unwrap()).unwrap();
        std::fs::write(&p, text).unwrap();
    };
    w("p/Veryl.toml", &c.toml);
    for (rel, text) in &c.other {
        w(rel, text);
    }
    for s in &c.srcs {
        w(&s.rel, &s.text);
    }
}

fn src_of_marker(text: &str) -> Vec<usize> {
    let mut v = vec![];
    for l in text.lines() {
        if let Some(r) = l.strip_prefix("// @src") {
            if let Ok(k) = r.trim().parse::<usize>() {
                v.push(k);
            }
        }
    }
    v
}

fn rel_of(root: &Path, p: &Path) -> String {
    p.strip_prefix(root).map(|x| x.to_string_lossy().to_string()).unwrap_or_else(|_| p.to_string_lossy().to_string())
}

/// The real `PathSet` list, in process. Returns (src rel, dst rel, map rel, example, prj).
fn pathsets(sb: &Sandbox) -> Result<Vec<(String, String, String, bool, String)>, String> {
    let toml = sb.root.join("p/Veryl.toml");
    let mut md = veryl_metadata::Metadata::load(&toml).map_err(|e| format!("Metadata::load: {e}"))?;
    let none: Vec<PathBuf> = vec![];
    let ps = md.paths(&none, true, true).map_err(|e| format!("Metadata::paths: {e}"))?;
    let root = sb.root.canonicalize().unwrap_or(sb.root.clone());
    Ok(ps
        .iter()
        .map(|p| (rel_of(&root, &p.src), rel_of(&root, &p.dst), rel_of(&root, &p.map), p.example, p.prj.clone()))
        .collect())
}

fn observe(sb: &Sandbox, c: &Case) -> Outcome {
    let mut out = Outcome::default();
    write_case(sb, c);
    let cj = || case_json(c);

    // ---- (a) PathSet list: dst / map pairwise distinct over emitted (non-example) sources
    let ps = match pathsets(sb) {
        Ok(x) => x,
        Err(e) => {
            out.skipped = Some(format!("pathsets: {e}"));
            return out;
        }
    };
    let mut by_path: BTreeMap<String, Vec<String>> = BTreeMap::new();
    for (src, dst, map, example, _) in &ps {
        if *example {
            continue;
        }
        by_path.entry(format!("dst {dst}")).or_default().push(src.clone());
        if c.cfg.smap != 2 {
            by_path.entry(format!("map {map}")).or_default().push(src.clone());
        }
    }
    let clashes: Vec<(String, Vec<String>)> = by_path.iter().filter(|(_, v)| v.len() > 1).map(|(k, v)| (k.clone(), v.clone())).collect();
    // an output path that is also a source-map path or a source path of another file
    let dsts: BTreeSet<&String> = ps.iter().filter(|p| !p.3).map(|p| &p.1).collect();
    let cross: Vec<&String> = ps.iter().filter(|p| !p.3 && c.cfg.smap != 2).map(|p| &p.2).filter(|m| dsts.contains(m)).collect();
    for (src, dst, _, example, _) in &ps {
        if *example && dsts.contains(dst) {
            let _ = src;
            out.example_overlap = true;
        }
    }
    let stdn = ps.iter().filter(|p| p.4 == "$std").count();

    // ---- (b) the real build
    let run = super::projgen::veryl(sb, &["build"]);
    let diags = proj::diag_blocks(&run.stderr);
    if run.code != 0 || !diags.is_empty() {
        if clashes.is_empty() {
            out.skipped = Some(format!("build not clean (exit {}): {}", run.code, diags.first().cloned().unwrap_or_else(|| run.stderr.lines().last().unwrap_or("").to_string())));
            return out;
        }
    }

    // outputs on disk
    let p = sb.proj();
    let mut sv: BTreeMap<String, String> = BTreeMap::new(); // rel (to p) -> text
    let mut maps: BTreeSet<String> = BTreeSet::new();
    for e in walkdir::WalkDir::new(&p).sort_by_file_name().into_iter().flatten() {
        if !e.file_type().is_file() {
            continue;
        }
        let rel = e.path().strip_prefix(&p).unwrap().to_string_lossy().to_string();
        if rel.starts_with(".build") {
            continue;
        }
        if rel.ends_with(".sv.map") {
            maps.insert(rel);
        } else if rel.ends_with(".sv") {
            sv.insert(rel, std::fs::read_to_string(e.path()).unwrap_or_default());
        }
    }
    let emitted: Vec<usize> = (0..c.srcs.len()).filter(|k| !c.srcs[*k].example).collect();
    let bundle = c.cfg.target == 2;

    if !clashes.is_empty() || !cross.is_empty() {
        // which sources survived in the outputs
        let mut found: BTreeMap<usize, usize> = BTreeMap::new();
        for text in sv.values() {
            for k in src_of_marker(text) {
                *found.entry(k).or_default() += 1;
            }
        }
        let lost: Vec<&String> = emitted.iter().filter(|k| !c.srcs[**k].text.is_empty() && found.get(*k).copied().unwrap_or(0) == 0).map(|k| &c.srcs[*k].rel).collect();
        let dup: Vec<&String> = emitted.iter().filter(|k| found.get(*k).copied().unwrap_or(0) > 1).map(|k| &c.srcs[*k].rel).collect();
        let what_kind = if clashes.iter().any(|(k, _)| k.starts_with("dst")) { "dst" } else { "map" };
        out.violations.push(Violation {
            signature: format!("C25:collision:{}:target={}:{}", what_kind, c.cfg.target_name(), c.label),
            what: format!(
                "two emitted source files are assigned the same {} path (layout `{}`, target {}); after `veryl build` (exit {}) sources lost from the output: {:?}, duplicated: {:?}",
                what_kind,
                c.label,
                c.cfg.target_name(),
                run.code,
                lost,
                dup
            ),
            case: cj(),
            expected: json!("all PathSet.dst and PathSet.map of emitted files pairwise distinct"),
            observed: json!({"clashes": clashes.iter().map(|(k,v)| json!({"path": k, "sources": v})).collect::<Vec<_>>(), "map_equal_to_a_dst": cross, "build_exit": run.code, "outputs": sv.keys().collect::<Vec<_>>()}),
        });
        out.nontrivial = true;
        return out;
    }

    // ---- (c) attribute outputs to sources
    let filelist_rel = if c.cfg.fl == 2 { "prj.list.rb" } else { "prj.f" };
    let Ok(fl_text) = std::fs::read_to_string(p.join(filelist_rel)) else {
        out.violations.push(Violation {
            signature: "C25:filelist.absent".into(),
            what: format!("`veryl build` exited 0 but wrote no {filelist_rel}"),
            case: cj(),
            expected: json!("a filelist"),
            observed: json!({"stderr": run.stderr}),
        });
        return out;
    };
    let canon_p = format!("{}/p/", proj::CANON);
    let mut lines: Vec<String> = vec![]; // rel to p
    let mut bad_lines = vec![];
    for l in fl_text.lines() {
        let item = match c.cfg.fl {
            0 => l.strip_prefix(&canon_p).map(|x| x.to_string()),
            1 => Some(l.to_string()),
            _ => l.strip_prefix("source_file '").and_then(|x| x.strip_suffix('\'')).map(|x| x.to_string()),
        };
        match item {
            Some(x) => lines.push(x),
            None => bad_lines.push(l.to_string()),
        }
    }
    out.filelist_lines = lines.len();
    if !bad_lines.is_empty() {
        out.violations.push(Violation {
            signature: format!("C25:filelist.line-format:{}", c.cfg.fl_name()),
            what: "a filelist line does not have the form of its filelist_type".into(),
            case: cj(),
            expected: json!(match c.cfg.fl { 0 => "absolute path below the project", 1 => "path relative to the project", _ => "source_file '<relative path>'" }),
            observed: json!(bad_lines),
        });
    }
    // duplicates
    let mut seen = BTreeSet::new();
    let dups: Vec<&String> = lines.iter().filter(|l| !seen.insert((*l).clone())).collect();
    if !dups.is_empty() {
        out.violations.push(Violation {
            signature: "C25:filelist.duplicate-line".into(),
            what: "the filelist names a file more than once".into(),
            case: cj(),
            expected: json!("every emitted file exactly once"),
            observed: json!({"duplicates": dups, "filelist": lines}),
        });
    }

    // every emitted source must be in exactly one output
    let mut home: BTreeMap<usize, Vec<String>> = BTreeMap::new();
    let mut unmarked: Vec<String> = vec![];
    for (rel, text) in &sv {
        let ks = src_of_marker(text);
        if ks.is_empty() && !rel.starts_with("dependencies/std/") {
            unmarked.push(rel.clone());
        }
        for k in ks {
            home.entry(k).or_default().push(rel.clone());
        }
    }
    let mut attribution_problem = vec![];
    for k in &emitted {
        let n = home.get(k).map(|x| x.len()).unwrap_or(0);
        if c.srcs[*k].text.is_empty() {
            continue;
        }
        // with a bundle target only the bundle is emitted: a source that is not connected to the
        // root project (no symbol, unreferenced dependency file) is simply not part of it
        let optional = bundle && (c.srcs[*k].class.starts_with("no-symbol") || c.srcs[*k].class == "dependency-unreferenced");
        if !(n == 1 || (optional && n == 0)) {
            attribution_problem.push(json!({"source": c.srcs[*k].rel, "class": c.srcs[*k].class, "outputs_holding_it": home.get(k)}));
        }
    }
    for (k, v) in &home {
        if c.srcs.get(*k).map(|s| s.example).unwrap_or(true) {
            attribution_problem.push(json!({"unexpected_source_in_output": k, "outputs": v}));
        }
    }
    if !attribution_problem.is_empty() {
        out.violations.push(Violation {
            signature: format!("C25:output.lost-or-duplicated:target={}", c.cfg.target_name()),
            what: "an emitted source file is not found in exactly one output file although no PathSet collision was reported".into(),
            case: cj(),
            expected: json!("each non-example source in exactly one output"),
            observed: json!({"problems": attribution_problem, "outputs": sv.keys().collect::<Vec<_>>()}),
        });
        return out;
    }

    // ---- (d) completeness: lines == emitted files
    let emitted_files: BTreeSet<String> = sv.keys().cloned().collect();
    let listed: BTreeSet<String> = lines.iter().cloned().collect();
    if bundle {
        let want: BTreeSet<String> = ["out/all.sv".to_string()].into_iter().collect();
        if listed != want || emitted_files != want {
            out.violations.push(Violation {
                signature: "C25:filelist.bundle-lines".into(),
                what: "with a bundle target the filelist must name exactly the bundle, the only emitted file".into(),
                case: cj(),
                expected: json!(["out/all.sv"]),
                observed: json!({"filelist": lines, "emitted": emitted_files}),
            });
        }
    } else {
        let extra: Vec<&String> = listed.difference(&emitted_files).collect();
        if !extra.is_empty() {
            out.violations.push(Violation {
                signature: "C25:filelist.names-unemitted-file".into(),
                what: "the filelist names a file that `veryl build` did not emit".into(),
                case: cj(),
                expected: json!(emitted_files),
                observed: json!({"extra": extra, "filelist": lines}),
            });
        }
        // classify the missing ones by what the abstract project says about the source
        let mut missing_by_class: BTreeMap<String, Vec<String>> = BTreeMap::new();
        for f in emitted_files.difference(&listed) {
            let class = if f.starts_with("dependencies/std/") {
                "std-unreferenced".to_string()
            } else {
                let ks = src_of_marker(&sv[f]);
                match ks.first() {
                    Some(k) => c.srcs[*k].class.to_string(),
                    None => "no-symbol:empty".to_string(),
                }
            };
            missing_by_class.entry(class).or_default().push(f.clone());
        }
        for (class, files) in missing_by_class {
            out.violations.push(Violation {
                signature: format!("C25:filelist.missing:{class}"),
                what: format!("`veryl build` emitted {} file(s) of class `{class}` that the filelist does not list", files.len()),
                case: cj(),
                expected: json!("every emitted .sv file listed exactly once"),
                observed: json!({"emitted_but_not_listed": files.iter().take(6).collect::<Vec<_>>(), "count": files.len(), "filelist": lines.iter().take(40).collect::<Vec<_>>()}),
            });
        }
        // source maps: one per emitted file, none otherwise
        if c.cfg.smap != 2 {
            if maps.len() != emitted_files.len() {
                out.violations.push(Violation {
                    signature: format!("C25:sourcemap.count:target={}:sourcemap_target={}", c.cfg.target_name(), c.cfg.smap_name()),
                    what: "the number of source maps differs from the number of emitted files".into(),
                    case: cj(),
                    expected: json!(emitted_files.len()),
                    observed: json!({"maps": maps, "emitted": emitted_files}),
                });
            }
        } else if !maps.is_empty() {
            out.violations.push(Violation {
                signature: "C25:sourcemap.written-with-none".into(),
                what: "sourcemap_target = none but source maps were written".into(),
                case: cj(),
                expected: json!([]),
                observed: json!(maps),
            });
        }
    }

    // ---- (e) order
    let pos: BTreeMap<usize, usize> = if bundle {
        let text = sv.get("out/all.sv").cloned().unwrap_or_default();
        let mut m = BTreeMap::new();
        for (i, k) in src_of_marker(&text).into_iter().enumerate() {
            m.entry(k).or_insert(i);
        }
        m
    } else {
        let mut m = BTreeMap::new();
        for (k, files) in &home {
            if let Some(i) = lines.iter().position(|l| l == &files[0]) {
                m.insert(*k, i);
            }
        }
        m
    };
    let mut order_desc: Vec<(usize, usize)> = pos.iter().map(|(k, i)| (*i, *k)).collect();
    order_desc.sort();
    out.order_key = order_desc.iter().map(|(_, k)| k.to_string()).collect::<Vec<_>>().join(",");
    for (u, v, kind) in &c.edges {
        out.edges_checked += 1;
        match (pos.get(u), pos.get(v)) {
            (Some(pu), Some(pv)) => {
                if pv >= pu {
                    out.violations.push(Violation {
                        signature: if c.family == "multi" { "C25:order:multi-declaration-file".to_string() } else { format!("C25:order:{}:{}", kind, c.family) },
                        what: format!("{} references {} ({kind}) but is listed before it", c.srcs[*u].rel, c.srcs[*v].rel),
                        case: cj(),
                        expected: json!(format!("{} before {}", c.srcs[*v].rel, c.srcs[*u].rel)),
                        observed: json!({"order_of_sources": order_desc.iter().map(|(_, k)| c.srcs[*k].rel.clone()).collect::<Vec<_>>(), "filelist": lines}),
                    });
                }
            }
            _ => {
                // an endpoint is not listed at all: already reported under completeness unless bundle
                if bundle {
                    out.violations.push(Violation {
                        signature: format!("C25:bundle.missing-source:{}", c.srcs[if pos.contains_key(u) { *v } else { *u }].class),
                        what: "a referenced / referencing source is absent from the bundle".into(),
                        case: cj(),
                        expected: json!("both endpoints of a reference edge in the bundle"),
                        observed: json!({"edge": [c.srcs[*u].rel, c.srcs[*v].rel], "sources_in_bundle": order_desc.iter().map(|(_, k)| c.srcs[*k].rel.clone()).collect::<Vec<_>>()}),
                    });
                }
            }
        }
    }
    // bundle completeness: every emitted, non-empty source must be in the bundle
    if bundle {
        let mut by_class: BTreeMap<&str, Vec<&String>> = BTreeMap::new();
        for k in &emitted {
            let optional = c.srcs[*k].class.starts_with("no-symbol") || c.srcs[*k].class == "dependency-unreferenced";
            if !c.srcs[*k].text.is_empty() && !pos.contains_key(k) && !optional {
                by_class.entry(c.srcs[*k].class).or_default().push(&c.srcs[*k].rel);
            }
        }
        for (class, files) in by_class {
            out.violations.push(Violation {
                signature: format!("C25:bundle.missing:{class}"),
                what: format!("source file(s) of class `{class}` are analysed and emitted but absent from the bundle"),
                case: cj(),
                expected: json!("every emitted source in the bundle"),
                observed: json!({"absent": files}),
            });
        }
    }
    // the referenced `$std` module must be listed, before its user
    if c.uses_std && !bundle {
        let user = c.srcs.iter().position(|x| x.rel.ends_with("a_stduser.veryl"));
        let std_line = lines.iter().position(|l| l.ends_with("gray/gray_encoder.sv"));
        out.edges_checked += 1;
        match (std_line, user.and_then(|u| pos.get(&u))) {
            (Some(a), Some(b)) if a < *b => {}
            (a, b) => out.violations.push(Violation {
                signature: "C25:order:module.inst(std)".into(),
                what: "the `$std` module instantiated by the root project is not listed before its user".into(),
                case: cj(),
                expected: json!("dependencies/std/gray/gray_encoder.sv listed before the user"),
                observed: json!({"std_line": a, "user_line": b, "std_files_in_pathset": stdn, "filelist": lines.iter().take(20).collect::<Vec<_>>()}),
            }),
        }
    }
    out.nontrivial = !c.edges.is_empty() && c.srcs.len() >= 2;
    out
}

// ------------------------------------------------------------------------------- driver

fn build_cases(thorough: bool) -> (Vec<Case>, BTreeMap<String, u64>) {
    let cfgs = Cfg::all();
    let mut cases: Vec<Case> = vec![];
    let mut sizes: BTreeMap<String, u64> = BTreeMap::new();
    // layouts: all 9 target x smap, filelist type rotating
    for (li, l) in LAYOUTS.iter().enumerate() {
        for target in 0..3u8 {
            for smap in 0..3u8 {
                let cfg = Cfg { target, smap, fl: ((li + target as usize + smap as usize) % 3) as u8 };
                cases.push(layout_case(l, cfg));
                *sizes.entry("layout".into()).or_default() += 1;
            }
        }
    }
    // extras under all 27 configurations
    for w in EXTRAS {
        if w == "std" {
            continue;
        }
        for cfg in &cfgs {
            cases.push(extras_case(w, *cfg));
            *sizes.entry("extras".into()).or_default() += 1;
        }
    }
    if thorough {
        for cfg in &cfgs {
            if cfg.smap == 0 {
                cases.push(extras_case("std", *cfg));
                *sizes.entry("extras-std".into()).or_default() += 1;
            }
        }
    } else {
        cases.push(extras_case("std", Cfg { target: 1, smap: 2, fl: 1 }));
        *sizes.entry("extras-std".into()).or_default() += 1;
    }
    // cfg: small DAGs under all 27 configurations
    let cfg_n = if thorough { 3 } else { 2 };
    for n in 1..=cfg_n {
        for nodes in projgen::enumerate_dags(n) {
            for sp in projgen::spellings(&nodes) {
                for cfg in &cfgs {
                    cases.push(dag_case("cfg", &nodes, sp, *cfg, None));
                    *sizes.entry(format!("cfg.n{n}")).or_default() += 1;
                }
            }
        }
    }
    // dag: every DAG, configuration rotating
    let dag_n = if thorough { 4 } else { 3 };
    let mut idx = 0usize;
    for n in 1..=dag_n {
        for nodes in projgen::enumerate_dags(n) {
            for sp in projgen::spellings(&nodes) {
                let cfg = cfgs[idx % cfgs.len()];
                idx += 1;
                cases.push(dag_case("dag", &nodes, sp, cfg, None));
                *sizes.entry(format!("dag.n{n}")).or_default() += 1;
            }
        }
    }
    // multi: one file holds an additional independent module
    let multi_n = if thorough { 3 } else { 2 };
    for n in 2..=multi_n {
        for nodes in projgen::enumerate_dags(n) {
            if nodes.iter().all(|x| x.refs.is_empty()) {
                continue;
            }
            let sp = Spelling { pkg_scoped: false, ifc_modport: false };
            for f in 0..n {
                for before in [true, false] {
                    let cfg = cfgs[idx % cfgs.len()];
                    idx += 1;
                    cases.push(dag_case("multi", &nodes, sp, cfg, Some((f, before))));
                    *sizes.entry(format!("multi.n{n}")).or_default() += 1;
                }
            }
        }
    }
    (cases, sizes)
}

pub fn run(ctx: &Ctx) -> Report {
    let mut rep = Report::new(Level::Exploration);
    if let Err(e) = proj::ensure_canon() {
        rep.machinery(e);
        return rep;
    }
    // in-process metadata calls must not touch the user's cache
    let home = ctx.dir("inproc-home");
    unsafe {
        std::env::set_var("HOME", &home);
        std::env::set_var("XDG_CACHE_HOME", home.join("cache"));
    }
    let budget = ctx.budget(30.0, 660.0);
    let nthreads = rayon::current_num_threads().max(1);
    let sandboxes: Vec<Sandbox> = (0..nthreads + 1).map(|i| Sandbox::new(&ctx.scratch.join(format!("w{i}")))).collect();

    let (mut cases, sizes) = build_cases(ctx.thorough());
    if let Ok(only) = std::env::var("VMC_C25_ONLY") {
        // development aid: restrict to some families (the run is then reported as not exhaustive)
        let keep: Vec<&str> = only.split(',').collect();
        cases.retain(|c| keep.contains(&c.family));
        rep.notes.push(format!("VMC_C25_ONLY={only}: restricted run"));
    }
    let total = cases.len();
    // families are run in this order; a budget cap stops at a family/size boundary
    let family_order = |c: &Case| -> (usize, usize) {
        let f = match c.family {
            "layout" => 0,
            "extras" => 1,
            "dag" => 2,
            "multi" => 3,
            _ => 4,
        };
        (f, c.srcs.len())
    };
    cases.sort_by_key(|c| family_order(c));

    let capped = std::sync::atomic::AtomicBool::new(false);
    let results: Vec<Option<Outcome>> = projgen::par_in_order(&cases, |w, c| {
        if ctx.elapsed() > budget {
            capped.store(true, std::sync::atomic::Ordering::Relaxed);
            return None;
        }
        Some(observe(&sandboxes[w], c))
    });

    let mut evaluations = 0u64;
    let mut nontrivial = 0u64;
    let mut skipped: BTreeMap<String, u64> = BTreeMap::new();
    let mut edges_checked = 0u64;
    let mut lines_checked = 0u64;
    let mut example_overlaps = 0u64;
    let mut orders: BTreeSet<String> = BTreeSet::new();
    let mut done_by_family: BTreeMap<String, u64> = BTreeMap::new();
    let mut sig_count: BTreeMap<String, u64> = BTreeMap::new();
    let mut configs_seen: BTreeSet<Cfg> = BTreeSet::new();
    for (c, r) in cases.iter().zip(results.into_iter()) {
        let Some(o) = r else { continue };
        evaluations += 1;
        *done_by_family.entry(format!("{}.n{}", c.family, c.srcs.len())).or_default() += 1;
        if let Some(s) = o.skipped {
            let key = s.chars().take(100).collect::<String>();
            if skipped.len() < 10 || skipped.contains_key(&key) {
                *skipped.entry(key).or_default() += 1;
            } else {
                *skipped.entry("(other)".into()).or_default() += 1;
            }
            rep.notes.push(format!("skipped `{}` [{}]: {}", c.label, c.cfg.text(), s.chars().take(300).collect::<String>()));
            if rep.notes.len() > 12 {
                rep.notes.truncate(12);
            }
            continue;
        }
        configs_seen.insert(c.cfg);
        if o.nontrivial {
            nontrivial += 1;
        }
        edges_checked += o.edges_checked as u64;
        lines_checked += o.filelist_lines as u64;
        if o.example_overlap {
            example_overlaps += 1;
        }
        if !o.order_key.is_empty() {
            orders.insert(format!("{}:{}", c.srcs.len(), o.order_key));
        }
        if evaluations % 211 == 1 {
            rep.sample(json!({"family": c.family, "label": c.label, "config": c.cfg.text(), "sources": c.srcs.len(), "edges": c.edges.len(), "observed_source_order": o.order_key}));
        }
        for v in o.violations {
            let n = sig_count.entry(v.signature.clone()).or_default();
            *n += 1;
            if *n <= 3 {
                rep.violation(v);
            }
        }
    }
    let capped = capped.load(std::sync::atomic::Ordering::Relaxed);
    let skipped_total: u64 = skipped.values().sum();
    rep.set("evaluations", evaluations);
    rep.set("family_members_requested", total as u64);
    rep.set("family_sizes", json!(sizes));
    rep.set("completed_by_family_and_file_count", json!(done_by_family));
    rep.set("distinct_nontrivial", nontrivial);
    rep.set("reference_edges_checked", edges_checked);
    rep.set("filelist_lines_checked", lines_checked);
    rep.set("distinct_observed_source_orders", orders.len() as u64);
    rep.set("configurations_exercised", configs_seen.len() as u64);
    rep.set("skipped_generator_rejects", skipped_total);
    rep.set("skipped_reasons", json!(skipped));
    rep.set("example_dst_overlaps_with_a_source_informational", example_overlaps);
    rep.set("violation_cases_by_signature", json!(sig_count));
    rep.set("capped_by_budget", capped);
    rep.set("exhaustive", !capped && std::env::var("VMC_C25_ONLY").is_err());
    rep.set("budget_s", budget);
    rep.set(
        "rule",
        "a member is non-trivial when it has >= 2 emitted sources and >= 1 reference edge whose order was checked in the filelist (or bundle) of a clean `veryl build`, or when it exposes a PathSet collision",
    );
    rep.assume("outputs are attributed to sources through a `// @src<k>` comment that veryl copies to the output (strip_comments = false)");
    rep.assume("an `examples/` file that is assigned the dst of a source is counted but not reported: examples are never emitted, so no output is overwritten");
    if evaluations > 0 && skipped_total * 50 > evaluations {
        rep.machinery(format!("vacuity guard: {skipped_total} of {evaluations} generated projects were rejected by veryl (generator bug)"));
    }
    if nontrivial < 2 || orders.len() < 2 {
        rep.machinery("vacuity guard: fewer than 2 non-trivial members / distinct observed orders");
    }
    if !capped && configs_seen.len() < 27 {
        rep.machinery(format!("vacuity guard: only {} of 27 configurations produced a clean build", configs_seen.len()));
    }
    rep
}

pub fn replay(doc: &Value) -> i32 {
    // rebuild the case from the stored files and config
    let case = &doc["case"];
    let Some(cfgtext) = case["config"].as_str() else {
        eprintln!("no config");
        return 2;
    };
    let Some(cfg) = Cfg::all().into_iter().find(|c| c.text() == cfgtext) else {
        eprintln!("unknown config {cfgtext}");
        return 2;
    };
    let srcs: Vec<Src> = case["sources"]
        .as_array()
        .cloned()
        .unwrap_or_default()
        .iter()
        .map(|s| Src {
            rel: s["path"].as_str().unwrap_or("").to_string(),
            text: s["text"].as_str().unwrap_or("").to_string(),
            example: s["example"].as_bool().unwrap_or(false),
            class: Box::leak(s["class"].as_str().unwrap_or("normal").to_string().into_boxed_str()),
        })
        .collect();
    let idx = |p: &str| srcs.iter().position(|s| s.rel == p).unwrap_or(0);
    let edges = case["reference_edges"]
        .as_array()
        .cloned()
        .unwrap_or_default()
        .iter()
        .map(|e| (idx(e["from"].as_str().unwrap_or("")), idx(e["to"].as_str().unwrap_or("")), e["kind"].as_str().unwrap_or("").to_string()))
        .collect();
    let c = Case {
        family: Box::leak(case["family"].as_str().unwrap_or("replay").to_string().into_boxed_str()),
        label: case["label"].as_str().unwrap_or("").to_string(),
        cfg,
        toml: case["Veryl.toml"].as_str().unwrap_or("").to_string(),
        other: case["other_files"].as_array().cloned().unwrap_or_default().iter().map(|o| (o["path"].as_str().unwrap_or("").to_string(), o["text"].as_str().unwrap_or("").to_string())).collect(),
        srcs,
        edges,
        uses_std: false,
    };
    let ctx = Ctx::new("C25-replay", Tier::Quick);
    let home = ctx.dir("inproc-home");
    unsafe {
        std::env::set_var("HOME", &home);
        std::env::set_var("XDG_CACHE_HOME", home.join("cache"));
    }
    let sb = Sandbox::new(&ctx.scratch.join("w"));
    let o = observe(&sb, &c);
    if let Some(s) = o.skipped {
        println!("skipped: {s}");
        return 2;
    }
    if o.violations.is_empty() {
        println!("no violation (observed source order {})", o.order_key);
        0
    } else {
        for v in &o.violations {
            println!("{}: {}\n  observed: {}", v.signature, v.what, v.observed);
        }
        1
    }
}

//! C22 — SystemVerilog translation preserves behaviour.
//!
//! Space: (a) the hand-enumerated SystemVerilog family SF (`checks/sf.rs`), (b) the SystemVerilog
//! the real emitter produces for the C01 design family DF (round trip), (c) the translator's own
//! test fixtures. For every module the REAL `veryl_translator::translate_str` runs (as the CLI
//! does, formatter pass included). A module with a reported unsupported construct is counted as
//! skipped (by reason). Otherwise
//!
//! 1. the produced Veryl must parse and analyse with zero errors (real parser + analyzer on a
//!    fresh thread, `[build]` defaults = what the translator assumes: it emits no explicit
//!    clock/reset types, so polarity and edge come from the project defaults posedge / async_low);
//! 2. the real emitter's SystemVerilog for the translation is run in lock step against the
//!    ORIGINAL SystemVerilog, both on the reference interpreter R2: explicit-state BFS over the
//!    product (all input letters at every reachable product state, reset letter, all three
//!    observation points per cycle), all input sequences of length L without deduplication, and a
//!    "free" BFS whose events are single input changes including raw clock and reset toggles;
//! 3. the real `veryl_simulator` on the translated Veryl is walked over every edge of that product
//!    graph as a third machine (a disagreement of the third machine ALONE is not a C22 violation —
//!    the simulator is C01's subject — it is counted and listed as a note).
//!
//! Clock and reset are driven according to the ORIGINAL text's sensitivity list.

use super::c01;
use super::df::{self, ClkKind, DesignCase, Port, RstKind};
use super::sf::{self, SvCase};
use super::sveq::{self, CycleObs, Graph, LegStats, Meta, Mismatch, Obs, RESET_LETTER, RM, RmErr};
use crate::core::*;
use serde_json::{Value, json};
use std::collections::{BTreeMap, BTreeSet, HashSet, VecDeque};
use std::sync::Mutex;
use veryl_metadata::{ClockType, Metadata, ResetType};
use vmc_refmodels::svref::SvError;

/// The translator leaves the clock / reset of every translated `always_ff` a plain `logic` port,
/// which the analyzer rejects (`invalid_clock`, `invalid_reset`) and the emitter cannot print.
/// When these are the ONLY errors, they are reported (first clause) and the check CONTINUES on a
/// minimally retyped copy (`logic` -> `clock` / `reset` for exactly the names used in
/// `always_ff (..)`, the edit the analyzer's message asks for), so that the second clause is still
/// evaluated for sequential logic; findings of that continuation carry `-after-retyping`.
const TOLERATED: [&str; 2] = ["invalid_clock", "invalid_reset"];

/// `always_ff (c)` / `always_ff (c, r)` names of a translated text
fn always_ff_names(veryl: &str) -> (BTreeSet<String>, BTreeSet<String>) {
    let (mut clocks, mut resets) = (BTreeSet::new(), BTreeSet::new());
    let mut rest = veryl;
    while let Some(i) = rest.find("always_ff") {
        rest = &rest[i + 9..];
        let t = rest.trim_start();
        if let Some(t) = t.strip_prefix('(') {
            if let Some(j) = t.find(')') {
                let names: Vec<&str> = t[..j].split(',').map(|x| x.trim()).collect();
                if let Some(c) = names.first() {
                    if !c.is_empty() {
                        clocks.insert(c.to_string());
                    }
                }
                if let Some(r) = names.get(1) {
                    if !r.is_empty() {
                        resets.insert(r.to_string());
                    }
                }
            }
        }
    }
    (clocks, resets)
}

/// Retypes the declarations (`name: input logic,` / `var name: logic;`) of the always_ff clocks and resets.
pub fn retype_clock_reset(veryl: &str) -> String {
    let (clocks, resets) = always_ff_names(veryl);
    let mut out = String::new();
    for line in veryl.lines() {
        let t = line.trim();
        let t = t.strip_prefix("var ").unwrap_or(t).trim_start();
        let name: String = t.chars().take_while(|c| c.is_ascii_alphanumeric() || *c == '_').collect();
        let after = t[name.len()..].trim_start();
        let is_decl = after.starts_with(':') && !after.starts_with("::");
        let ty = if clocks.contains(&name) { Some("clock") } else if resets.contains(&name) { Some("reset") } else { None };
        match (is_decl, ty) {
            (true, Some(ty)) if line.contains("logic") && !line.contains('<') && !line.contains("output") => {
                out.push_str(&line.replacen("logic", ty, 1));
            }
            _ => out.push_str(line),
        }
        out.push('\n');
    }
    out
}

// ------------------------------------------------------------------------------------------------
// the real pipeline

pub struct Translated {
    pub veryl: String,
    pub unsupported: Vec<String>,
}

/// the real translator, called as `veryl translate` calls it (format = true)
pub fn translate(sv: &str) -> Result<Translated, String> {
    let out = veryl_translator::translate_str(sv, "m.sv", true, veryl_metadata::NewlineStyle::Auto).map_err(|e| e.to_string())?;
    Ok(Translated { veryl: out.veryl, unsupported: out.unsupported.iter().map(|u| u.kind.clone()).collect() })
}

pub struct Front {
    /// (code, message) of error-severity diagnostics
    pub errors: Vec<(String, String)>,
    pub warnings: Vec<String>,
    /// emitted SystemVerilog (only without analyzer errors)
    pub sv: Option<String>,
    ir: veryl_analyzer::ir::Ir,
    use_jit: bool,
}

pub const PRJ: &str = "t";

/// parse + analyse + emit under the default `[build]`. Must run on a fresh thread. Err = parse error text.
pub fn front(src: &str, use_jit: bool) -> Result<Front, String> {
    use veryl_analyzer::{Analyzer, Context, attribute_table, ir as air, symbol_table};
    use veryl_parser::Parser;
    symbol_table::clear();
    attribute_table::clear();
    let metadata = Metadata::create_default(PRJ).map_err(|e| format!("metadata: {e}"))?;
    let parser = Parser::parse(src, &"m.veryl").map_err(|e| format!("{e}"))?;
    let analyzer = Analyzer::new(&metadata);
    let mut context = Context::default();
    let mut ir = air::Ir::default();
    let mut diags = vec![];
    diags.append(&mut analyzer.analyze_pass1(PRJ, &parser.veryl));
    diags.append(&mut Analyzer::analyze_post_pass1());
    diags.append(&mut analyzer.analyze_pass2(&parser.veryl, &mut context, Some(&mut ir)));
    diags.append(&mut Analyzer::analyze_post_pass2(&ir));
    let mut errors = vec![];
    let mut warnings = vec![];
    for e in &diags {
        use miette::Diagnostic;
        let code = e.code().map(|c| c.to_string()).unwrap_or_else(|| "?".into());
        if e.is_error() {
            errors.push((code, format!("{e}")));
        } else {
            warnings.push(code);
        }
    }
    let sv = if errors.is_empty() {
        let mut emitter = veryl_emitter::Emitter::new(&metadata, PRJ, &std::path::PathBuf::from("m.veryl"), &std::path::PathBuf::from("m.sv"), &std::path::PathBuf::from("m.sv.map"));
        emitter.emit(&parser.veryl, src);
        Some(emitter.as_str().to_string())
    } else {
        None
    };
    Ok(Front { errors, warnings, sv, ir, use_jit })
}

impl Front {
    fn new_sim(&self, top: &str) -> Result<veryl_simulator::Simulator, String> {
        // the derivation of crates/veryl/src/cmd_test.rs for the default [build] (async_low)
        let config = veryl_simulator::Config { use_jit: self.use_jit, abstract_reset_active_high: false, abstract_reset_sync: false, ..veryl_simulator::Config::default() };
        let sir = veryl_simulator::ir::build_ir(&self.ir, top.into(), &config).map_err(|e| format!("build_ir: {e}"))?;
        Ok(veryl_simulator::Simulator::new(sir, None))
    }
}

// ------------------------------------------------------------------------------------------------
// third machine

struct VSim {
    sim: veryl_simulator::Simulator,
    clk: Option<veryl_simulator::ir::Event>,
    /// Some when the translated port has a reset type
    rst_ev: Option<veryl_simulator::ir::Event>,
    meta: Meta,
}

fn value_bits(v: &veryl_simulator::ir::Value, w: usize) -> String {
    let p = v.payload_u128();
    let m = v.mask_xz_u128();
    (0..w)
        .rev()
        .map(|i| match ((m >> i) & 1, (p >> i) & 1) {
            (0, 0) => '0',
            (0, 1) => '1',
            (1, 0) => 'x',
            _ => 'z',
        })
        .collect()
}

impl VSim {
    fn new(sim: veryl_simulator::Simulator, meta: &Meta) -> Result<VSim, String> {
        let clk = match &meta.clock {
            Some((n, _)) => Some(sim.get_clock(n).ok_or_else(|| format!("no clock port {n}"))?),
            None => None,
        };
        let rst_ev = meta.reset.as_ref().and_then(|(n, _, _)| sim.get_reset(n));
        let mut v = VSim { sim, clk, rst_ev, meta: meta.clone() };
        // every port must exist
        for p in meta.inputs.iter().chain(meta.outputs.iter()) {
            if v.sim.get(&p.name).is_none() {
                return Err(format!("no port {}", p.name));
            }
        }
        Ok(v)
    }
    fn drive(&mut self, letter: u32) {
        let vals = self.meta.decode(letter);
        for (p, v) in self.meta.inputs.iter().zip(vals) {
            self.sim.set(&p.name, veryl_simulator::ir::Value::new(v as u64, p.width, false));
        }
    }
    fn set_reset(&mut self, asserted: bool) {
        if let Some((n, high, _)) = &self.meta.reset {
            self.sim.set(n, veryl_simulator::ir::Value::new((asserted == *high) as u64, 1, false));
        }
    }
    /// time 0 of a fresh simulator
    fn init(&mut self) {
        self.set_reset(false);
        self.drive(0);
    }
    /// the reset phase of the original design's meaning: the port is driven to the ORIGINAL's
    /// asserted level around one clock step
    fn reset(&mut self) {
        self.drive(0);
        self.set_reset(true);
        match (&self.clk, &self.rst_ev) {
            (Some(c), Some(r)) => self.sim.step_in_reset(c, r, true),
            (Some(c), None) => self.sim.step(c),
            _ => {}
        }
        self.set_reset(false);
    }
    fn observe(&mut self) -> Result<Obs, String> {
        let mut o = vec![];
        for p in &self.meta.outputs {
            let v = self.sim.get(&p.name).ok_or_else(|| format!("veryl simulator has no port {}", p.name))?;
            o.push(value_bits(&v, p.width));
        }
        Ok(o)
    }
    fn cycle(&mut self, letter: u32) -> Result<(Obs, Option<Obs>), String> {
        if letter == RESET_LETTER {
            self.drive(0);
            let pre = self.observe()?;
            self.reset();
            return Ok((pre, Some(self.observe()?)));
        }
        self.drive(letter);
        let pre = self.observe()?;
        if let Some(c) = &self.clk {
            self.sim.step(c);
            Ok((pre, Some(self.observe()?)))
        } else {
            Ok((pre, None))
        }
    }
}

#[derive(Default, Clone)]
pub struct ThirdStats {
    pub edges_covered: u64,
    pub edges_total: u64,
    pub flat_sequences: u64,
    pub rebuilds: u64,
    pub capped: bool,
    pub masked: u64,
    pub disagreement: Option<Value>,
}

fn third_cmp(meta: &Meta, a: &CycleObs, v: &(Obs, Option<Obs>), path: &[u32], ts: &mut ThirdStats) {
    let check = |phase: &str, x: &Obs, y: &Obs, ts: &mut ThirdStats| {
        if let Some(i) = sveq::first_diff(x, y, &mut ts.masked, false) {
            if ts.disagreement.is_none() {
                ts.disagreement = Some(json!({"phase": phase, "port": meta.outputs[i].name, "letters": path, "original_on_R2": x, "veryl_simulator_on_translation": y}));
            }
        }
    };
    check("before the clock edge", &a.0, &v.0, ts);
    if let (Some((post, _)), Some(vp)) = (&a.1, &v.1) {
        check("after the active clock edge", post, vp, ts);
    }
}

/// Walks the third machine over every explored edge of the product graph.
fn third_machine(fr: &Front, top: &str, meta: &Meta, g: &Graph, flat: &[(Vec<u32>, Vec<CycleObs>)], max_rebuilds: u64) -> Result<ThirdStats, String> {
    let mut ts = ThirdStats::default();
    let has_reset = meta.reset.is_some() && meta.clock.is_some();
    let fresh = |ts: &mut ThirdStats| -> Result<VSim, String> {
        let mut v = VSim::new(fr.new_sim(top)?, meta)?;
        v.init();
        if meta.reset.is_some() {
            v.reset();
        }
        ts.rebuilds += 1;
        Ok(v)
    };
    let mut v = fresh(&mut ts)?;
    {
        let o = v.observe()?;
        if let Some(i) = sveq::first_diff(&g.root_obs, &o, &mut ts.masked, false) {
            ts.disagreement = Some(json!({"phase": "right after reset", "port": meta.outputs[i].name, "letters": [], "original_on_R2": g.root_obs, "veryl_simulator_on_translation": o}));
        }
    }
    let nl = g.letters.len();
    let mut covered: Vec<Vec<bool>> = g.nodes.iter().map(|n| n.next.iter().map(|x| x.is_none()).collect()).collect();
    let mut remaining: u64 = covered.iter().map(|c| c.iter().filter(|x| !**x).count() as u64).sum();
    ts.edges_total = remaining;
    let mut cur = 0usize;
    let mut history: Vec<u32> = vec![];
    while remaining > 0 {
        // nearest node with an uncovered edge
        let mut prev: Vec<Option<(usize, usize)>> = vec![None; g.nodes.len()];
        let mut visited = vec![false; g.nodes.len()];
        let mut q = VecDeque::new();
        visited[cur] = true;
        q.push_back(cur);
        let mut target = None;
        while let Some(n) = q.pop_front() {
            if covered[n].iter().any(|x| !*x) {
                target = Some(n);
                break;
            }
            for li in 0..nl {
                if let Some(nx) = g.nodes[n].next[li] {
                    if !visited[nx] {
                        visited[nx] = true;
                        prev[nx] = Some((n, li));
                        q.push_back(nx);
                    }
                }
            }
        }
        let Some(target) = target else {
            if ts.rebuilds > max_rebuilds {
                ts.capped = true;
                break;
            }
            v = fresh(&mut ts)?;
            cur = 0;
            history.clear();
            continue;
        };
        let mut route = vec![];
        let mut n = target;
        while let Some((p, li)) = prev[n] {
            route.push((p, li));
            n = p;
        }
        route.reverse();
        let li = covered[target].iter().position(|x| !*x).unwrap();
        route.push((target, li));
        for (p, li) in route {
            let vo = v.cycle(g.letters[li])?;
            history.push(g.letters[li]);
            third_cmp(meta, &g.obs[&(p, li)], &vo, &history, &mut ts);
            if !covered[p][li] {
                covered[p][li] = true;
                remaining -= 1;
                ts.edges_covered += 1;
            }
            cur = g.nodes[p].next[li].unwrap();
        }
    }
    if has_reset {
        for (path, obs) in flat {
            v.reset();
            for (i, &l) in path.iter().enumerate() {
                let vo = v.cycle(l)?;
                third_cmp(meta, &obs[i], &vo, &path[..=i], &mut ts);
            }
            ts.flat_sequences += 1;
        }
    }
    Ok(ts)
}

// ------------------------------------------------------------------------------------------------
// one case

#[derive(Default)]
pub struct CaseStats {
    pub structured: LegStats,
    pub free: LegStats,
    pub third: Option<ThirdStats>,
    pub third_unavailable: Option<String>,
    pub reduced_alphabet: bool,
}

pub enum Stage {
    /// sv-parser refused the text (generator bug for SF)
    TranslateError(String),
    /// the translator reported unsupported constructs (kinds)
    Unsupported(Vec<String>),
    ParseFail { token: String, msg: String },
    AnalyzeFail { codes: Vec<String>, msgs: Vec<String> },
    /// clause 1 holds (or only tolerated errors), clause 2 could not be evaluated
    NotComparable(String),
    Compared(Box<CaseStats>),
}

pub struct CaseResult {
    pub stage: Stage,
    /// tolerated analyzer errors seen (reported as a violation of clause 1 as well)
    pub tolerated_errors: Vec<String>,
    pub ports_mismatch: Option<String>,
    pub emitted_invalid: Option<String>,
    pub behaviour: Option<Mismatch>,
    pub machinery: Option<String>,
    pub veryl: Option<String>,
    /// the retyped copy the comparison ran on (only with tolerated errors)
    pub retyped: Option<String>,
    pub emitted: Option<String>,
}

pub struct Bounds {
    pub max_states: usize,
    pub max_free_states: usize,
    pub flat_len: usize,
    pub use_jit: bool,
}

fn meta_of(c: &SvCase, free_bits: Option<Vec<usize>>) -> Meta {
    Meta { inputs: c.inputs.clone(), outputs: c.outputs.clone(), clock: c.clock.clone(), reset: c.reset.clone(), free_bits }
}

fn unexpected_token(msg: &str) -> String {
    // "Unexpected token: 'X'"
    if let Some(i) = msg.find("Unexpected token: '") {
        let rest = &msg[i + 19..];
        if let Some(j) = rest.rfind('\'') {
            return rest[..j].to_string();
        }
    }
    msg.chars().take(40).collect()
}

/// Must be called on a fresh thread.
pub fn run_case(c: &SvCase, b: &Bounds) -> CaseResult {
    let mut res = CaseResult { stage: Stage::NotComparable(String::new()), tolerated_errors: vec![], ports_mismatch: None, emitted_invalid: None, behaviour: None, machinery: None, veryl: None, retyped: None, emitted: None };
    let tr = match translate(&c.sv) {
        Ok(t) => t,
        Err(e) => {
            res.stage = Stage::TranslateError(e);
            return res;
        }
    };
    res.veryl = Some(tr.veryl.clone());
    if !tr.unsupported.is_empty() {
        let mut kinds = tr.unsupported.clone();
        kinds.sort();
        kinds.dedup();
        res.stage = Stage::Unsupported(kinds);
        return res;
    }
    let mut fr = match front(&tr.veryl, b.use_jit) {
        Ok(f) => f,
        Err(msg) => {
            res.stage = Stage::ParseFail { token: unexpected_token(&msg), msg };
            return res;
        }
    };
    let mut hard: Vec<&(String, String)> = vec![];
    for e in &fr.errors {
        if TOLERATED.contains(&e.0.as_str()) {
            if !res.tolerated_errors.contains(&e.0) {
                res.tolerated_errors.push(e.0.clone());
            }
        } else {
            hard.push(e);
        }
    }
    res.tolerated_errors.sort();
    if !hard.is_empty() {
        let codes: BTreeSet<String> = hard.iter().map(|e| e.0.clone()).collect();
        res.stage = Stage::AnalyzeFail { codes: codes.into_iter().collect(), msgs: hard.iter().map(|e| format!("{}: {}", e.0, e.1)).take(6).collect() };
        return res;
    }
    if !res.tolerated_errors.is_empty() {
        let retyped = retype_clock_reset(&tr.veryl);
        res.retyped = Some(retyped.clone());
        fr = match front(&retyped, b.use_jit) {
            Ok(f) => f,
            Err(msg) => {
                res.stage = Stage::NotComparable(format!("retyped text does not parse: {}", msg.lines().next().unwrap_or("")));
                return res;
            }
        };
        if !fr.errors.is_empty() {
            let codes: BTreeSet<String> = fr.errors.iter().map(|e| e.0.clone()).collect();
            res.stage = Stage::NotComparable(format!("retyped text still has analyzer errors: {}", codes.into_iter().collect::<Vec<_>>().join("+")));
            return res;
        }
    }
    let Some(emitted) = fr.sv.clone() else {
        res.stage = Stage::NotComparable("no emitted text".into());
        return res;
    };
    res.emitted = Some(emitted.clone());

    // clause 2
    let mut free_bits = None;
    let total: usize = c.inputs.iter().map(|p| p.width).sum();
    let mut reduced = false;
    if total > 6 {
        // reduced alphabet (fixtures only): at most 6 free bits, spread round-robin
        let mut f = vec![0usize; c.inputs.len()];
        let mut left = 6usize;
        'outer: loop {
            let mut progress = false;
            for (i, p) in c.inputs.iter().enumerate() {
                if left == 0 {
                    break 'outer;
                }
                if f[i] < p.width {
                    f[i] += 1;
                    left -= 1;
                    progress = true;
                }
            }
            if !progress {
                break;
            }
        }
        free_bits = Some(f);
        reduced = true;
    }
    let meta = meta_of(c, free_bits);
    let mut a = match RM::new(&[c.sv.clone()], &c.top, &meta) {
        Ok(a) => a,
        Err(RmErr::Sv(SvError::Unsupported(s))) => {
            res.stage = Stage::NotComparable(format!("R2 unsupported (original): {s}"));
            return res;
        }
        Err(RmErr::Sv(e)) => {
            res.stage = Stage::NotComparable(format!("R2 cannot elaborate the original: {e}"));
            if c.origin != "fixture" {
                res.machinery = Some(format!("R2 cannot elaborate the original text of {}: {e}", c.id));
            }
            return res;
        }
        Err(RmErr::Port(e)) => {
            res.stage = Stage::NotComparable(format!("case description does not match the original: {e}"));
            res.machinery = Some(format!("{}: case description does not match the original: {e}", c.id));
            return res;
        }
    };
    let top_b = format!("{PRJ}_{}", c.top);
    let mut bm = match RM::new(&[emitted.clone()], &top_b, &meta) {
        Ok(x) => x,
        Err(RmErr::Port(e)) => {
            res.ports_mismatch = Some(e);
            res.stage = Stage::NotComparable("port list changed".into());
            return res;
        }
        Err(RmErr::Sv(SvError::Unsupported(s))) => {
            res.stage = Stage::NotComparable(format!("R2 unsupported (emitted translation): {s}"));
            return res;
        }
        Err(RmErr::Sv(e)) => {
            // the original elaborates, the text veryl emits for its translation does not (unknown
            // identifier, width error ...): the emitted SystemVerilog cannot behave like the original
            res.emitted_invalid = Some(e.to_string());
            res.stage = Stage::NotComparable("emitted translation is not valid SystemVerilog for R2".into());
            return res;
        }
    };
    let mut st = CaseStats { reduced_alphabet: reduced, ..Default::default() };
    let mut first: Option<Mismatch> = None;
    let run = (|| -> Result<(Graph, Vec<(Vec<u32>, Vec<CycleObs>)>), SvError> {
        let g = sveq::explore_structured(&mut a, &mut bm, b.max_states, &mut st.structured, &mut first)?;
        let flat = if meta.clock.is_some() && b.flat_len > 0 {
            let len = if meta.letter_bits() >= 4 { b.flat_len } else { b.flat_len + 1 };
            sveq::flat_sequences(&mut a, &mut bm, &g, len, &mut st.structured, &mut first)?
        } else {
            vec![]
        };
        if meta.clock.is_some() {
            // fresh machines for the free leg (time 0 state)
            let mut a2 = RM::new(&[c.sv.clone()], &c.top, &meta).map_err(|_| SvError::Runtime("re-elaboration".into()))?;
            let mut b2 = RM::new(&[emitted.clone()], &top_b, &meta).map_err(|_| SvError::Runtime("re-elaboration".into()))?;
            sveq::explore_free(&mut a2, &mut b2, b.max_free_states, &mut st.free, &mut first)?;
        }
        Ok((g, flat))
    })();
    let (g, flat) = match run {
        Ok(x) => x,
        Err(SvError::Unsupported(s)) => {
            res.stage = Stage::NotComparable(format!("R2 unsupported at run time: {s}"));
            return res;
        }
        Err(e) => {
            res.stage = Stage::NotComparable(format!("R2 run-time error: {e}"));
            // an oscillation / run-time error of the ORIGINAL would be a generator or R2 problem
            res.machinery = Some(format!("R2 run-time error on {}: {e}", c.id));
            return res;
        }
    };
    res.behaviour = first;
    // third machine
    match third_machine(&fr, &c.top, &meta, &g, &flat, 64) {
        Ok(ts) => st.third = Some(ts),
        Err(e) => st.third_unavailable = Some(e.chars().take(100).collect()),
    }
    res.stage = Stage::Compared(Box::new(st));
    res
}

// ------------------------------------------------------------------------------------------------
// work items

#[derive(Clone)]
pub enum Work {
    Sv(SvCase),
    RoundTrip(DesignCase, ClockType, ResetType),
}

impl Work {
    fn id(&self) -> String {
        match self {
            Work::Sv(c) => c.id.clone(),
            Work::RoundTrip(d, c, r) => format!("rt.{}[{}]", d.id, c01::cfg_name(*c, *r)),
        }
    }
}

/// Emits the DF member with the real emitter under (clock, reset) and describes the emitted text
/// as an SvCase. Must run on a fresh thread.
fn roundtrip_case(d: &DesignCase, clock: ClockType, reset: ResetType) -> Result<SvCase, String> {
    let an = match c01::analyze_emit(&d.src, clock, reset, true) {
        Ok(a) => a,
        Err(c01::BuildError::Rejected(s)) | Err(c01::BuildError::SimUnsupported(s)) => return Err(s),
    };
    let clk = d.clock.as_ref().map(|(n, k)| {
        let rising = match k {
            ClkKind::Default => clock == ClockType::PosEdge,
            ClkKind::Pos => true,
            ClkKind::Neg => false,
        };
        (n.clone(), rising)
    });
    let rst = d.reset.as_ref().map(|(n, k)| {
        let (high, asy) = match k {
            RstKind::Default => (matches!(reset, ResetType::AsyncHigh | ResetType::SyncHigh), matches!(reset, ResetType::AsyncHigh | ResetType::AsyncLow)),
            RstKind::AsyncHigh => (true, true),
            RstKind::AsyncLow => (false, true),
            RstKind::SyncHigh => (true, false),
            RstKind::SyncLow => (false, false),
        };
        (n.clone(), high, asy)
    });
    Ok(SvCase {
        id: format!("rt.{}[{}]", d.id, c01::cfg_name(clock, reset)),
        class: format!("rt.{}", d.class),
        origin: "roundtrip".into(),
        core: d.core,
        sv: an.sv.clone(),
        top: "prj_Top".into(),
        inputs: d.inputs.clone(),
        outputs: d.outputs.clone(),
        clock: clk,
        reset: rst,
    })
}

/// `module NAME` occurrences of a text (outside comments is not checked: fixtures are tame)
fn module_names(sv: &str) -> Vec<String> {
    let mut out = vec![];
    for line in sv.lines() {
        let t = line.trim_start();
        if let Some(rest) = t.strip_prefix("module ") {
            let name: String = rest.chars().take_while(|c| c.is_ascii_alphanumeric() || *c == '_').collect();
            if !name.is_empty() {
                out.push(name);
            }
        }
    }
    out
}

/// `@(posedge clk or negedge rst)` -> clock (name, rising), async reset (name, active high)
fn sensitivity(sv: &str) -> (Option<(String, bool)>, Option<(String, bool)>) {
    let Some(i) = sv.find("@(") else { return (None, None) };
    let Some(j) = sv[i..].find(')') else { return (None, None) };
    let inner = &sv[i + 2..i + j];
    let mut evs = vec![];
    for part in inner.split(|c| c == ',').flat_map(|p| p.split(" or ")) {
        let w: Vec<&str> = part.split_whitespace().collect();
        if w.len() == 2 && (w[0] == "posedge" || w[0] == "negedge") {
            evs.push((w[1].to_string(), w[0] == "posedge"));
        }
    }
    (evs.first().cloned(), evs.get(1).cloned())
}

fn fixture_cases() -> (Vec<SvCase>, Vec<String>) {
    let dir = repo_root().join("crates/translator/tests/fixtures");
    let mut files: Vec<std::path::PathBuf> = std::fs::read_dir(&dir).map(|r| r.flatten().map(|e| e.path()).filter(|p| p.extension().map(|e| e == "sv").unwrap_or(false)).collect()).unwrap_or_default();
    files.sort();
    let mut out = vec![];
    let mut notes = vec![];
    for f in files {
        let Ok(sv) = std::fs::read_to_string(&f) else { continue };
        let stem = f.file_stem().unwrap().to_string_lossy().to_string();
        let names = module_names(&sv);
        if names.is_empty() {
            notes.push(format!("fixture {stem}: no module"));
        }
        for top in names {
            // ports from R2 (if it can elaborate this top); otherwise clause 1 only
            let (mut ins, mut outs) = (vec![], vec![]);
            let (clk, rst) = sensitivity(&sv);
            let mut clock = None;
            let mut reset = None;
            if let Ok(d) = vmc_refmodels::svref::Design::elaborate(&[sv.clone()], &top) {
                for p in d.ports() {
                    let port = Port { name: p.name.clone(), width: p.width, signed: p.signed };
                    match p.dir {
                        vmc_refmodels::svref::PortDir::Input => {
                            if clk.as_ref().map(|c| c.0 == p.name).unwrap_or(false) {
                                clock = clk.clone();
                            } else if rst.as_ref().map(|c| c.0 == p.name).unwrap_or(false) {
                                reset = rst.clone().map(|(n, h)| (n, h, true));
                            } else if p.name == "clk" && p.width == 1 && clk.is_none() {
                                // unused clock input
                                ins.push(port);
                            } else {
                                ins.push(port);
                            }
                        }
                        vmc_refmodels::svref::PortDir::Output => outs.push(port),
                    }
                }
            }
            out.push(SvCase { id: format!("fixture.{stem}.{top}"), class: format!("fixture.{stem}"), origin: "fixture".into(), core: true, sv: sv.clone(), top, inputs: ins, outputs: outs, clock, reset });
        }
    }
    (out, notes)
}

// ------------------------------------------------------------------------------------------------
// signatures

/// symptom used to group round-trip findings: the translation contains an `always_*` block whose body vanished
fn empty_always(veryl: &str) -> bool {
    veryl.lines().any(|l| {
        let t = l.trim();
        (t.starts_with("always_comb") || t.starts_with("always_ff")) && t.ends_with("{}")
    })
}

fn scope(c: &SvCase) -> String {
    c.class.clone()
}

fn case_json(c: &SvCase, res: &CaseResult) -> Value {
    json!({
        "case": serde_json::to_value(c).unwrap(),
        "translated_veryl": res.veryl,
        "retyped_veryl_used_for_the_comparison": res.retyped,
        "emitted_sv_of_translation": res.emitted,
        "how": "veryl_translator::translate_str(sv, format=true); parse+analyze with Metadata::create_default; Emitter; R2(original, top) vs R2(emitted, t_<top>)",
        "letter_encoding": "data inputs packed LSB-first in declaration order; 65536 = reset phase again; free leg: 131072 = toggle clock, 262144 = toggle reset",
    })
}

fn violations_of(c: &SvCase, res: &CaseResult) -> Vec<Violation> {
    let mut v = vec![];
    let sc = scope(c);
    let rt = c.origin == "roundtrip";
    let after = if res.tolerated_errors.is_empty() { "" } else { "-after-retyping" };
    match &res.stage {
        Stage::ParseFail { token, msg } => {
            let sig = if rt { format!("C22:roundtrip:veryl-parse:'{token}'") } else { format!("C22:{sc}:veryl-parse") };
            v.push(Violation {
                signature: sig,
                what: format!("translated Veryl of {} does not parse ({}) although the translator reported nothing unsupported", c.id, msg.lines().next().unwrap_or("")),
                case: case_json(c, res),
                expected: json!("the produced Veryl parses"),
                observed: json!({"parser_error": msg, "unexpected_token": token}),
            });
        }
        Stage::AnalyzeFail { codes, msgs } => {
            let sig = if rt { format!("C22:roundtrip:analyze:{}", codes.join("+")) } else { format!("C22:{sc}:analyze:{}", codes.join("+")) };
            v.push(Violation {
                signature: sig,
                what: format!("translated Veryl of {} has analyzer errors [{}] although the translator reported nothing unsupported", c.id, codes.join(", ")),
                case: case_json(c, res),
                expected: json!("zero analyzer errors"),
                observed: json!({"errors": msgs}),
            });
        }
        _ => {}
    }
    if !res.tolerated_errors.is_empty() && !matches!(res.stage, Stage::AnalyzeFail { .. }) {
        // one root cause for every always_ff: the ports used as clock / reset stay plain `logic`
        v.push(Violation {
            signature: format!("C22:always_ff:analyze:{}", res.tolerated_errors.join("+")),
            what: format!("translated Veryl of {} has analyzer errors [{}]: the clock/reset of the translated always_ff is a plain `logic` port", c.id, res.tolerated_errors.join(", ")),
            case: case_json(c, res),
            expected: json!("zero analyzer errors"),
            observed: json!({"errors": res.tolerated_errors}),
        });
    }
    if let Some(p) = &res.ports_mismatch {
        v.push(Violation {
            signature: format!("C22:{sc}:ports{after}"),
            what: format!("the emitted SystemVerilog of the translation of {} does not have the original's port list: {p}", c.id),
            case: case_json(c, res),
            expected: json!("same ports (name, direction, width)"),
            observed: json!(p),
        });
    }
    if let Some(p) = &res.emitted_invalid {
        v.push(Violation {
            signature: format!("C22:{sc}:emitted-sv-invalid{after}"),
            what: format!("the translated Veryl of {} analyses without errors but the SystemVerilog veryl emits for it does not elaborate (the original does): {p}", c.id),
            case: case_json(c, res),
            expected: json!("emitted SystemVerilog that elaborates and behaves like the original"),
            observed: json!(p),
        });
    }
    if let Some(m) = &res.behaviour {
        let meta = meta_of(c, None);
        v.push(Violation {
            signature: if rt && empty_always(res.veryl.as_deref().unwrap_or("")) { format!("C22:roundtrip:behaviour{after}:empty-always-block") } else { format!("C22:{sc}:behaviour{after}") },
            what: format!("translation of {} behaves differently from the original: port {} {} ({} leg) after {:?}{}", c.id, m.port, m.phase, m.leg, m.path, if res.tolerated_errors.is_empty() { "" } else { " [continuation: compared after retyping the always_ff clock/reset ports from `logic` to `clock`/`reset`]" }),
            case: case_json(c, res),
            expected: json!({"side": "R2 on the original SystemVerilog", "obs": m.to_json(&meta)["original"]}),
            observed: json!({"side": "R2 on the SystemVerilog emitted for the translated Veryl", "obs": m.to_json(&meta)["other"], "detail": m.to_json(&meta)}),
        });
    }
    v
}

// ------------------------------------------------------------------------------------------------
// the check

struct Done {
    secs: f64,
    case: Option<SvCase>,
    res: Option<CaseResult>,
    gen_skip: Option<String>,
    panic: Option<String>,
}

pub fn run(ctx: &Ctx) -> Report {
    if std::env::var("VMC_C22_LOUD").is_err() {
        install_quiet_panic_hook();
    }
    let mut rep = Report::new(Level::ModelChecking);
    // development aid: print the raw (unformatted) translation of one file and stop
    if let Ok(f) = std::env::var("VMC_C22_TRANSLATE") {
        let src = std::fs::read_to_string(&f).unwrap_or_default();
        match veryl_translator::translate_str(&src, &f, false, veryl_metadata::NewlineStyle::Auto) {
            Ok(o) => print!("{}", o.veryl),
            Err(e) => eprintln!("{e}"),
        }
        rep.machinery("VMC_C22_TRANSLATE: development aid, no verdict");
        return rep;
    }
    let budget = ctx.budget(40.0, 540.0);
    let thorough = ctx.thorough();
    let only = std::env::var("VMC_C22_ONLY").ok();
    let dump = std::env::var("VMC_C22_DUMP").is_ok();
    let bounds = Bounds { max_states: if thorough { 16384 } else { 2048 }, max_free_states: if thorough { 16384 } else { 2048 }, flat_len: if thorough { 3 } else { 2 }, use_jit: std::env::var("VMC_C22_INTERP").is_err() };

    let mut work: Vec<Work> = vec![];
    // SF: quick runs every template once and the operator / unary cross products (width pairs x
    // signedness) only in their core members; thorough runs everything. The tiers also differ in
    // the round-trip family (core designs x 2 configurations vs all designs x 8), bounds, flat length.
    let mut sfam = sf::family(true);
    if !thorough {
        sfam.retain(|c| c.core || !(c.class.starts_with("op.") || c.class.starts_with("unary.")));
    }
    let sf_n = sfam.len();
    // sequential first (expensive)
    let (fx, fx_notes) = fixture_cases();
    let fx_n = fx.len();
    for c in fx {
        work.push(Work::Sv(c));
    }
    for c in sfam.iter().filter(|c| c.clock.is_some()) {
        work.push(Work::Sv(c.clone()));
    }
    let dfam = df::family(thorough);
    let mut rt_n = 0usize;
    for d in &dfam {
        let cfgs: Vec<(ClockType, ResetType)> = if d.clock.is_none() {
            vec![(ClockType::PosEdge, ResetType::AsyncLow)]
        } else if thorough {
            c01::CLOCKS.iter().flat_map(|c| c01::RESETS.iter().map(move |r| (*c, *r))).collect()
        } else {
            vec![(ClockType::PosEdge, ResetType::AsyncLow), (ClockType::NegEdge, ResetType::SyncHigh)]
        };
        for (c, r) in cfgs {
            if !thorough && d.class.ends_with(".explicit") && c == ClockType::NegEdge {
                continue;
            }
            work.push(Work::RoundTrip(d.clone(), c, r));
            rt_n += 1;
        }
    }
    for c in sfam.iter().filter(|c| c.clock.is_none()) {
        work.push(Work::Sv(c.clone()));
    }
    if let Some(f) = &only {
        work.retain(|w| w.id().contains(f.as_str()));
    }
    // sequential round-trip members before combinational ones
    work.sort_by_key(|w| match w {
        Work::Sv(c) => (if c.origin == "fixture" { 0 } else if c.clock.is_some() { 1 } else { 3 }, 0),
        Work::RoundTrip(d, _, _) => (if d.clock.is_some() { 2 } else { 4 }, 0),
    });
    if ctx.seed != 0 && !work.is_empty() {
        let n = work.len();
        work.rotate_left((ctx.seed as usize) % n);
    }

    let not_run = Mutex::new(0u64);
    let results: Vec<Option<Done>> = par_map(&work, |w| {
        if ctx.elapsed() > budget {
            *not_run.lock().unwrap() += 1;
            return None;
        }
        let w2 = w.clone();
        let t0 = std::time::Instant::now();
        let b = Bounds { max_states: bounds.max_states, max_free_states: bounds.max_free_states, flat_len: bounds.flat_len, use_jit: bounds.use_jit };
        let r = run_isolated(64 << 20, move || {
            let case = match &w2 {
                Work::Sv(c) => c.clone(),
                Work::RoundTrip(d, c, r) => match roundtrip_case(d, *c, *r) {
                    Ok(c) => c,
                    Err(e) => return (None, None, Some(e)),
                },
            };
            let res = run_case(&case, &b);
            (Some(case), Some(res), None)
        });
        Some(match r {
            Ok((case, res, gen_skip)) => Done { secs: t0.elapsed().as_secs_f64(), case, res, gen_skip, panic: None },
            Err(p) => Done { secs: 0.0, case: None, res: None, gen_skip: None, panic: Some(format!("panic while checking {}: {p} at {:?}", w.id(), take_panic_loc())) },
        })
    });

    // aggregation
    let mut machinery: Vec<String> = vec![];
    let mut skipped: BTreeMap<String, u64> = BTreeMap::new();
    let mut skipped_examples: BTreeMap<String, String> = BTreeMap::new();
    let mut unsupported: BTreeMap<String, u64> = BTreeMap::new();
    let mut class_outcomes: BTreeMap<String, BTreeMap<String, u64>> = BTreeMap::new();
    let mut by_origin: BTreeMap<String, BTreeMap<String, u64>> = BTreeMap::new();
    let mut parse_tokens: BTreeMap<String, u64> = BTreeMap::new();
    let mut analyze_codes: BTreeMap<String, u64> = BTreeMap::new();
    let mut third_notes: Vec<Value> = vec![];
    let mut third_unavail: BTreeMap<String, u64> = BTreeMap::new();
    let (mut translated, mut clean, mut compared, mut nontrivial, mut seq_compared) = (0u64, 0u64, 0u64, 0u64, 0u64);
    let (mut states, mut transitions, mut flat, mut obs, mut masked, mut distinct, mut max_depth, mut capped_cases) = (0u64, 0u64, 0u64, 0u64, 0u64, 0u64, 0u64, 0u64);
    let (mut fstates, mut ftransitions) = (0u64, 0u64);
    let (mut third_cases, mut third_edges, mut third_flat, mut third_disagree, mut third_capped) = (0u64, 0u64, 0u64, 0u64, 0u64);
    let mut reduced_alphabet = 0u64;
    let mut sampled: HashSet<String> = HashSet::new();
    for (w, done) in work.iter().zip(results) {
        let Some(done) = done else { continue };
        if let Some(p) = done.panic {
            machinery.push(p);
            continue;
        }
        if let Some(e) = done.gen_skip {
            let key: String = format!("round trip: DF member not emitted: {}", e.chars().take(70).collect::<String>());
            *skipped.entry(key.clone()).or_default() += 1;
            skipped_examples.entry(key).or_insert_with(|| w.id());
            continue;
        }
        let secs = done.secs;
        let (Some(c), Some(res)) = (done.case, done.res) else { continue };
        for v in violations_of(&c, &res) {
            rep.violation(v);
        }
        if let Some(m) = &res.machinery {
            machinery.push(m.clone());
        }
        let outcome: String = match &res.stage {
            Stage::TranslateError(e) => {
                let key = format!("sv-parser rejects the text: {}", e.chars().take(60).collect::<String>());
                *skipped.entry(key.clone()).or_default() += 1;
                skipped_examples.entry(key).or_insert_with(|| c.id.clone());
                "skipped:sv-parser".into()
            }
            Stage::Unsupported(kinds) => {
                for k in kinds {
                    *unsupported.entry(k.clone()).or_default() += 1;
                }
                format!("unsupported:{}", kinds.join("+"))
            }
            Stage::ParseFail { token, .. } => {
                translated += 1;
                *parse_tokens.entry(token.clone()).or_default() += 1;
                "veryl-parse".into()
            }
            Stage::AnalyzeFail { codes, .. } => {
                translated += 1;
                for k in codes {
                    *analyze_codes.entry(k.clone()).or_default() += 1;
                }
                format!("analyze:{}", codes.join("+"))
            }
            Stage::NotComparable(why) => {
                translated += 1;
                if res.tolerated_errors.is_empty() {
                    clean += 1;
                }
                for k in &res.tolerated_errors {
                    *analyze_codes.entry(k.clone()).or_default() += 1;
                }
                if res.ports_mismatch.is_some() {
                    "ports".into()
                } else if res.emitted_invalid.is_some() {
                    "emitted-sv-invalid".into()
                } else {
                    let key = format!("clause 2 not evaluated: {}", why.chars().take(70).collect::<String>());
                    *skipped.entry(key.clone()).or_default() += 1;
                    skipped_examples.entry(key).or_insert_with(|| c.id.clone());
                    "not-comparable".into()
                }
            }
            Stage::Compared(st) => {
                translated += 1;
                if res.tolerated_errors.is_empty() {
                    clean += 1;
                }
                for k in &res.tolerated_errors {
                    *analyze_codes.entry(k.clone()).or_default() += 1;
                }
                compared += 1;
                if c.clock.is_some() {
                    seq_compared += 1;
                }
                let s = &st.structured;
                states += s.states;
                transitions += s.transitions;
                flat += s.flat_sequences;
                obs += s.observations + st.free.observations;
                masked += s.masked + st.free.masked;
                let dn = s.distinct_outputs.len() as u64;
                distinct += dn;
                max_depth = max_depth.max(s.max_depth).max(st.free.max_depth);
                fstates += st.free.states;
                ftransitions += st.free.transitions;
                if s.capped || st.free.capped {
                    capped_cases += 1;
                }
                if st.reduced_alphabet {
                    reduced_alphabet += 1;
                }
                if dn >= 2 {
                    nontrivial += 1;
                }
                match (&st.third, &st.third_unavailable) {
                    (Some(ts), _) => {
                        third_cases += 1;
                        third_edges += ts.edges_covered;
                        third_flat += ts.flat_sequences;
                        if ts.capped {
                            third_capped += 1;
                        }
                        if let Some(d) = &ts.disagreement {
                            // only the third machine disagrees (or all three): a note for triage
                            if res.behaviour.is_none() {
                                third_disagree += 1;
                                if third_notes.len() < 12 {
                                    third_notes.push(json!({"case": c.id, "disagreement": d}));
                                }
                            }
                        }
                    }
                    (None, Some(why)) => {
                        *third_unavail.entry(why.clone()).or_default() += 1;
                    }
                    _ => {}
                }
                if !sampled.contains(&c.class) && sampled.len() < 8 && (c.clock.is_some() || sampled.len() < 2) {
                    sampled.insert(c.class.clone());
                    rep.sample(json!({"case": c.id, "states": s.states, "transitions": s.transitions, "flat_sequences": s.flat_sequences, "free_leg_states": st.free.states, "free_leg_transitions": st.free.transitions,
                        "distinct_output_vectors": dn, "x_bits_masked": s.masked + st.free.masked, "third_machine_edges": st.third.as_ref().map(|t| t.edges_covered), "equal": res.behaviour.is_none()}));
                }
                if res.behaviour.is_some() {
                    "behaviour".into()
                } else if !res.tolerated_errors.is_empty() {
                    "analyze:tolerated-only".into()
                } else {
                    "ok".into()
                }
            }
        };
        *class_outcomes.entry(c.class.clone()).or_default().entry(outcome.clone()).or_default() += 1;
        let o2 = outcome.split(':').next().unwrap_or("").to_string();
        *by_origin.entry(c.origin.clone()).or_default().entry(o2).or_default() += 1;
        if dump || only.is_some() {
            eprintln!("==== {} -> {outcome} [{secs:.2}s]{}", c.id, if res.tolerated_errors.is_empty() { String::new() } else { format!(" (+{})", res.tolerated_errors.join("+")) });
            if dump {
                eprintln!("--- original\n{}--- veryl\n{}--- emitted\n{}", c.sv, res.veryl.clone().unwrap_or_default(), res.emitted.clone().unwrap_or_default());
            }
            match &res.stage {
                Stage::ParseFail { msg, .. } => eprintln!("    parse: {}", msg.lines().next().unwrap_or("")),
                Stage::AnalyzeFail { msgs, .. } => eprintln!("    analyze: {}", msgs.join(" | ")),
                Stage::NotComparable(w) => eprintln!("    not comparable: {w} {:?}", res.ports_mismatch),
                Stage::Compared(st) => {
                    if let Some(m) = &res.behaviour {
                        eprintln!("    MISMATCH {} {} {} path={:?} a={:?} b={:?}", m.leg, m.phase, m.port, m.path, m.a, m.b);
                    }
                    if let Some(t) = &st.third {
                        if let Some(d) = &t.disagreement {
                            eprintln!("    THIRD: {d}");
                        }
                    }
                    if let Some(u) = &st.third_unavailable {
                        eprintln!("    third unavailable: {u}");
                    }
                }
                _ => {}
            }
        }
    }
    let not_run = *not_run.lock().unwrap();
    let skipped_total: u64 = skipped.values().sum();
    let unsupported_total: u64 = by_origin.values().map(|m| m.get("unsupported").copied().unwrap_or(0)).sum();
    rep.set("family_sf", sf_n as u64);
    rep.set("family_roundtrip", rt_n as u64);
    rep.set("family_fixture_modules", fx_n as u64);
    rep.set("modules_planned", work.len() as u64);
    rep.set("modules_not_run_budget", not_run);
    rep.set("modules_skipped_unsupported", unsupported_total);
    rep.set("unsupported_by_reason", json!(unsupported));
    rep.set("modules_translated", translated);
    rep.set("modules_analysed_clean", clean);
    rep.set("modules_compared", compared);
    rep.set("modules_compared_sequential", seq_compared);
    rep.set("skipped", skipped_total);
    rep.set("skipped_reasons", json!(skipped));
    rep.set("skipped_examples", json!(skipped_examples));
    rep.set("veryl_parse_failures_by_token", json!(parse_tokens));
    rep.set("analyzer_errors_by_code", json!(analyze_codes));
    rep.set("outcomes_by_origin", json!(by_origin));
    rep.set("class_outcomes", json!(class_outcomes));
    rep.set("states", states + fstates);
    rep.set("transitions", transitions + ftransitions);
    rep.set("structured_leg_states", states);
    rep.set("structured_leg_transitions", transitions);
    rep.set("free_leg_states", fstates);
    rep.set("free_leg_transitions", ftransitions);
    rep.set("flat_sequences_no_dedup", flat);
    rep.set("traces_validated_against_impl", transitions + ftransitions + flat);
    rep.set("observations_compared", obs);
    rep.set("distinct_output_vectors", distinct);
    rep.set("nontrivial_cases", nontrivial);
    rep.set("x_bits_masked", masked);
    rep.set("max_bfs_depth", max_depth);
    rep.set("cases_state_capped", capped_cases);
    rep.set("cases_reduced_alphabet", reduced_alphabet);
    rep.set("third_machine_cases", third_cases);
    rep.set("third_machine_edges_walked", third_edges);
    rep.set("third_machine_flat_sequences", third_flat);
    rep.set("third_machine_only_disagreements", third_disagree);
    rep.set("third_machine_walk_capped", third_capped);
    rep.set("third_machine_unavailable", json!(third_unavail));
    rep.set("max_states_per_case", bounds.max_states as u64);
    rep.set("flat_len", bounds.flat_len as u64);
    rep.set("exhaustive", not_run == 0 && capped_cases == 0 && reduced_alphabet == 0 && third_capped == 0);
    rep.set("budget_s", budget);
    {
        // every violation signature with its number of cases and one example (core.rs prints only the first 20)
        let mut sigs: BTreeMap<String, (u64, String)> = BTreeMap::new();
        for v in &rep.violations {
            let e = sigs.entry(v.signature.clone()).or_insert((0, v.case["case"]["id"].as_str().unwrap_or("").to_string()));
            e.0 += 1;
        }
        rep.set("violation_signatures", json!(sigs.iter().map(|(k, (n, ex))| json!({"signature": k, "cases": n, "example": ex})).collect::<Vec<_>>()));
    }
    for n in fx_notes {
        rep.notes.push(n);
    }
    for n in third_notes {
        rep.notes.push(format!("third machine alone disagrees (not a C22 violation; C01's subject or an R2 issue to triage): {n}"));
    }
    rep.assume("R2 (vmc_refmodels::svref) stands in for a standard SystemVerilog simulator on BOTH sides; the real veryl_simulator on the translated Veryl is the third machine that would expose an R2 error common to both sides");
    rep.assume("`[build]` defaults (clock posedge, reset async_low): the translator emits plain `logic` ports and no explicit clock/reset types");
    rep.assume("analyzer errors invalid_clock / invalid_reset are reported as violations of the first clause AND the behavioural comparison still runs past them at library level (the CLI would stop)");
    rep.assume("bits that are x/z on the original side are not compared (count: x_bits_masked); data inputs total <= 4 bits (fixtures: reduced alphabet of 6 free bits, counted)");
    for m in machinery.iter().take(10) {
        rep.machinery(m.clone());
    }
    if machinery.len() > 10 {
        rep.machinery(format!("... and {} more machinery errors", machinery.len() - 10));
    }
    if only.is_none() {
        if translated == 0 {
            rep.machinery("vacuity guard: no module translated");
        } else {
            if compared == 0 {
                rep.machinery("vacuity guard: no translated module reached the behavioural comparison");
            }
            if compared > 0 && nontrivial * 2 < compared {
                rep.machinery(format!("vacuity guard: only {nontrivial} of {compared} compared modules show >= 2 distinct output vectors"));
            }
            if seq_compared == 0 && not_run == 0 {
                rep.machinery("vacuity guard: no sequential module reached the behavioural comparison");
            }
            if unsupported_total == 0 {
                rep.machinery("vacuity guard: the translator never reported an unsupported construct (SF contains initial blocks, non-ANSI headers, while loops ...)");
            }
            let sv_parser_skips: u64 = skipped.iter().filter(|(k, _)| k.starts_with("sv-parser")).map(|(_, v)| *v).sum();
            if sv_parser_skips * 20 > work.len() as u64 {
                rep.machinery(format!("vacuity guard: sv-parser rejects {sv_parser_skips} generated modules (> 5 %)"));
            }
        }
    }
    rep
}

pub fn replay(doc: &Value) -> i32 {
    install_quiet_panic_hook();
    let Ok(c) = serde_json::from_value::<SvCase>(doc["case"]["case"].clone()) else {
        eprintln!("replay: cannot read case.case");
        return 2;
    };
    let r = run_isolated(64 << 20, move || {
        let res = run_case(&c, &Bounds { max_states: 4096, max_free_states: 4096, flat_len: 2, use_jit: std::env::var("VMC_C22_INTERP").is_err() });
        println!("--- original SystemVerilog ---\n{}", c.sv);
        println!("--- translated Veryl ---\n{}", res.veryl.clone().unwrap_or_default());
        println!("--- SystemVerilog emitted for the translation ---\n{}", res.emitted.clone().unwrap_or_default());
        let vs = violations_of(&c, &res);
        for v in &vs {
            println!("MISMATCH {} :: {}\n    expected {}\n    observed {}", v.signature, v.what, v.expected, v.observed);
        }
        match &res.stage {
            Stage::Compared(st) => println!("replay: compared, states={} transitions={} free_states={}", st.structured.states, st.structured.transitions, st.free.states),
            Stage::Unsupported(k) => println!("replay: unsupported {k:?}"),
            Stage::NotComparable(w) => println!("replay: not comparable: {w}"),
            Stage::TranslateError(e) => println!("replay: sv-parser: {e}"),
            _ => {}
        }
        vs.len()
    });
    match r {
        Ok(0) => 0,
        Ok(_) => 1,
        Err(p) => {
            eprintln!("replay panicked: {p}");
            2
        }
    }
}


//! Lock-step comparison of two SystemVerilog texts on the reference interpreter R2
//! (`vmc_refmodels::svref`). Shared by C22 (original vs translated-and-re-emitted SV) and offered
//! to C26 (`sv_equiv_exhaustive`: two emitted forms of the same design).
//!
//! Both machines are R2 instances, so both can be snapshotted: the product state space is explored
//! by a plain explicit-state BFS (key = all variables and edge samples of both machines + last letter).

use super::df::Port;
use serde_json::{Value, json};
use std::collections::{HashMap, HashSet, VecDeque};
use vmc_refmodels::bits::V;
use vmc_refmodels::svref::{self, PortDir, SvError};

/// Pseudo input letter: run the reset phase again (inputs 0, assert together with one active edge, de-assert).
pub const RESET_LETTER: u32 = 1 << 16;

pub type Obs = Vec<String>;
/// (before the edge, Some(after the active edge, after the inactive edge))
pub type CycleObs = (Obs, Option<(Obs, Obs)>);

#[derive(Clone, Debug)]
pub struct Meta {
    pub inputs: Vec<Port>,
    pub outputs: Vec<Port>,
    /// clock port, active edge is the rising one
    pub clock: Option<(String, bool)>,
    /// reset port, active high, asynchronous
    pub reset: Option<(String, bool, bool)>,
    /// number of freely driven bits per input (None = all bits). With fewer free bits than the
    /// port is wide, the top free bit is replicated into the upper bits (reduced alphabet).
    pub free_bits: Option<Vec<usize>>,
}

impl Meta {
    pub fn letter_bits(&self) -> usize {
        match &self.free_bits {
            Some(f) => f.iter().sum(),
            None => self.inputs.iter().map(|p| p.width).sum(),
        }
    }
    /// value of every data input under `letter`
    pub fn decode(&self, letter: u32) -> Vec<u128> {
        let mut sh = 0;
        let mut out = vec![];
        for (i, p) in self.inputs.iter().enumerate() {
            let nb = self.free_bits.as_ref().map(|f| f[i]).unwrap_or(p.width).min(p.width);
            let mut v = ((letter >> sh) as u128) & ((1u128 << nb) - 1);
            sh += nb;
            if nb > 0 && nb < p.width && (v >> (nb - 1)) & 1 == 1 {
                v |= ((1u128 << p.width) - 1) & !((1u128 << nb) - 1);
            }
            out.push(v);
        }
        out
    }
}

pub enum RmErr {
    Sv(SvError),
    /// the text elaborates but its top does not expose the expected port
    Port(String),
}

impl From<SvError> for RmErr {
    fn from(e: SvError) -> RmErr {
        RmErr::Sv(e)
    }
}

pub struct RM {
    pub d: svref::Design,
    pub meta: Meta,
}

fn bit1(b: bool) -> V {
    V::from_u128(b as u128, 1, false)
}

impl RM {
    pub fn new(sv: &[String], top: &str, meta: &Meta) -> Result<RM, RmErr> {
        let mut d = svref::Design::elaborate(sv, top)?;
        d.paranoid = true;
        let want = |name: &str, width: usize, dir: PortDir| -> Result<(), RmErr> {
            let Some(pi) = d.ports().iter().find(|x| x.name == name) else {
                return Err(RmErr::Port(format!("top `{top}` has no port `{name}`")));
            };
            if pi.width != width {
                return Err(RmErr::Port(format!("port `{name}` of `{top}` is {} bits wide, the original is {width}", pi.width)));
            }
            if pi.dir != dir {
                return Err(RmErr::Port(format!("port `{name}` of `{top}` has the wrong direction")));
            }
            Ok(())
        };
        for p in &meta.inputs {
            want(&p.name, p.width, PortDir::Input)?;
        }
        for p in &meta.outputs {
            want(&p.name, p.width, PortDir::Output)?;
        }
        if let Some((n, _)) = &meta.clock {
            want(n, 1, PortDir::Input)?;
        }
        if let Some((n, _, _)) = &meta.reset {
            want(n, 1, PortDir::Input)?;
        }
        Ok(RM { d, meta: meta.clone() })
    }
    pub fn drive(&mut self, letter: u32) -> Result<(), SvError> {
        let vals = self.meta.decode(letter);
        for (p, v) in self.meta.inputs.iter().zip(vals) {
            self.d.set(&p.name, &V::from_u128(v, p.width, false))?;
        }
        Ok(())
    }
    pub fn clock_level(&mut self, active: bool) -> Result<(), SvError> {
        if let Some((n, rising)) = &self.meta.clock {
            let level = if active { *rising } else { !*rising };
            self.d.set(n, &bit1(level))?;
        }
        Ok(())
    }
    pub fn reset_level(&mut self, asserted: bool) -> Result<(), SvError> {
        if let Some((n, high, _)) = &self.meta.reset {
            self.d.set(n, &bit1(asserted == *high))?;
        }
        Ok(())
    }
    /// time 0: clock idle, reset de-asserted, inputs 0
    pub fn init(&mut self) -> Result<(), SvError> {
        self.clock_level(false)?;
        self.reset_level(false)?;
        self.drive(0)?;
        self.d.settle()
    }
    /// reset asserted in the same time step as one active clock edge, clock back to idle, de-assert
    pub fn reset(&mut self) -> Result<(), SvError> {
        self.drive(0)?;
        self.reset_level(true)?;
        self.clock_level(true)?;
        self.d.settle()?;
        self.clock_level(false)?;
        self.d.settle()?;
        self.reset_level(false)?;
        self.d.settle()
    }
    pub fn observe(&self) -> Result<Obs, SvError> {
        let mut o = vec![];
        for p in &self.meta.outputs {
            o.push(self.d.get(&p.name)?.to_string_msb());
        }
        Ok(o)
    }
    pub fn cycle(&mut self, letter: u32) -> Result<CycleObs, SvError> {
        if letter == RESET_LETTER {
            self.drive(0)?;
            self.d.settle()?;
            let pre = self.observe()?;
            self.reset()?;
            let post = self.observe()?;
            return Ok((pre, Some((post.clone(), post))));
        }
        self.drive(letter)?;
        self.d.settle()?;
        let pre = self.observe()?;
        if self.meta.clock.is_some() {
            self.clock_level(true)?;
            self.d.settle()?;
            let post = self.observe()?;
            self.clock_level(false)?;
            self.d.settle()?;
            let idle = self.observe()?;
            Ok((pre, Some((post, idle))))
        } else {
            Ok((pre, None))
        }
    }
}

/// Index of the first output whose bits differ where side `a` is 0/1; `masked` counts x/z bits of
/// side `a` (not compared). With `strict` every bit must be identical, x/z included.
pub fn first_diff(a: &Obs, b: &Obs, masked: &mut u64, strict: bool) -> Option<usize> {
    let mut first = None;
    for (i, (x, y)) in a.iter().zip(b.iter()).enumerate() {
        if x.len() != y.len() {
            return Some(i);
        }
        for (p, q) in x.chars().zip(y.chars()) {
            if !strict && (p == 'x' || p == 'z') {
                *masked += 1;
                continue;
            }
            if p != q && first.is_none() {
                first = Some(i);
            }
        }
    }
    first
}

#[derive(Clone, Debug)]
pub struct Mismatch {
    pub leg: &'static str,
    pub phase: &'static str,
    pub port: String,
    /// letters (structured leg) or events (free leg) from the root state
    pub path: Vec<u32>,
    pub a: Obs,
    pub b: Obs,
}

impl Mismatch {
    pub fn to_json(&self, meta: &Meta) -> Value {
        let names: Vec<&String> = meta.outputs.iter().map(|p| &p.name).collect();
        json!({"leg": self.leg, "phase": self.phase, "port": self.port, "path": self.path, "ports": names, "original": self.a, "other": self.b})
    }
}

#[derive(Default, Clone, Debug)]
pub struct LegStats {
    pub states: u64,
    pub transitions: u64,
    pub max_depth: u64,
    pub capped: bool,
    pub masked: u64,
    pub observations: u64,
    pub mismatching_observations: u64,
    pub flat_sequences: u64,
    pub distinct_outputs: HashSet<[u8; 32]>,
}

impl LegStats {
    fn note(&mut self, o: &Obs) {
        let mut h = blake3::Hasher::new();
        for s in o {
            h.update(s.as_bytes());
            h.update(b",");
        }
        self.distinct_outputs.insert(*h.finalize().as_bytes());
    }
}

pub struct Node {
    pub snap_a: svref::sim::Snapshot,
    pub snap_b: svref::sim::Snapshot,
    pub next: Vec<Option<usize>>,
    pub parent: Option<(usize, usize)>,
    pub depth: u64,
}

/// The explored product graph of the structured leg; `obs[(node, letter index)]` = observations
/// of machine A on that edge.
pub struct Graph {
    pub letters: Vec<u32>,
    pub nodes: Vec<Node>,
    pub obs: HashMap<(usize, usize), CycleObs>,
    pub root_obs: Obs,
}

impl Graph {
    pub fn path_to(&self, mut n: usize) -> Vec<u32> {
        let mut p = vec![];
        while let Some((pn, li)) = self.nodes[n].parent {
            p.push(self.letters[li]);
            n = pn;
        }
        p.reverse();
        p
    }
}

fn hash_key(ka: &[u8], kb: &[u8], last: u32) -> [u8; 32] {
    let mut h = blake3::Hasher::new();
    h.update(&(ka.len() as u64).to_le_bytes());
    h.update(ka);
    h.update(kb);
    h.update(&last.to_le_bytes());
    *h.finalize().as_bytes()
}

struct Cmp<'a> {
    meta: &'a Meta,
    st: &'a mut LegStats,
    first: &'a mut Option<Mismatch>,
    strict: bool,
    leg: &'static str,
}

impl Cmp<'_> {
    fn one(&mut self, phase: &'static str, path: &dyn Fn() -> Vec<u32>, a: &Obs, b: &Obs) {
        self.st.observations += 1;
        self.st.note(a);
        if let Some(i) = first_diff(a, b, &mut self.st.masked, self.strict) {
            self.st.mismatching_observations += 1;
            if self.first.is_none() {
                *self.first = Some(Mismatch { leg: self.leg, phase, port: self.meta.outputs[i].name.clone(), path: path(), a: a.clone(), b: b.clone() });
            }
        }
    }
    fn cycle(&mut self, path: &dyn Fn() -> Vec<u32>, a: &CycleObs, b: &CycleObs) {
        self.one("before the clock edge", path, &a.0, &b.0);
        if let (Some((ap, ai)), Some((bp, bi))) = (&a.1, &b.1) {
            self.one("after the active clock edge", path, ap, bp);
            self.one("after the inactive clock edge", path, ai, bi);
        }
    }
}

/// Structured leg: reset phase, then BFS over the product with every data letter (+ the reset
/// letter when there is a clock and a reset). Both machines must already be constructed.
pub fn explore_structured(a: &mut RM, b: &mut RM, max_states: usize, st: &mut LegStats, first: &mut Option<Mismatch>) -> Result<Graph, SvError> {
    let meta = a.meta.clone();
    let nbits: usize = meta.letter_bits();
    let mut letters: Vec<u32> = (0..(1u32 << nbits)).collect();
    if meta.reset.is_some() && meta.clock.is_some() {
        letters.push(RESET_LETTER);
    }
    let nl = letters.len();
    a.init()?;
    b.init()?;
    if meta.reset.is_some() {
        a.reset()?;
        b.reset()?;
    }
    let (oa, ob) = (a.observe()?, b.observe()?);
    {
        let mut cmp = Cmp { meta: &meta, st: &mut *st, first: &mut *first, strict: false, leg: "structured" };
        cmp.one("right after reset", &Vec::new, &oa, &ob);
    }
    let mut g = Graph { letters: letters.clone(), nodes: vec![], obs: HashMap::new(), root_obs: oa };
    let mut ids: HashMap<[u8; 32], usize> = HashMap::new();
    g.nodes.push(Node { snap_a: a.d.snapshot(), snap_b: b.d.snapshot(), next: vec![None; nl], parent: None, depth: 0 });
    ids.insert(hash_key(&a.d.state_key(), &b.d.state_key(), u32::MAX), 0);
    st.states += 1;
    let mut queue: VecDeque<usize> = VecDeque::new();
    queue.push_back(0);
    'bfs: while let Some(n) = queue.pop_front() {
        for (li, &l) in letters.iter().enumerate() {
            a.d.restore(&g.nodes[n].snap_a);
            b.d.restore(&g.nodes[n].snap_b);
            let ca = a.cycle(l)?;
            let cb = b.cycle(l)?;
            st.transitions += 1;
            {
                let gr = &g;
                let path = move || {
                    let mut p = gr.path_to(n);
                    p.push(l);
                    p
                };
                let mut cmp = Cmp { meta: &meta, st: &mut *st, first: &mut *first, strict: false, leg: "structured" };
                cmp.cycle(&path, &ca, &cb);
            }
            g.obs.insert((n, li), ca);
            let k = hash_key(&a.d.state_key(), &b.d.state_key(), l);
            let id = match ids.get(&k) {
                Some(&id) => id,
                None => {
                    let depth = g.nodes[n].depth + 1;
                    st.max_depth = st.max_depth.max(depth);
                    g.nodes.push(Node { snap_a: a.d.snapshot(), snap_b: b.d.snapshot(), next: vec![None; nl], parent: Some((n, li)), depth });
                    let id = g.nodes.len() - 1;
                    ids.insert(k, id);
                    st.states += 1;
                    if g.nodes.len() >= max_states {
                        st.capped = true;
                        g.nodes[n].next[li] = Some(id);
                        break 'bfs;
                    }
                    queue.push_back(id);
                    id
                }
            };
            g.nodes[n].next[li] = Some(id);
        }
    }
    Ok(g)
}

/// All letter sequences of length `len` from the root of `g`, no deduplication; returns the
/// sequences with machine A's observations (so that a third machine can be run against them).
pub fn flat_sequences(a: &mut RM, b: &mut RM, g: &Graph, len: usize, st: &mut LegStats, first: &mut Option<Mismatch>) -> Result<Vec<(Vec<u32>, Vec<CycleObs>)>, SvError> {
    let meta = a.meta.clone();
    let mut out = vec![];
    let mut stack: Vec<(Vec<u32>, svref::sim::Snapshot, svref::sim::Snapshot, Vec<CycleObs>)> = vec![(vec![], g.nodes[0].snap_a.clone(), g.nodes[0].snap_b.clone(), vec![])];
    while let Some((path, sa, sb, obs)) = stack.pop() {
        if path.len() == len {
            st.flat_sequences += 1;
            out.push((path, obs));
            continue;
        }
        for &l in g.letters.iter().rev() {
            a.d.restore(&sa);
            b.d.restore(&sb);
            let ca = a.cycle(l)?;
            let cb = b.cycle(l)?;
            let mut np = path.clone();
            np.push(l);
            {
                let p2 = np.clone();
                let pf = move || p2.clone();
                let mut cmp = Cmp { meta: &meta, st: &mut *st, first: &mut *first, strict: false, leg: "flat" };
                cmp.cycle(&pf, &ca, &cb);
            }
            let mut no = obs.clone();
            no.push(ca);
            stack.push((np, a.d.snapshot(), b.d.snapshot(), no));
        }
    }
    Ok(out)
}

/// Events of the free leg: `v` < 2^nbits = drive the data inputs with valuation v;
/// `FREE_TOGGLE_CLK` / `FREE_TOGGLE_RST` = invert the clock / reset port. One event per time step
/// (race-free stimulus); every interleaving of events up to the state cap is explored.
pub const FREE_TOGGLE_CLK: u32 = 1 << 17;
pub const FREE_TOGGLE_RST: u32 = 1 << 18;

/// Free leg: no assumption about how clock and reset are used. Root = all inputs 0 at time 0.
pub fn explore_free(a: &mut RM, b: &mut RM, max_states: usize, st: &mut LegStats, first: &mut Option<Mismatch>) -> Result<(), SvError> {
    let meta = a.meta.clone();
    let nbits: usize = meta.letter_bits();
    let mut events: Vec<u32> = (0..(1u32 << nbits)).collect();
    if meta.clock.is_some() {
        events.push(FREE_TOGGLE_CLK);
    }
    if meta.reset.is_some() {
        events.push(FREE_TOGGLE_RST);
    }
    let zero = bit1(false);
    for m in [&mut *a, &mut *b] {
        if let Some((n, _)) = &meta.clock {
            m.d.set(n, &zero)?;
        }
        if let Some((n, _, _)) = &meta.reset {
            m.d.set(n, &zero)?;
        }
        m.drive(0)?;
        m.d.settle()?;
    }
    struct FNode {
        sa: svref::sim::Snapshot,
        sb: svref::sim::Snapshot,
        parent: Option<(usize, u32)>,
        clk: bool,
        rst: bool,
        depth: u64,
    }
    let mut nodes = vec![FNode { sa: a.d.snapshot(), sb: b.d.snapshot(), parent: None, clk: false, rst: false, depth: 0 }];
    let mut seen: HashSet<[u8; 32]> = HashSet::new();
    seen.insert(hash_key(&a.d.state_key(), &b.d.state_key(), 0));
    st.states += 1;
    {
        let (oa, ob) = (a.observe()?, b.observe()?);
        let mut cmp = Cmp { meta: &meta, st: &mut *st, first: &mut *first, strict: false, leg: "free" };
        cmp.one("time 0", &Vec::new, &oa, &ob);
    }
    let mut queue: VecDeque<usize> = VecDeque::new();
    queue.push_back(0);
    'bfs: while let Some(n) = queue.pop_front() {
        for &e in &events {
            a.d.restore(&nodes[n].sa);
            b.d.restore(&nodes[n].sb);
            let (mut clk, mut rst) = (nodes[n].clk, nodes[n].rst);
            for m in [&mut *a, &mut *b] {
                match e {
                    FREE_TOGGLE_CLK => m.d.set(&meta.clock.as_ref().unwrap().0, &bit1(!nodes[n].clk))?,
                    FREE_TOGGLE_RST => m.d.set(&meta.reset.as_ref().unwrap().0, &bit1(!nodes[n].rst))?,
                    v => m.drive(v)?,
                }
                m.d.settle()?;
            }
            match e {
                FREE_TOGGLE_CLK => clk = !clk,
                FREE_TOGGLE_RST => rst = !rst,
                _ => {}
            }
            st.transitions += 1;
            let (oa, ob) = (a.observe()?, b.observe()?);
            {
                let nd = &nodes;
                let path = move || {
                    let mut p = vec![e];
                    let mut c = n;
                    while let Some((pn, pe)) = nd[c].parent {
                        p.push(pe);
                        c = pn;
                    }
                    p.reverse();
                    p
                };
                let mut cmp = Cmp { meta: &meta, st: &mut *st, first: &mut *first, strict: false, leg: "free" };
                cmp.one("after the event", &path, &oa, &ob);
            }
            // the input values are variables of the design, so they are part of the state key
            let k = hash_key(&a.d.state_key(), &b.d.state_key(), 0);
            if seen.insert(k) {
                let depth = nodes[n].depth + 1;
                st.max_depth = st.max_depth.max(depth);
                nodes.push(FNode { sa: a.d.snapshot(), sb: b.d.snapshot(), parent: Some((n, e)), clk, rst, depth });
                st.states += 1;
                if nodes.len() >= max_states {
                    st.capped = true;
                    break 'bfs;
                }
                queue.push_back(nodes.len() - 1);
            }
        }
    }
    Ok(())
}

// ------------------------------------------------------------------------------------------------
// public helper (offered to C26): are two SystemVerilog texts behaviourally equal?

#[allow(dead_code)]
#[derive(Debug, Clone)]
pub struct EquivReport {
    pub input_bits: usize,
    pub states: u64,
    pub transitions: u64,
    pub state_capped: bool,
    pub x_bits_masked: u64,
    pub distinct_output_vectors: u64,
    /// first mismatch (shortest event sequence), None = equivalent on everything explored
    pub mismatch: Option<Value>,
}

/// Exhaustive R2-vs-R2 lock-step of `top_a` in `sv_a` against `top_b` in `sv_b`.
///
/// The port list is taken from `top_a` (`top_b` must expose the same ports). EVERY input port
/// (clocks and resets included) is treated as a plain input: one event = one valuation of ALL input
/// bits (at most 8 bits in total), applied in one time step; BFS over the product state space from
/// "all inputs 0 at time 0" with every valuation as a letter at every reachable product state. For
/// a combinational design this is every input valuation; for a sequential one every waveform.
/// `strict_x = true` demands bit-identical outputs including x/z (two emitted forms of ONE design);
/// `false` masks bits that are x/z on side A.
/// Errors: `Err` = not comparable (R2 `Unsupported`, elaboration error, port lists differ, > 8 input bits).
#[allow(dead_code)]
pub fn sv_equiv_exhaustive(sv_a: &str, top_a: &str, sv_b: &str, top_b: &str, strict_x: bool, max_states: usize) -> Result<EquivReport, String> {
    let mut a = svref::Design::elaborate(&[sv_a.to_string()], top_a).map_err(|e| format!("side A: {e}"))?;
    let mut b = svref::Design::elaborate(&[sv_b.to_string()], top_b).map_err(|e| format!("side B: {e}"))?;
    a.paranoid = true;
    b.paranoid = true;
    let pa: Vec<(String, PortDir, usize)> = a.ports().iter().map(|p| (p.name.clone(), p.dir, p.width)).collect();
    let pb: Vec<(String, PortDir, usize)> = b.ports().iter().map(|p| (p.name.clone(), p.dir, p.width)).collect();
    if pa != pb {
        return Err(format!("port lists differ: {pa:?} vs {pb:?}"));
    }
    let ins: Vec<(String, usize)> = pa.iter().filter(|p| p.1 == PortDir::Input).map(|p| (p.0.clone(), p.2)).collect();
    let outs: Vec<String> = pa.iter().filter(|p| p.1 == PortDir::Output).map(|p| p.0.clone()).collect();
    let nbits: usize = ins.iter().map(|p| p.1).sum();
    if nbits > 8 {
        return Err(format!("{nbits} input bits (> 8)"));
    }
    let drive = |d: &mut svref::Design, letter: u32| -> Result<(), SvError> {
        let mut sh = 0;
        for (n, w) in &ins {
            let v = (letter >> sh) & ((1u32 << w) - 1);
            sh += w;
            d.set(n, &V::from_u128(v as u128, *w, false))?;
        }
        d.settle()
    };
    let observe = |d: &svref::Design| -> Result<Obs, SvError> { outs.iter().map(|n| d.get(n).map(|v| v.to_string_msb())).collect() };
    let e2s = |e: SvError| e.to_string();
    drive(&mut a, 0).map_err(e2s)?;
    drive(&mut b, 0).map_err(e2s)?;
    let mut rep = EquivReport { input_bits: nbits, states: 1, transitions: 0, state_capped: false, x_bits_masked: 0, distinct_output_vectors: 0, mismatch: None };
    let mut distinct: HashSet<Obs> = HashSet::new();
    let mut nodes: Vec<(svref::sim::Snapshot, svref::sim::Snapshot, Option<(usize, u32)>)> = vec![(a.snapshot(), b.snapshot(), None)];
    let mut seen: HashSet<[u8; 32]> = HashSet::new();
    seen.insert(hash_key(&a.state_key(), &b.state_key(), 0));
    let mut queue: VecDeque<usize> = VecDeque::new();
    queue.push_back(0);
    let mut check = |oa: Obs, ob: Obs, n: usize, letter: Option<u32>, nodes: &Vec<(svref::sim::Snapshot, svref::sim::Snapshot, Option<(usize, u32)>)>, rep: &mut EquivReport| {
        if let Some(i) = first_diff(&oa, &ob, &mut rep.x_bits_masked, strict_x) {
            if rep.mismatch.is_none() {
                let mut p: Vec<u32> = letter.into_iter().collect();
                let mut c = n;
                while let Some((pn, pl)) = nodes[c].2 {
                    p.push(pl);
                    c = pn;
                }
                p.reverse();
                rep.mismatch = Some(json!({"port": outs[i], "valuations_after_time0": p, "inputs_lsb_first": ins.iter().map(|x| &x.0).collect::<Vec<_>>(), "outputs": outs, "a": oa, "b": ob}));
            }
        }
        distinct.insert(oa);
    };
    check(observe(&a).map_err(e2s)?, observe(&b).map_err(e2s)?, 0, None, &nodes, &mut rep);
    'bfs: while let Some(n) = queue.pop_front() {
        for l in 0..(1u32 << nbits) {
            a.restore(&nodes[n].0);
            b.restore(&nodes[n].1);
            drive(&mut a, l).map_err(e2s)?;
            drive(&mut b, l).map_err(e2s)?;
            rep.transitions += 1;
            check(observe(&a).map_err(e2s)?, observe(&b).map_err(e2s)?, n, Some(l), &nodes, &mut rep);
            if seen.insert(hash_key(&a.state_key(), &b.state_key(), 0)) {
                nodes.push((a.snapshot(), b.snapshot(), Some((n, l))));
                rep.states += 1;
                if nodes.len() >= max_states {
                    rep.state_capped = true;
                    break 'bfs;
                }
                queue.push_back(nodes.len() - 1);
            }
        }
    }
    drop(check);
    rep.distinct_output_vectors = distinct.len() as u64;
    Ok(rep)
}

#[cfg(test)]
mod tests {
    use super::sv_equiv_exhaustive;

    const A: &str = "module p_Top (input var logic [2-1:0] a, input var logic [2-1:0] b, output var logic y);\n    always_comb y = a inside {2'd1, 2'd2} && !(b inside {[2'd0:2'd1]});\nendmodule\n";
    const B: &str = "module p_Top (input var logic [2-1:0] a, input var logic [2-1:0] b, output var logic y);\n    always_comb y = ((a ==? 2'd1) || (a ==? 2'd2)) && !((b >= 2'd0) && (b <= 2'd1));\nendmodule\n";
    const C: &str = "module p_Top (input var logic [2-1:0] a, input var logic [2-1:0] b, output var logic y);\n    always_comb y = ((a ==? 2'd1) || (a ==? 2'd3)) && !((b >= 2'd0) && (b <= 2'd1));\nendmodule\n";
    const S1: &str = "module s (input var logic clk, input var logic d, output var logic q);\n    always_ff @ (posedge clk) q <= d;\nendmodule\n";
    const S2: &str = "module s (input var logic clk, input var logic d, output var logic q);\n    always_ff @ (negedge clk) q <= d;\nendmodule\n";

    #[test]
    fn equal_forms_of_inside() {
        let r = sv_equiv_exhaustive(A, "p_Top", B, "p_Top", true, 1024).unwrap();
        assert!(r.mismatch.is_none(), "{:?}", r.mismatch);
        assert_eq!(r.input_bits, 4);
        assert_eq!(r.transitions, 16 * 16);
        assert!(r.distinct_output_vectors >= 2);
    }
    #[test]
    fn different_forms_are_caught() {
        let r = sv_equiv_exhaustive(A, "p_Top", C, "p_Top", true, 1024).unwrap();
        assert!(r.mismatch.is_some());
    }
    #[test]
    fn sequential_edge_difference_is_caught() {
        assert!(sv_equiv_exhaustive(S1, "s", S1, "s", true, 1024).unwrap().mismatch.is_none());
        assert!(sv_equiv_exhaustive(S1, "s", S2, "s", false, 1024).unwrap().mismatch.is_some());
    }
}

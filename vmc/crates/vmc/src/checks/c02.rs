//! C02 — all simulator engines produce identical traces.
//!
//! Space: the generated design family DF x every `Config::all()` member (interpreter, Cranelift
//! JIT, cc backend; x disable_ff_opt; 4-state for interpreter/JIT), explored N-way in lock-step by
//! E2 (BFS over all input letters from reset with product-state deduplication + all sequences of
//! length <= L without deduplication).  Plus the native-testbench sub-family (`#[test]` modules
//! with `$tb::clock_gen/reset_gen`, `$display`, `$assert`): `$display` text and verdict per engine.
//! Oracle: every engine must equal the 2-state interpreter; a 4-state engine is excused only on
//! ports (text positions) that carry X/Z.

use super::e2::{self, Bounds, Machine, Outcome, Stats};
use super::gen_df::{self, Design, Scope, TbCase};
use super::simx::{self, VerylSim};
use crate::core::*;
use serde_json::{Value, json};
use std::collections::{BTreeMap, BTreeSet};
use veryl_simulator::Config;

pub struct DesignResult {
    pub id: String,
    pub class: String,
    pub rejected: Option<String>,
    pub not_run: bool,
    pub engines_built: Vec<String>,
    pub engines_skipped: Vec<(String, String)>,
    pub stats: Stats,
    pub violation: Option<Violation>,
    pub machinery: Option<String>,
    pub sample: Option<Value>,
    pub all_engines_panic: Option<String>,
    /// 2-state engines disagreeing where the 4-state interpreter has X/Z (reported separately).
    pub xvalued: Option<Violation>,
}

impl DesignResult {
    fn new(d: &Design) -> DesignResult {
        DesignResult {
            id: d.id.clone(),
            class: d.class.to_string(),
            rejected: None,
            not_run: false,
            engines_built: vec![],
            engines_skipped: vec![],
            stats: Stats::default(),
            violation: None,
            machinery: None,
            sample: None,
            all_engines_panic: None,
            xvalued: None,
        }
    }
}

/// `expr/ashr/w2x2/ss` -> `expr/ashr`
pub fn template_of(id: &str) -> String {
    let id = id.trim_end_matches("@sub");
    let parts: Vec<&str> = id.split('/').collect();
    if parts.first() == Some(&"wide") && parts.len() >= 4 {
        // wide family: operator + signedness (the width is left to the case)
        return format!("wide/{}/{}", parts[1], parts[3]);
    }
    parts.into_iter().take(2).collect::<Vec<_>>().join("/")
}

pub fn design_case(d: &Design, path: &[u32], engines: &[String]) -> Value {
    json!({
        "design_id": d.id,
        "top": d.top,
        "src": d.src,
        "clk": d.clk,
        "rst": d.rst,
        "inputs": d.inputs.iter().map(|p| json!([p.name, p.width])).collect::<Vec<_>>(),
        "outputs": d.outputs.iter().map(|p| p.name.clone()).collect::<Vec<_>>(),
        "stimulus": "all data inputs 0, one clock edge with reset asserted, then one letter per clock edge (letter = concatenated input values, first input = least significant bits)",
        "path": path,
        "engines": engines,
    })
}

pub fn divergence_violation(prop: &str, d: &Design, dv: &e2::Divergence) -> Violation {
    let port = dv.port.and_then(|i| d.outputs.get(i)).map(|p| p.name.clone());
    Violation {
        signature: format!(
            "{prop}:{}!={}:{}:{}",
            dv.machine_b,
            dv.machine_a,
            template_of(&d.id),
            dv.kind
        ),
        what: format!(
            "{} and {} disagree on design {} after {} step(s){}{}",
            dv.machine_a,
            dv.machine_b,
            d.id,
            dv.at,
            port.as_ref().map(|p| format!(" at port {p}")).unwrap_or_default(),
            if dv.reproducible { "" } else { " (NOT reproducible on re-execution)" }
        ),
        case: design_case(d, &dv.path, &[dv.machine_a.clone(), dv.machine_b.clone()]),
        expected: json!({"engine": dv.machine_a, "observation": dv.expected}),
        observed: json!({"engine": dv.machine_b, "observation": dv.observed, "port": port, "kind": dv.kind}),
    }
}

fn guarded_build(ir: &veryl_analyzer::ir::Ir, d: &Design, c: &Config) -> Result<VerylSim, (bool, String)> {
    match std::panic::catch_unwind(std::panic::AssertUnwindSafe(|| VerylSim::build(ir, d, c))) {
        Ok(Ok(m)) => Ok(m),
        Ok(Err(e)) => Err((false, e)),
        Err(p) => Err((true, format!("panic: {} at {}", panic_message(p), take_panic_loc().unwrap_or_default()))),
    }
}

/// Analyses one design, builds one machine per config and explores. Runs on its own thread.
pub fn check_design(prop: &str, d: &Design, configs: &[Config], bounds: &Bounds) -> DesignResult {
    install_quiet_panic_hook();
    let mut res = DesignResult::new(d);
    let ir = match std::panic::catch_unwind(std::panic::AssertUnwindSafe(|| simx::analyze(&d.src))) {
        Ok(Ok(ir)) => ir,
        Ok(Err(e)) => {
            res.rejected = Some(e);
            return res;
        }
        Err(p) => {
            res.rejected = Some(format!("analyzer panic: {}", panic_message(p)));
            return res;
        }
    };
    let mut ms: Vec<Box<dyn Machine>> = vec![];
    let mut panics: Vec<(String, String)> = vec![];
    for c in configs {
        let name = simx::config_name(c);
        match guarded_build(&ir, d, c) {
            Ok(m) => {
                res.engines_built.push(name);
                ms.push(Box::new(m));
            }
            Err((false, e)) => res.engines_skipped.push((name, e)),
            Err((true, e)) => panics.push((name, e)),
        }
    }
    if !panics.is_empty() && ms.is_empty() && res.engines_skipped.is_empty() {
        // every engine panics in the same way: not an engine disagreement (a crash of the
        // simulator front end on an accepted design); counted and listed, not a C02 verdict
        res.all_engines_panic = Some(panics[0].1.clone());
        return res;
    }
    if let Some((name, e)) = panics.first() {
        res.violation = Some(Violation {
            signature: format!("{prop}:panic-build:{name}:{}", template_of(&d.id)),
            what: format!("engine {name} panics while building design {} (other engines build it): {e}", d.id),
            case: design_case(d, &[], &[name.clone()]),
            expected: json!({"engines_built": res.engines_built}),
            observed: json!(e),
        });
        return res;
    }
    if ms.len() < 2 || res.engines_built[0] != simx::config_name(&configs[0]) {
        res.machinery = Some(format!(
            "{}: fewer than two engines (or no baseline) built: skipped={:?}",
            d.id, res.engines_skipped
        ));
        return res;
    }
    let mut bounds = bounds.clone();
    bounds.xref = res.engines_built.iter().position(|n| n == "interp+4st");
    let bounds = &bounds;
    match e2::explore(&mut ms, d.letters(), bounds, &mut res.stats) {
        Outcome::Ok => {}
        Outcome::Diverged(dv) => res.violation = Some(divergence_violation(prop, d, &dv)),
        Outcome::Machinery(e) => {
            // a panic inside one engine's step is an engine disagreement, not a harness fault
            if e.contains("panic:") {
                res.violation = Some(Violation {
                    signature: format!(
                        "{prop}:panic-step:{}:{}",
                        e.split(':').next().unwrap_or("?"),
                        template_of(&d.id)
                    ),
                    what: format!("an engine panics while stepping design {}: {e}", d.id),
                    case: design_case(d, &[], &res.engines_built),
                    expected: json!("no panic"),
                    observed: json!(e),
                });
            } else {
                res.machinery = Some(format!("{}: {e}", d.id));
            }
        }
    }
    if let Some(dv) = &res.stats.xvalued_first {
        let port = dv.port.and_then(|i| d.outputs.get(i)).map(|p| p.name.clone());
        res.xvalued = Some(Violation {
            signature: format!("{prop}:x-valued-2state:{}!={}", dv.machine_b, dv.machine_a),
            what: format!(
                "{} and {} give different 2-state values on design {} after {} step(s){} where the 4-state interpreter has X/Z ({} such comparisons in this design)",
                dv.machine_a,
                dv.machine_b,
                d.id,
                dv.at,
                port.as_ref().map(|p| format!(" at port {p}")).unwrap_or_else(|| " in $display text".into()),
                res.stats.xvalued
            ),
            case: design_case(d, &dv.path, &[dv.machine_a.clone(), dv.machine_b.clone(), "interp+4st".into()]),
            expected: json!({"engine": dv.machine_a, "observation": dv.expected}),
            observed: json!({"engine": dv.machine_b, "observation": dv.observed, "port": port}),
        });
    }
    // sample trace from the baseline
    if res.violation.is_none() && res.machinery.is_none() {
        let p: Vec<u32> = (0..4).map(|i| (i * 5 + 3) % d.letters()).collect();
        if let Ok(t) = ms[0].run_trace(&p) {
            res.sample = Some(json!({"design": d.id, "engines": res.engines_built.len(), "path": p, "trace": t,
                "states": res.stats.states, "transitions": res.stats.transitions}));
        }
    }
    res
}

// ---------------------------------------------------------------------------------------------
// native testbench sub-family
// ---------------------------------------------------------------------------------------------

pub struct TbResult {
    pub id: String,
    pub rejected: Option<String>,
    pub per_engine: Vec<(String, String, String)>, // engine, verdict, output
    pub skipped: Vec<(String, String)>,
    pub violation: Option<Violation>,
    pub xz_skipped: u64,
}

fn text_compatible(base: &str, other: &str, skip_xz: bool) -> bool {
    base == other
        || (skip_xz
            && base.len() == other.len()
            && base.bytes().zip(other.bytes()).all(|(x, y)| x == y || matches!(y, b'x' | b'X' | b'z' | b'Z')))
}

pub fn run_tb_case(prop: &str, c: &TbCase, configs: &[Config]) -> TbResult {
    install_quiet_panic_hook();
    let mut res = TbResult { id: c.id.clone(), rejected: None, per_engine: vec![], skipped: vec![], violation: None, xz_skipped: 0 };
    let ir = match std::panic::catch_unwind(std::panic::AssertUnwindSafe(|| simx::analyze(&c.src))) {
        Ok(Ok(ir)) => ir,
        Ok(Err(e)) => {
            res.rejected = Some(e);
            return res;
        }
        Err(p) => {
            res.rejected = Some(format!("analyzer panic: {}", panic_message(p)));
            return res;
        }
    };
    for cfg in configs {
        let name = simx::config_name(cfg);
        let r = std::panic::catch_unwind(std::panic::AssertUnwindSafe(|| -> Result<(String, String), String> {
            let sim_ir = veryl_simulator::ir::build_ir(&ir, c.test.as_str().into(), cfg).map_err(|e| format!("build_ir: {e}"))?;
            veryl_simulator::output_buffer::enable();
            let module_name = sim_ir.name.to_string();
            let r = veryl_simulator::testbench::run_native_testbench(sim_ir, None, module_name);
            let out = veryl_simulator::output_buffer::take();
            let verdict = match r {
                Ok(veryl_simulator::testbench::TestResult::Pass) => "pass".to_string(),
                Ok(veryl_simulator::testbench::TestResult::Fail(m)) => format!("fail: {m}"),
                Err(e) => format!("error: {e}"),
            };
            Ok((verdict, out))
        }));
        match r {
            Ok(Ok((v, o))) => res.per_engine.push((name, v, o)),
            Ok(Err(e)) => res.skipped.push((name, e)),
            Err(p) => res.per_engine.push((name, format!("panic: {}", panic_message(p)), String::new())),
        }
    }
    if let Some((bn, bv, bo)) = res.per_engine.first().cloned() {
        let xref = res.per_engine.iter().find(|(n, _, _)| n == "interp+4st").cloned();
        // differing positions all carry x/z in the 4-state interpreter's text
        let x_valued = |base: &str, other: &str, xr: Option<&String>| -> bool {
            match xr {
                Some(x) if x.len() == base.len() && other.len() == base.len() => base
                    .bytes()
                    .zip(other.bytes())
                    .zip(x.bytes())
                    .all(|((b, o), x)| b == o || matches!(x, b'x' | b'X' | b'z' | b'Z')),
                _ => false,
            }
        };
        let mut first_x: Option<Violation> = None;
        for (n, v, o) in res.per_engine.iter().skip(1) {
            let skip = n.contains("4st") && !bn.contains("4st");
            // a 4-state engine whose own text shows x/z digits: X/Z reached an observed signal,
            // the property does not constrain it (the family's static texts contain no x or z)
            let has_xz = |t: &str| t.bytes().any(|c| matches!(c, b'x' | b'X' | b'z' | b'Z'));
            if skip && (has_xz(v) || has_xz(o)) {
                res.xz_skipped += 1;
                continue;
            }
            let what = if !text_compatible(&bv, v, skip) {
                Some(("verdict", x_valued(&bv, v, xref.as_ref().map(|x| &x.1))))
            } else if !text_compatible(&bo, o, skip) {
                Some(("display", x_valued(&bo, o, xref.as_ref().map(|x| &x.2))))
            } else {
                None
            };
            if let Some((w, xv)) = what {
                let dut = c.id.splitn(3, '/').nth(2).unwrap_or("");
                let viol = Violation {
                    signature: if xv {
                        format!("{prop}:tb:x-valued-2state:{n}!={bn}")
                    } else {
                        format!("{prop}:tb:{n}!={bn}:{}:{}:{w}", c.variant, template_of(dut))
                    },
                    what: format!(
                        "native testbench {}: engines {bn} and {n} differ in {w}{}",
                        c.id,
                        if xv { " (only where the 4-state interpreter prints x/z)" } else { "" }
                    ),
                    case: json!({"tb_id": c.id, "src": c.src, "test": c.test, "engines": [bn, n, "interp+4st"]}),
                    expected: json!({"engine": bn, "verdict": bv, "output": bo}),
                    observed: json!({"engine": n, "verdict": v, "output": o}),
                };
                if xv {
                    first_x.get_or_insert(viol);
                } else {
                    res.violation = Some(viol);
                    break;
                }
            }
        }
        if res.violation.is_none() {
            res.violation = first_x;
        }
    }
    res
}

// ---------------------------------------------------------------------------------------------

pub fn set_process_env(ctx: &Ctx) {
    let aot = ctx.dir("aot_cache");
    let home = ctx.dir("home");
    // SAFETY: called once at the start of the check, before any worker thread exists.
    unsafe {
        std::env::set_var("VERYL_AOT_CACHE_DIR", &aot);
        std::env::set_var("HOME", &home);
        std::env::set_var("XDG_CACHE_HOME", home.join("cache"));
    }
}

/// Shared driver: explores `designs` with per-design config lists, in parallel, within a budget.
pub fn explore_family(
    ctx: &Ctx,
    prop: &str,
    jobs: &[(Design, Vec<Config>, Bounds)],
    budget: f64,
) -> Vec<DesignResult> {
    let start_elapsed = ctx.elapsed();
    let t0 = std::time::Instant::now();
    par_map(jobs, |(d, cfgs, bounds)| {
        if start_elapsed + t0.elapsed().as_secs_f64() > budget {
            let mut r = DesignResult::new(d);
            r.not_run = true;
            return r;
        }
        let d2 = d.clone();
        let cfgs2 = cfgs.clone();
        let mut b2 = bounds.clone();
        // a job that started before the cut may not run far past it (reported as capped)
        let remaining = (budget * 1.15 - (start_elapsed + t0.elapsed().as_secs_f64())).max(1.0);
        b2.deadline = Some(std::time::Instant::now() + std::time::Duration::from_secs_f64(remaining));
        let prop2 = prop.to_string();
        match run_isolated(simx::STACK, move || check_design(&prop2, &d2, &cfgs2, &b2)) {
            Ok(r) => r,
            Err(e) => {
                let mut r = DesignResult::new(d);
                r.machinery = Some(format!("{}: explorer thread died: {e}", d.id));
                r
            }
        }
    })
}

/// Orders jobs round-robin over the design classes so that a budget cut thins every class.
pub fn interleave_by_class<T>(jobs: Vec<(Design, Vec<Config>, T)>) -> Vec<(Design, Vec<Config>, T)> {
    let mut idx_in_class: BTreeMap<&'static str, usize> = BTreeMap::new();
    let mut keyed: Vec<(usize, usize, (Design, Vec<Config>, T))> = vec![];
    for (n, j) in jobs.into_iter().enumerate() {
        let c = idx_in_class.entry(j.0.class).or_default();
        keyed.push((*c, n, j));
        *c += 1;
    }
    keyed.sort_by_key(|k| (k.0, k.1));
    keyed.into_iter().map(|k| k.2).collect()
}

pub fn run(ctx: &Ctx) -> Report {
    let mut rep = Report::new(Level::ModelChecking);
    set_process_env(ctx);
    install_quiet_panic_hook();
    let thorough = ctx.thorough();
    let budget = ctx.budget(42.0, 1200.0);
    let scope = if thorough { Scope::Full } else { Scope::Core };
    let mut designs = gen_df::family(scope);
    // development aid (mutation demos): restrict the family to ids containing a substring
    if let Ok(f) = std::env::var("VMC_DF_FILTER") {
        designs.retain(|d| f.split(',').any(|x| d.id.contains(x)));
    }
    let full_size = if thorough { designs.len() } else { gen_df::family(Scope::Full).len() };
    let with_cc = veryl_simulator::backend::aot_c::cc_available();
    let base_cfgs = simx::all_configs(false);
    let cc_cfgs: Vec<Config> = simx::all_configs(true).into_iter().filter(|c| c.aot_c).collect();
    // quick: cc on a fixed subset (every 6th core member, capped), thorough: cc everywhere
    // quick: the cc backend (a C compile per design and config) on ONE design per template
    let cc_cap = if thorough { usize::MAX } else { 70 };
    let mut cc_used = 0usize;
    let mut cc_templates: BTreeSet<String> = BTreeSet::new();
    let bounds = Bounds {
        max_states: if thorough { 1 << 15 } else { 1 << 12 },
        max_depth: 64,
        flat_len: 3,
        batch: 512,
        deadline: None,
        ..Default::default()
    };
    // big opt-shapes (hundreds of comb statements, slow on the interpreter): shorter flat part
    let bounds_big = Bounds { flat_len: bounds.flat_len - 1, ..bounds.clone() };
    let mut jobs: Vec<(Design, Vec<Config>, Bounds)> = vec![];
    for (i, d) in designs.iter().enumerate() {
        let mut cfgs = base_cfgs.clone();
        let big = d.has_tag("cone_gate") || d.id.contains("flat320");
        let _ = i;
        let tpl = if d.class == "pair" { "pair".to_string() } else { template_of(&d.id) };
        if with_cc && cc_used < cc_cap && (thorough || (!big && cc_templates.insert(tpl))) {
            cfgs.extend(cc_cfgs.iter().cloned());
            cc_used += 1;
        }
        // thorough: sequences of length 4 without dedup on the core members (65 536 + ... per design)
        let b = if big {
            bounds_big.clone()
        } else if thorough && d.core {
            Bounds { flat_len: 4, ..bounds.clone() }
        } else {
            bounds.clone()
        };
        jobs.push((d.clone(), cfgs, b));
    }
    let jobs = interleave_by_class(jobs);
    let results = explore_family(ctx, "C02", &jobs, budget);

    let mut per_engine: BTreeMap<String, u64> = BTreeMap::new();
    let mut per_class: BTreeMap<String, u64> = BTreeMap::new();
    let mut skipped_engine: BTreeMap<String, u64> = BTreeMap::new();
    let (mut accepted, mut rejected, mut not_run, mut capped, mut nontrivial) = (0u64, 0u64, 0u64, 0u64, 0u64);
    let mut reject_reasons: BTreeSet<String> = BTreeSet::new();
    let mut all_panic_reasons: BTreeSet<String> = BTreeSet::new();
    let (mut all_panic, mut xvalued_designs, mut xvalued_cmps, mut violated_designs) = (0u64, 0u64, 0u64, 0u64);
    let mut sigs: BTreeSet<String> = BTreeSet::new();
    let (mut states, mut transitions, mut flat, mut steps, mut compares, mut xz, mut distinct, mut maxdepth) =
        (0u64, 0u64, 0u64, 0u64, 0u64, 0u64, 0u64, 0u64);
    for r in results {
        if r.not_run {
            not_run += 1;
            continue;
        }
        if let Some(e) = r.rejected {
            rejected += 1;
            if reject_reasons.len() < 12 {
                reject_reasons.insert(format!("{}: {}", r.id, e.chars().take(300).collect::<String>()));
            }
            continue;
        }
        if let Some(e) = r.all_engines_panic {
            all_panic += 1;
            all_panic_reasons.insert(format!("{}: {}", template_of(&r.id), e.chars().take(200).collect::<String>()));
            continue;
        }
        accepted += 1;
        *per_class.entry(r.class.clone()).or_default() += 1;
        for e in &r.engines_built {
            *per_engine.entry(e.clone()).or_default() += 1;
        }
        for (e, why) in &r.engines_skipped {
            *skipped_engine.entry(format!("{e}: {}", why.chars().take(80).collect::<String>())).or_default() += 1;
        }
        if let Some(m) = r.machinery {
            rep.machinery(m);
        }
        let violated = r.violation.is_some();
        if let Some(v) = r.violation {
            if sigs.insert(v.signature.clone()) || rep.violations.len() < 200 {
                rep.violation(v);
            }
        }
        if let Some(v) = r.xvalued {
            xvalued_designs += 1;
            if sigs.insert(v.signature.clone()) || rep.violations.len() < 200 {
                rep.violation(v);
            }
        }
        xvalued_cmps += r.stats.xvalued;
        if violated {
            violated_designs += 1;
        } else if !r.stats.exhaustive() {
            capped += 1;
        }
        states += r.stats.states;
        transitions += r.stats.transitions;
        flat += r.stats.flat_sequences;
        steps += r.stats.steps;
        compares += r.stats.compares;
        xz += r.stats.xz_skips;
        distinct += r.stats.distinct_obs.len() as u64;
        maxdepth = maxdepth.max(r.stats.max_depth);
        if r.stats.distinct_obs.len() >= 2 {
            nontrivial += 1;
        }
        if let Some(s) = r.sample {
            if accepted % 97 == 1 {
                rep.sample(s);
            }
        }
    }

    // ---- native testbench sub-family ---------------------------------------------------------
    let tb_duts: Vec<Design> = designs
        .iter()
        .filter(|d| d.input_bits() >= 2 && !d.has_tag("cone_gate") && !d.id.contains("flat320"))
        .filter(|d| matches!(d.class, "stmt" | "seq" | "struct" | "misc" | "opt" | "expr"))
        .enumerate()
        .filter(|(i, _)| if thorough { i % 8 == 0 } else { i % 23 == 0 })
        .map(|(_, d)| d.clone())
        .collect();
    let tb_cases = gen_df::tb_family(&tb_duts);
    let tb_cfgs = if with_cc && thorough { simx::all_configs(true) } else { base_cfgs.clone() };
    let tb_start = ctx.elapsed();
    let tb_budget = budget * 1.25;
    let t0 = std::time::Instant::now();
    let tb_results = par_map(&tb_cases, |c| {
        if tb_start + t0.elapsed().as_secs_f64() > tb_budget {
            return None;
        }
        let c2 = c.clone();
        let cf = tb_cfgs.clone();
        run_isolated(simx::STACK, move || run_tb_case("C02", &c2, &cf)).ok()
    });
    let (mut tb_run, mut tb_rejected, mut tb_not_run, mut tb_engine_runs, mut tb_xz_skipped) = (0u64, 0u64, 0u64, 0u64, 0u64);
    let mut tb_verdicts: BTreeSet<String> = BTreeSet::new();
    let mut tb_outputs: BTreeSet<String> = BTreeSet::new();
    for r in tb_results {
        let Some(r) = r else {
            tb_not_run += 1;
            continue;
        };
        if let Some(e) = r.rejected {
            tb_rejected += 1;
            if reject_reasons.len() < 16 {
                reject_reasons.insert(format!("{}: {}", r.id, e.chars().take(300).collect::<String>()));
            }
            continue;
        }
        tb_run += 1;
        tb_engine_runs += r.per_engine.len() as u64;
        tb_xz_skipped += r.xz_skipped;
        if let Some((_, v, o)) = r.per_engine.first() {
            tb_verdicts.insert(v.split(':').next().unwrap_or("").to_string());
            tb_outputs.insert(hash_hex(o.as_bytes()));
            if tb_run % 41 == 1 {
                rep.sample(json!({"tb": r.id, "verdict": v, "output_head": o.chars().take(160).collect::<String>(), "engines": r.per_engine.len()}));
            }
        }
        for (e, why) in &r.skipped {
            *skipped_engine.entry(format!("tb {e}: {}", why.chars().take(80).collect::<String>())).or_default() += 1;
        }
        if let Some(v) = r.violation {
            rep.violation(v);
        }
    }

    rep.set("family_size_full", full_size as u64);
    rep.set("designs_requested", designs.len() as u64);
    rep.set("designs_explored", accepted);
    rep.set("designs_rejected_by_analyzer", rejected);
    rep.set("designs_not_run_budget", not_run);
    rep.set("designs_capped", capped);
    rep.set("designs_with_divergence", violated_designs);
    rep.set("designs_where_every_engine_panics", all_panic);
    rep.set("every_engine_panics_reasons", json!(all_panic_reasons));
    rep.set("designs_with_x_valued_2state_disagreement", xvalued_designs);
    rep.set("x_valued_2state_comparisons", xvalued_cmps);
    rep.set("designs_with_cc", cc_used as u64);
    rep.set("designs_nontrivial", nontrivial);
    rep.set("states", states);
    rep.set("transitions", transitions);
    rep.set("flat_sequences_no_dedup", flat);
    rep.set("flat_len", bounds.flat_len as u64);
    rep.set("flat_len_core_members", if thorough { 4u64 } else { 3u64 });
    rep.set("max_bfs_depth", maxdepth);
    rep.set("machine_steps", steps);
    rep.set("traces_validated_against_impl", compares + tb_engine_runs);
    rep.set("xz_port_comparisons_skipped", xz);
    rep.set("distinct_outputs", distinct);
    rep.set("per_engine_designs", json!(per_engine));
    rep.set("per_class_designs", json!(per_class));
    rep.set("engine_skips", json!(skipped_engine));
    rep.set("rejection_samples", json!(reject_reasons));
    rep.set("tb_cases", tb_cases.len() as u64);
    rep.set("tb_cases_run", tb_run);
    rep.set("tb_cases_rejected", tb_rejected);
    rep.set("tb_cases_not_run_budget", tb_not_run);
    rep.set("tb_engine_runs", tb_engine_runs);
    rep.set("tb_4state_runs_not_compared_xz", tb_xz_skipped);
    rep.set("tb_distinct_verdict_kinds", tb_verdicts.len() as u64);
    rep.set("tb_distinct_outputs", tb_outputs.len() as u64);
    rep.set("cc_available", with_cc);
    rep.set("exhaustive", not_run == 0 && capped == 0 && tb_not_run == 0);
    rep.set(
        "rule",
        "per design: N-way lock-step of real veryl_simulator::Simulator instances (one per Config) from the post-reset state; BFS over all input letters, dedup on (all machines' variable digests, last letter); every transition compares all output ports and $display text with the 2-state interpreter; plus every input sequence of length <= flat_len without dedup",
    );
    rep.assume("reset stimulus = all data inputs 0 and one clock edge with reset asserted (Simulator::step_reset) on the same simulator object; paths are re-executed from that reset");
    rep.assume("4-state engines are compared port-wise only where their value carries no X/Z");
    rep.assume("quick tier: core subset of DF, cc backend on a fixed subset only");
    if accepted == 0 {
        rep.machinery("vacuity guard: no design was explored");
    } else {
        if rejected * 20 > accepted {
            rep.machinery(format!("generator self-check: {rejected} of {} designs rejected by the analyzer", accepted + rejected));
        }
        if nontrivial * 2 < accepted {
            rep.machinery(format!("vacuity guard: only {nontrivial} of {accepted} designs showed >= 2 distinct observations"));
        }
        for c in &base_cfgs {
            if per_engine.get(&simx::config_name(c)).copied().unwrap_or(0) == 0 {
                rep.machinery(format!("vacuity guard: engine {} built no design", simx::config_name(c)));
            }
        }
        if with_cc && per_engine.get("cc").copied().unwrap_or(0) == 0 {
            rep.machinery("vacuity guard: cc backend available but built no design");
        }
        if tb_run > 0 && (tb_verdicts.len() < 2 || tb_outputs.len() < 4) {
            rep.machinery("vacuity guard: testbench sub-family shows < 2 verdict kinds or < 4 distinct outputs");
        }
        if tb_run == 0 && tb_not_run == 0 {
            rep.machinery("vacuity guard: no native testbench case ran");
        }
    }
    rep
}

// ---------------------------------------------------------------------------------------------

pub fn design_from_case(case: &Value) -> Option<Design> {
    Some(Design {
        id: case["design_id"].as_str()?.to_string(),
        class: "replay",
        top: case["top"].as_str()?.to_string(),
        src: case["src"].as_str()?.to_string(),
        clk: case["clk"].as_str().unwrap_or("clk").to_string(),
        rst: case["rst"].as_str().unwrap_or("rst").to_string(),
        inputs: case["inputs"]
            .as_array()?
            .iter()
            .map(|p| gen_df::Port {
                name: p[0].as_str().unwrap_or("").to_string(),
                width: p[1].as_u64().unwrap_or(1) as u32,
                signed: false,
            })
            .collect(),
        outputs: case["outputs"]
            .as_array()?
            .iter()
            .map(|p| gen_df::Port { name: p.as_str().unwrap_or("").to_string(), width: 0, signed: false })
            .collect(),
        core: true,
        tags: vec![],
    })
}

pub fn replay(doc: &Value) -> i32 {
    let case = doc["case"].clone();
    let ctx = Ctx::new("C02-replay", Tier::Quick);
    set_process_env(&ctx);
    if case.get("tb_id").is_some() {
        let c = TbCase {
            id: case["tb_id"].as_str().unwrap_or("").to_string(),
            src: case["src"].as_str().unwrap_or("").to_string(),
            test: case["test"].as_str().unwrap_or("").to_string(),
            variant: "replay",
        };
        let cfgs: Vec<Config> = case["engines"]
            .as_array()
            .map(|a| a.iter().filter_map(|e| simx::config_from_name(e.as_str()?)).collect())
            .unwrap_or_default();
        let r = run_isolated(simx::STACK, move || run_tb_case("C02", &c, &cfgs));
        return match r {
            Ok(r) if r.violation.is_some() => {
                let v = r.violation.unwrap();
                println!("still failing: {}\nexpected: {}\nobserved: {}", v.what, v.expected, v.observed);
                1
            }
            Ok(_) => {
                println!("testbench case passes");
                0
            }
            Err(e) => {
                eprintln!("replay failed: {e}");
                2
            }
        };
    }
    let Some(d) = design_from_case(&case) else {
        eprintln!("replay: malformed case");
        return 2;
    };
    let path: Vec<u32> = case["path"].as_array().map(|a| a.iter().filter_map(|x| x.as_u64().map(|v| v as u32)).collect()).unwrap_or_default();
    let cfgs: Vec<Config> = case["engines"]
        .as_array()
        .map(|a| a.iter().filter_map(|e| simx::config_from_name(e.as_str()?)).collect())
        .unwrap_or_default();
    let r = run_isolated(simx::STACK, move || -> Result<bool, String> {
        install_quiet_panic_hook();
        let ir = simx::analyze(&d.src)?;
        let mut traces = vec![];
        for c in &cfgs {
            let mut m = VerylSim::build(&ir, &d, c)?;
            let t = m.run_trace(&path)?;
            println!("{:>16}: {}", simx::config_name(c), t.join(" -> "));
            traces.push((c.use_4state, t));
        }
        let mut differ = false;
        for (four, t) in traces.iter().skip(1) {
            for (x, y) in traces[0].1.iter().zip(t.iter()) {
                if !matches!(e2::compare_obs(x, y, *four && !traces[0].0), e2::Cmp::Same | e2::Cmp::SkippedXz(_)) {
                    differ = true;
                }
            }
        }
        Ok(differ)
    });
    match r {
        Ok(Ok(true)) => {
            println!("still failing: the engines disagree");
            1
        }
        Ok(Ok(false)) => {
            println!("engines agree on this path");
            0
        }
        Ok(Err(e)) | Err(e) => {
            eprintln!("replay failed: {e}");
            2
        }
    }
}

//! C29 — the cache store behaves like a versioned key-value map.
//!
//! Engine E3: explicit-state BFS over operation histories on the *real* `veryl_cache::Store`
//! (one scratch directory per expansion), reference model R4 = a plain versioned map. State
//! canonical form = (on-disk snapshot, model view of the handle). Additionally every history up
//! to a smaller depth is run with no deduplication at all.

use crate::core::*;
use serde_json::{Value, json};
use std::collections::{BTreeMap, HashSet, VecDeque};
use std::path::Path;
use veryl_cache::Store;

#[derive(Clone, Debug, PartialEq, Eq, Hash, PartialOrd, Ord)]
enum Op {
    Open(u8),
    TryOpen(u8),
    Put(u8, u8, u8), // src, hash, blob (0 = none)
    SetDiag(u8, u8),
    Keep(u8),
    Invalidate(u8),
    SetDependents(u8, u8),
    SetTests(u8, u8),
    Save,
    Drop,
    /// external: rewrite the manifest's schema number on disk (stands for "another schema").
    DiskSchema,
}

const SRCS: [&str; 2] = ["a.veryl", "b.veryl"];
const KEYS: [&str; 2] = ["key1", "key2"];
const HASHES: [&str; 2] = ["h1", "h2"];
const BLOBS: [&[u8]; 3] = [b"", b"blob-X", b"blob-YY"];
const DIAGS: [&[u8]; 2] = [b"diag-D", b"blob-X"]; // second one collides with a fragment payload on purpose

fn op_text(op: &Op) -> String {
    match op {
        Op::Open(k) => format!("open({})", KEYS[*k as usize]),
        Op::TryOpen(k) => format!("try_open({})", KEYS[*k as usize]),
        Op::Put(s, h, b) => format!(
            "put({},{},{})",
            SRCS[*s as usize],
            HASHES[*h as usize],
            if *b == 0 {
                "None".to_string()
            } else {
                format!("{:?}", String::from_utf8_lossy(BLOBS[*b as usize]))
            }
        ),
        Op::SetDiag(s, d) => format!(
            "set_diagnostics({},{:?})",
            SRCS[*s as usize],
            String::from_utf8_lossy(DIAGS[*d as usize])
        ),
        Op::Keep(s) => format!("keep({})", SRCS[*s as usize]),
        Op::Invalidate(s) => format!("invalidate({})", SRCS[*s as usize]),
        Op::SetDependents(s, n) => format!("set_dependents({},{})", SRCS[*s as usize], n),
        Op::SetTests(s, n) => format!("set_tests({},{})", SRCS[*s as usize], n),
        Op::Save => "save".into(),
        Op::Drop => "drop".into(),
        Op::DiskSchema => "disk:schema=1".into(),
    }
}

fn alphabet(full: bool) -> Vec<Op> {
    let mut v = vec![Op::Open(0), Op::Open(1), Op::TryOpen(0)];
    for s in 0..2u8 {
        for h in 0..2u8 {
            for b in 0..3u8 {
                if !full && h == 1 && b == 2 {
                    continue;
                }
                v.push(Op::Put(s, h, b));
            }
        }
    }
    for s in 0..2u8 {
        v.push(Op::SetDiag(s, 0));
        if full {
            v.push(Op::SetDiag(s, 1));
        }
        v.push(Op::Keep(s));
        v.push(Op::Invalidate(s));
    }
    v.push(Op::SetDependents(0, 1));
    if full {
        v.push(Op::SetDependents(0, 0));
        v.push(Op::SetDependents(1, 1));
    }
    v.push(Op::SetTests(0, 1));
    v.push(Op::Save);
    v.push(Op::Drop);
    v.push(Op::DiskSchema);
    v
}

// ------------------------------------------------------------------ reference model (R4)

#[derive(Clone, Debug, PartialEq, Eq, Hash, PartialOrd, Ord, Default)]
struct MEntry {
    hash: String,
    fragment: Option<Vec<u8>>,
    dependents: Vec<String>,
    tests: Vec<String>,
    diagnostics: Option<Vec<u8>>,
}

#[derive(Clone, Debug, PartialEq, Eq, Hash, PartialOrd, Ord, Default)]
struct MHandle {
    key: String,
    visible: BTreeMap<String, MEntry>,
    next: BTreeMap<String, MEntry>,
}

#[derive(Clone, Debug, PartialEq, Eq, Hash, PartialOrd, Ord, Default)]
struct Model {
    /// last saved build: (key, entries). None = nothing valid on disk.
    saved: Option<(String, BTreeMap<String, MEntry>)>,
    handle: Option<MHandle>,
    /// Not part of the specification: how many consecutive `save`s on the live handle wrote
    /// nothing new (the implementation may take its "identical re-scan, skip the write" path).
    /// It only refines the state key, so that states reached through a skipped save are expanded
    /// on their own instead of being merged with the state before it - hidden in-memory state
    /// left behind by the skip path (a seeded change kept the staging map) is then exercised.
    skipped_saves: u8,
}

impl Model {
    fn enabled(&self, op: &Op) -> bool {
        match op {
            Op::Open(_) => self.handle.is_none(), // a second blocking open would self-block on flock
            Op::TryOpen(_) => true,
            Op::DiskSchema => self.handle.is_none() && self.saved.is_some(),
            _ => self.handle.is_some(),
        }
    }
    fn open(&mut self, k: &str) {
        let visible = match &self.saved {
            Some((key, files)) if key == k => files.clone(),
            _ => BTreeMap::new(),
        };
        self.handle = Some(MHandle {
            key: k.to_string(),
            visible,
            next: BTreeMap::new(),
        });
    }
    fn apply(&mut self, op: &Op) {
        match op {
            Op::Open(k) => self.open(KEYS[*k as usize]),
            Op::TryOpen(k) => {
                if self.handle.is_none() {
                    self.open(KEYS[*k as usize]);
                } // else: must return None, no state change
            }
            Op::DiskSchema => self.saved = None,
            Op::Drop => {
                self.handle = None;
                self.skipped_saves = 0;
            }
            _ => {
                let h = self.handle.as_mut().unwrap();
                match op {
                    Op::Put(s, hh, b) => {
                        h.next.insert(
                            SRCS[*s as usize].to_string(),
                            MEntry {
                                hash: HASHES[*hh as usize].to_string(),
                                fragment: if *b == 0 {
                                    None
                                } else {
                                    Some(BLOBS[*b as usize].to_vec())
                                },
                                ..Default::default()
                            },
                        );
                    }
                    Op::SetDiag(s, d) => {
                        if let Some(e) = h.next.get_mut(SRCS[*s as usize]) {
                            if e.fragment.is_some() {
                                e.diagnostics = Some(DIAGS[*d as usize].to_vec());
                            }
                        }
                    }
                    Op::Keep(s) => {
                        if let Some(e) = h.visible.get(SRCS[*s as usize]) {
                            h.next.insert(SRCS[*s as usize].to_string(), e.clone());
                        }
                    }
                    Op::Invalidate(s) => {
                        if let Some(e) = h.next.get_mut(SRCS[*s as usize]) {
                            e.fragment = None;
                        }
                    }
                    Op::SetDependents(s, n) => {
                        if let Some(e) = h.next.get_mut(SRCS[*s as usize]) {
                            e.dependents = (0..*n).map(|i| SRCS[(1 - i as usize) % 2].to_string()).collect();
                        }
                    }
                    Op::SetTests(s, n) => {
                        if let Some(e) = h.next.get_mut(SRCS[*s as usize]) {
                            e.tests = (0..*n).map(|i| format!("t{i}")).collect();
                        }
                    }
                    Op::Save => {
                        let next = std::mem::take(&mut h.next);
                        let unchanged = matches!(&self.saved, Some((k, f)) if *k == h.key && *f == next);
                        h.visible = next.clone();
                        self.saved = Some((h.key.clone(), next));
                        self.skipped_saves = if unchanged { (self.skipped_saves + 1).min(2) } else { 0 };
                    }
                    _ => unreachable!(),
                }
            }
        }
    }
}

// ------------------------------------------------------------------ implementation driver

struct Impl {
    store: Option<Store>,
}

fn dependents_of(n: u8) -> Vec<String> {
    (0..n).map(|i| SRCS[(1 - i as usize) % 2].to_string()).collect()
}

/// Applies `op` to the real store. Returns Err(text) on a protocol-level violation
/// (e.g. try_open succeeding while a handle is open).
fn impl_apply(root: &Path, im: &mut Impl, op: &Op) -> Result<(), String> {
    match op {
        Op::Open(k) => {
            im.store = Some(Store::open(root, KEYS[*k as usize]));
        }
        Op::TryOpen(k) => {
            let r = Store::try_open(root, KEYS[*k as usize]);
            if im.store.is_some() {
                if r.is_some() {
                    return Err("try_open returned a handle while another handle holds the store".into());
                }
            } else {
                match r {
                    Some(s) => im.store = Some(s),
                    None => return Err("try_open returned None on an unlocked store".into()),
                }
            }
        }
        Op::DiskSchema => {
            let p = root.join("manifest.toml");
            if let Ok(t) = std::fs::read_to_string(&p) {
                let t2 = t.replacen(
                    &format!("schema = {}", veryl_cache::SCHEMA_VERSION),
                    &format!("schema = {}", veryl_cache::SCHEMA_VERSION - 1),
                    1,
                );
                std::fs::write(&p, t2).unwrap();
            }
        }
        Op::Drop => im.store = None,
        _ => {
            let s = im.store.as_mut().unwrap();
            match op {
                Op::Put(src, h, b) => s.put(
                    SRCS[*src as usize].to_string(),
                    HASHES[*h as usize].to_string(),
                    if *b == 0 { None } else { Some(BLOBS[*b as usize]) },
                ),
                Op::SetDiag(src, d) => s.set_diagnostics(SRCS[*src as usize], DIAGS[*d as usize]),
                Op::Keep(src) => s.keep(SRCS[*src as usize]),
                Op::Invalidate(src) => s.invalidate(SRCS[*src as usize]),
                Op::SetDependents(src, n) => s.set_dependents(SRCS[*src as usize], dependents_of(*n)),
                Op::SetTests(src, n) => {
                    s.set_tests(SRCS[*src as usize], (0..*n).map(|i| format!("t{i}")).collect())
                }
                Op::Save => s.save(),
                _ => unreachable!(),
            }
        }
    }
    Ok(())
}

/// What a user of the store can observe through the handle.
fn observe_impl(s: &Store) -> BTreeMap<String, MEntry> {
    let mut out = BTreeMap::new();
    for src in SRCS {
        if let Some(e) = s.entry(src) {
            out.insert(
                src.to_string(),
                MEntry {
                    hash: e.hash.clone(),
                    fragment: if e.fragment.is_some() {
                        Some(s.load(e).unwrap_or_else(|| b"<<LOAD FAILED>>".to_vec()))
                    } else {
                        None
                    },
                    dependents: e.dependents.clone(),
                    tests: e.tests.clone(),
                    diagnostics: if e.diagnostics.is_some() {
                        Some(s.load_diagnostics(e).unwrap_or_else(|| b"<<LOAD FAILED>>".to_vec()))
                    } else {
                        None
                    },
                },
            );
        }
    }
    out
}

fn entries_json(m: &BTreeMap<String, MEntry>) -> Value {
    let mut o = serde_json::Map::new();
    for (k, e) in m {
        o.insert(
            k.clone(),
            json!({
                "hash": e.hash,
                "fragment": e.fragment.as_ref().map(|x| String::from_utf8_lossy(x).to_string()),
                "dependents": e.dependents,
                "tests": e.tests,
                "diagnostics": e.diagnostics.as_ref().map(|x| String::from_utf8_lossy(x).to_string()),
            }),
        );
    }
    Value::Object(o)
}

#[derive(serde::Deserialize)]
struct DiskManifest {
    #[allow(dead_code)]
    schema: u32,
    #[allow(dead_code)]
    global_key: String,
    #[serde(default)]
    files: BTreeMap<String, DiskEntry>,
}
#[derive(serde::Deserialize)]
struct DiskEntry {
    fragment: Option<String>,
    #[serde(default)]
    diagnostics: Option<String>,
}

/// "Saving never deletes a blob that the saved manifest references".
fn dangling_blobs(root: &Path) -> Vec<String> {
    let Ok(t) = std::fs::read_to_string(root.join("manifest.toml")) else {
        return vec![];
    };
    let Ok(m) = toml::from_str::<DiskManifest>(&t) else {
        return vec![];
    };
    let mut out = vec![];
    for (src, e) in &m.files {
        for rel in e.fragment.iter().chain(e.diagnostics.iter()) {
            if !root.join(rel).is_file() {
                out.push(format!("{src}:{rel}"));
            }
        }
    }
    out
}

struct StepResult {
    violation: Option<(String, Value, Value)>, // (what, expected, observed)
}

/// Checks all oracles after `op` was applied to both sides.
fn check_after(root: &Path, im: &Impl, model: &Model, op: &Op) -> StepResult {
    if let (Some(s), Some(h)) = (&im.store, &model.handle) {
        let obs = observe_impl(s);
        if obs != h.visible {
            return StepResult {
                violation: Some((
                    format!(
                        "entries visible through the handle differ from the versioned map after {} fields={}",
                        op_text(op),
                        diff_fields(&h.visible, &obs)
                    ),
                    entries_json(&h.visible),
                    entries_json(&obs),
                )),
            };
        }
    }
    if matches!(op, Op::Save) {
        let d = dangling_blobs(root);
        if !d.is_empty() {
            return StepResult {
                violation: Some((
                    "save left the on-disk manifest referencing a missing blob".into(),
                    json!([]),
                    json!(d),
                )),
            };
        }
    }
    StepResult { violation: None }
}

/// Runs a complete history from an empty directory; returns first violation.
fn run_history(root: &Path, hist: &[Op]) -> Option<(usize, String, Value, Value)> {
    let _ = std::fs::remove_dir_all(root);
    std::fs::create_dir_all(root).unwrap();
    let mut im = Impl { store: None };
    let mut model = Model::default();
    for (i, op) in hist.iter().enumerate() {
        if !model.enabled(op) {
            return None;
        }
        if let Err(e) = impl_apply(root, &mut im, op) {
            return Some((i, e, json!("per Store API docs"), json!(null)));
        }
        model.apply(op);
        if let Some((w, e, o)) = check_after(root, &im, &model, op).violation {
            return Some((i, w, e, o));
        }
    }
    None
}

fn hist_json(h: &[Op]) -> Value {
    json!(h.iter().map(op_text).collect::<Vec<_>>())
}

fn signature(hist: &[Op], upto: usize, what: &str) -> String {
    // kind of failure + the operation after which it shows + differing fields (carried in `what`)
    let last = op_text(&hist[upto]).split('(').next().unwrap().to_string();
    let w = if what.contains("missing blob") {
        "dangling-blob".to_string()
    } else if what.contains("try_open") {
        "try-open".to_string()
    } else {
        let f = what.split("fields=").nth(1).unwrap_or("?");
        format!("entries[{f}]")
    };
    format!("C29:{w}:after-{last}")
}

fn diff_fields(exp: &BTreeMap<String, MEntry>, obs: &BTreeMap<String, MEntry>) -> String {
    let mut f: Vec<&str> = vec![];
    for src in SRCS {
        match (exp.get(src), obs.get(src)) {
            (None, None) => {}
            (Some(_), None) => f.push("missing-entry"),
            (None, Some(_)) => f.push("extra-entry"),
            (Some(a), Some(b)) => {
                if a.hash != b.hash {
                    f.push("hash");
                }
                if a.fragment != b.fragment {
                    f.push("fragment");
                }
                if a.dependents != b.dependents {
                    f.push("dependents");
                }
                if a.tests != b.tests {
                    f.push("tests");
                }
                if a.diagnostics != b.diagnostics {
                    f.push("diagnostics");
                }
            }
        }
    }
    f.sort();
    f.dedup();
    f.join("+")
}

#[derive(Clone)]
struct Node {
    disk: BTreeMap<String, Vec<u8>>,
    /// ops since the last point where no handle was open (needed to rebuild the live handle)
    suffix: Vec<Op>,
    model_at_suffix_start: Model,
    model: Model,
    hist: Vec<Op>,
}

pub fn run(ctx: &Ctx) -> Report {
    let mut rep = Report::new(Level::ModelChecking);
    let depth = if ctx.thorough() { 8 } else { 6 };
    let flat_depth = if ctx.thorough() { 4 } else { 3 };
    let alpha = alphabet(ctx.thorough());
    let budget = ctx.budget(45.0, 900.0);

    // ---- part 1: BFS with state deduplication -------------------------------------------------
    let root = ctx.dir("bfs").join("cache");
    let mut seen: HashSet<[u8; 32]> = HashSet::new();
    let mut frontier: VecDeque<Node> = VecDeque::new();
    let init = Node {
        disk: BTreeMap::new(),
        suffix: vec![],
        model_at_suffix_start: Model::default(),
        model: Model::default(),
        hist: vec![],
    };
    seen.insert(state_key(&init.disk, &init.model));
    frontier.push_back(init);
    let mut states = 1u64;
    let mut transitions = 0u64;
    let mut max_depth_done = 0usize;
    let mut capped = false;
    let mut outcomes: HashSet<String> = HashSet::new();
    let mut viol_sigs: HashSet<String> = HashSet::new();
    let mut reopen_checks = 0u64;

    'bfs: while let Some(node) = frontier.pop_front() {
        if node.hist.len() >= depth {
            continue;
        }
        if ctx.elapsed() > budget {
            capped = true;
            break 'bfs;
        }
        max_depth_done = max_depth_done.max(node.hist.len());
        for op in &alpha {
            if !node.model.enabled(op) {
                continue;
            }
            // rebuild the live state: disk snapshot + replay of the suffix
            restore_dir(&root, &node.disk);
            let mut im = Impl { store: None };
            let mut ok = true;
            for o in &node.suffix {
                if impl_apply(&root, &mut im, o).is_err() {
                    ok = false;
                    break;
                }
            }
            if !ok {
                rep.machinery("suffix replay diverged (harness nondeterminism)");
                break 'bfs;
            }
            // replay determinism: what the rebuilt handle shows must equal the model at this node
            if let (Some(s), Some(h)) = (&im.store, &node.model.handle) {
                if observe_impl(s) != h.visible {
                    // already reported as a violation when this node was created, skip expansion
                    continue;
                }
            }
            transitions += 1;
            let mut model = node.model.clone();
            let mut hist = node.hist.clone();
            hist.push(op.clone());
            let res = impl_apply(&root, &mut im, op);
            model.apply(op);
            let viol = match res {
                Err(e) => Some((e, json!("per Store API docs"), json!(null))),
                Ok(()) => check_after(&root, &im, &model, op).violation,
            };
            if let Some(h) = &model.handle {
                outcomes.insert(format!("{:?}", h.visible));
            }
            if matches!(op, Op::Open(_) | Op::TryOpen(_)) && node.model.handle.is_none() {
                reopen_checks += 1;
            }
            if let Some((what, exp, obs)) = viol {
                let sig = signature(&hist, hist.len() - 1, &what);
                if viol_sigs.insert(sig.clone()) {
                    rep.violation(Violation {
                        signature: sig,
                        what,
                        case: json!({"engine":"E3","history": hist_json(&hist)}),
                        expected: exp,
                        observed: obs,
                    });
                }
                continue; // do not expand beyond a violating state
            }
            // new node
            let handle_open = model.handle.is_some();
            let (disk, suffix, mstart);
            if handle_open {
                // keep disk as of suffix start; snapshots taken only when no handle is open would
                // miss blobs written by put, so take the current disk but keep the suffix to rebuild
                // the in-memory handle. Re-applying the suffix on the *current* disk is not the same
                // as on the old one, so: snapshot at suffix start + full suffix.
                disk = node.disk.clone();
                let mut s = node.suffix.clone();
                s.push(op.clone());
                suffix = s;
                mstart = node.model_at_suffix_start.clone();
            } else {
                drop(im);
                disk = snapshot_dir(&root);
                suffix = vec![];
                mstart = model.clone();
            }
            // canonical key: current disk + model (model == impl-visible state, checked above)
            let cur_disk = if handle_open { snapshot_dir(&root) } else { disk.clone() };
            let key = state_key(&cur_disk, &model);
            if seen.insert(key) {
                states += 1;
                if states <= 3 || (hist.len() == depth && states % 5000 == 0) {
                    rep.sample(json!({"history": hist_json(&hist)}));
                }
                frontier.push_back(Node {
                    disk,
                    suffix,
                    model_at_suffix_start: mstart,
                    model,
                    hist,
                });
            }
        }
    }

    // ---- part 2: all histories up to flat_depth, no dedup ------------------------------------
    let mut flat = 0u64;
    let mut stack: Vec<Vec<Op>> = vec![vec![]];
    let flat_root = ctx.dir("flat").join("cache");
    let mut flat_capped = false;
    while let Some(h) = stack.pop() {
        if ctx.elapsed() > budget * 1.5 {
            flat_capped = true;
            break;
        }
        if !h.is_empty() {
            // only run maximal or enabled-complete histories: run each history once at its full length
            let mut m = Model::default();
            let mut enabled = true;
            for o in &h {
                if !m.enabled(o) {
                    enabled = false;
                    break;
                }
                m.apply(o);
            }
            if !enabled {
                continue;
            }
            if h.len() == flat_depth {
                flat += 1;
                if let Some((i, what, exp, obs)) = run_history(&flat_root, &h) {
                    let sig = signature(&h, i, &what);
                    if viol_sigs.insert(sig.clone()) {
                        rep.violation(Violation {
                            signature: sig,
                            what,
                            case: json!({"engine":"E3-flat","history": hist_json(&h[..=i])}),
                            expected: exp,
                            observed: obs,
                        });
                    }
                }
                continue;
            }
        }
        for op in &alpha {
            let mut n = h.clone();
            n.push(op.clone());
            stack.push(n);
        }
    }

    rep.set("states", states);
    rep.set("transitions", transitions);
    rep.set("traces_validated_against_impl", transitions);
    rep.set("depth_requested", depth as u64);
    rep.set("depth_completed", if capped { max_depth_done as u64 } else { depth as u64 });
    rep.set("bfs_capped_by_budget", capped);
    rep.set("flat_histories_no_dedup", flat);
    rep.set("flat_depth", flat_depth as u64);
    rep.set("flat_capped_by_budget", flat_capped);
    rep.set("alphabet_size", alpha.len() as u64);
    rep.set("distinct_visible_entry_maps", outcomes.len() as u64);
    rep.set("reopen_transitions", reopen_checks);
    rep.set("exhaustive", !capped && !flat_capped);
    rep.set(
        "rule",
        "BFS over Store operation histories on the real veryl_cache::Store in a scratch dir; state = (disk snapshot, handle view); every transition compares entry()/load()/load_diagnostics() with a versioned map and, after save, that every blob the on-disk manifest references exists",
    );
    rep.assume("one handle open at a time (flock would self-block); try_open is exercised against an open handle");
    rep.assume("state merging assumes Store has no in-memory state beyond manifest view, next_files (function of ops) and on_disk_current; all histories to flat_depth are additionally run without merging");
    if outcomes.len() < 4 {
        rep.machinery("vacuity guard: fewer than 4 distinct visible entry maps reached");
    }
    rep
}

fn state_key(disk: &BTreeMap<String, Vec<u8>>, model: &Model) -> [u8; 32] {
    let mut h = blake3::Hasher::new();
    for (k, v) in disk {
        if k == "lock" {
            continue;
        }
        h.update(k.as_bytes());
        h.update(&[0]);
        h.update(&(v.len() as u64).to_le_bytes());
        h.update(v);
    }
    h.update(format!("{model:?}").as_bytes());
    *h.finalize().as_bytes()
}

pub fn replay(doc: &Value) -> i32 {
    let Some(hist) = doc["case"]["history"].as_array() else {
        eprintln!("no history in replay file");
        return 2;
    };
    let alpha = alphabet(true);
    let mut ops = vec![];
    for h in hist {
        let t = h.as_str().unwrap_or("");
        match alpha.iter().find(|o| op_text(o) == t) {
            Some(o) => ops.push(o.clone()),
            None => {
                eprintln!("unknown op {t}");
                return 2;
            }
        }
    }
    let ctx = Ctx::new("C29-replay", Tier::Quick);
    let root = ctx.dir("r").join("cache");
    match run_history(&root, &ops) {
        Some((i, what, exp, obs)) => {
            println!("still failing at op {i}: {what}\nexpected: {exp}\nobserved: {obs}");
            1
        }
        None => {
            println!("history passes");
            0
        }
    }
}

//! C19 — synthesized netlists behave like the RTL.
//!
//! Engine E2 (own minimal lock-step explorer): for every member of the synthesizable design
//! family (`gen_synth`) × cell library × RamConfig ∈ {default, always infer, never}, the netlist
//! returned by the real `veryl_synthesizer::synthesize_with` is evaluated by reference model R3
//! (`r3_netlist`) in lock-step with the real `veryl_simulator::Simulator` running the RTL.
//!
//! * Exploration: from the post-reset state over ALL letters of the input alphabet, states
//!   deduplicated on (R3 FF/RAM state, all declared simulator variables) taken at the all-zero
//!   data letter;
//!   outputs compared before and after every clock edge. The real simulator cannot be
//!   snapshotted, so the explorer walks: it continues from wherever the simulator is, and when
//!   the current state has nothing unexplored it restarts (clean preamble + reset) and replays a
//!   known path. Every restart is validated against the snapshot of a fresh simulator; when a
//!   design cannot be brought back (un-reset storage), a fresh `Simulator` is built per restart.
//! * Additionally ALL input sequences up to a small length are run with no deduplication.
//! * Before a disagreement is reported it is re-run from power-up on a fresh simulator and a
//!   fresh R3 instance; a disagreement that does not reproduce is a machinery error.
//!
//! The per-design pipeline (`process_design`) is shared with C20, which looks at the structure
//! and the reports of the same netlists.

use crate::checks::gen_synth::{self, Design};
use crate::checks::r3_netlist::{self as r3, Eval, Netlist};
use crate::core::*;
use serde_json::{Value as J, json};
use std::collections::{BTreeMap, BTreeSet, HashMap, VecDeque};
use veryl_analyzer::ir as air;
use veryl_analyzer::{Analyzer, Context, symbol_table};
use veryl_metadata::Metadata;
use veryl_parser::Parser;
use veryl_simulator::ir::{Config as SimConfig, Event, ModuleVariables, build_ir, read_native_value};
use veryl_simulator::Simulator;
use veryl_synthesizer::{AreaReport, Library, RamConfig, TimingReport, library_for};

pub const LIBS: [(Library, &str); 4] = [
    (Library::Sky130, "sky130"),
    (Library::Asap7, "asap7"),
    (Library::Gf180mcu, "gf180mcu"),
    (Library::IhpSg13g2, "ihp_sg13g2"),
];

pub fn ram_configs() -> Vec<(&'static str, RamConfig)> {
    let d = RamConfig::default();
    vec![
        ("default", d),
        ("always", RamConfig { min_bits: 1, ..d }),
        ("never", RamConfig { min_bits: usize::MAX, ..d }),
        // always infer, but at most one read and one write port (multi-port arrays stay flip-flops)
        ("always-1r1w", RamConfig { min_bits: 1, max_read_ports: 1, max_write_ports: 1, ..d }),
    ]
}

pub fn lib_by_name(name: &str) -> Option<Library> {
    LIBS.iter().find(|x| x.1 == name).map(|x| x.0)
}
pub fn ram_by_name(name: &str) -> Option<RamConfig> {
    ram_configs().into_iter().find(|x| x.0 == name).map(|x| x.1)
}

// ------------------------------------------------------------------------------------------
// analysis / synthesis (must run on an isolated thread)

pub fn analyze(text: &str) -> Result<air::Ir, String> {
    symbol_table::clear();
    let metadata = Metadata::create_default("prj").map_err(|e| format!("metadata: {e}"))?;
    let parser = Parser::parse(text, &"c19.veryl").map_err(|e| format!("parse: {e}"))?;
    let analyzer = Analyzer::new(&metadata);
    let mut context = Context::default();
    let mut errors = vec![];
    let mut ir = air::Ir::default();
    errors.append(&mut analyzer.analyze_pass1("prj", &parser.veryl));
    errors.append(&mut Analyzer::analyze_post_pass1());
    errors.append(&mut analyzer.analyze_pass2(&parser.veryl, &mut context, Some(&mut ir)));
    errors.append(&mut Analyzer::analyze_post_pass2(&ir));
    let hard: Vec<String> = errors
        .iter()
        .filter(|e| {
            use miette::Diagnostic;
            !matches!(e.severity(), Some(miette::Severity::Warning) | Some(miette::Severity::Advice))
        })
        .map(|e| format!("{e}"))
        .collect();
    if !hard.is_empty() {
        return Err(format!("analyzer: {}", hard.join(" | ")));
    }
    Ok(ir)
}

pub struct Built {
    pub lib: &'static str,
    pub ram: &'static str,
    pub nl: Netlist,
    pub dump: String,
    /// `None` when veryl's own report computation panicked on this netlist (message in
    /// `report_panic`); C20 decides what that means.
    pub area: Option<AreaReport>,
    pub timing: Option<TimingReport>,
    pub report_panic: Option<String>,
}

/// Real synthesis: `build_gate_ir_with_library` (the netlist), then the real `compute_area` /
/// `compute_timing` — the same three steps `synthesize_with` performs — with the reports guarded
/// so that a malformed netlist can still be inspected.
pub fn synth(ir: &air::Ir, lib: (Library, &'static str), ram: (&'static str, RamConfig)) -> Result<Built, String> {
    let top = veryl_parser::resource_table::insert_str("Top");
    let l = library_for(lib.0);
    let g = veryl_synthesizer::build_gate_ir_with_library(ir, top, ram.1, l).map_err(|e| format!("{e}"))?;
    let nl = Netlist::from_gate(&g.module);
    let dump = format!("{}", g.module);
    let reports = std::panic::catch_unwind(std::panic::AssertUnwindSafe(|| {
        (
            veryl_synthesizer::analysis::compute_area(&g.module, l),
            veryl_synthesizer::analysis::compute_timing(&g.module, l),
        )
    }));
    let (area, timing, report_panic) = match reports {
        Ok((a, t)) => (Some(a), Some(t), None),
        Err(p) => (None, None, Some(panic_message(p))),
    };
    Ok(Built {
        lib: lib.1,
        ram: ram.0,
        nl,
        dump,
        area,
        timing,
        report_panic,
    })
}

// ------------------------------------------------------------------------------------------
// the real simulator as a machine

pub struct SimM<'a> {
    air: &'a air::Ir,
    d: &'a Design,
    sim: Simulator,
    clk: Option<Event>,
    rst: Option<Event>,
    /// Snapshot right after the init sequence on a fresh simulator.
    root_snap: Vec<u8>,
    /// Restarting the same object failed validation: build a fresh simulator per restart.
    pub fresh_mode: bool,
    pub restarts: u64,
    pub fresh_builds: u64,
    pub steps: u64,
}

fn new_sim(air: &air::Ir) -> Result<Simulator, String> {
    let top = veryl_parser::resource_table::insert_str("Top");
    let ir = build_ir(air, top, &SimConfig::default()).map_err(|e| format!("simulator build_ir: {e}"))?;
    Ok(Simulator::new(ir, None))
}

fn snapshot_module(m: &ModuleVariables, out: &mut Vec<u8>) {
    let mut vars: Vec<_> = m.variables.values().collect();
    vars.sort_by_key(|v| v.path.to_string());
    for v in vars {
        for &ptr in &v.current_values {
            if v.native_bytes <= 16 {
                let val = unsafe { read_native_value(ptr, v.native_bytes, false, v.width as u32, false) };
                let p = val.payload_u128();
                let nb = v.width.div_ceil(8).max(1);
                out.extend_from_slice(&p.to_le_bytes()[..nb.min(16)]);
            } else {
                let s = unsafe { std::slice::from_raw_parts(ptr as *const u8, v.native_bytes) };
                out.extend_from_slice(s);
            }
        }
        out.push(0xfe);
    }
    for c in &m.children {
        out.push(0xfd);
        snapshot_module(c, out);
    }
}

impl<'a> SimM<'a> {
    pub fn new(air: &'a air::Ir, d: &'a Design) -> Result<SimM<'a>, String> {
        let sim = new_sim(air)?;
        let mut m = SimM {
            air,
            d,
            sim,
            clk: None,
            rst: None,
            root_snap: vec![],
            fresh_mode: false,
            restarts: 0,
            fresh_builds: 1,
            steps: 0,
        };
        m.bind()?;
        Ok(m)
    }
    fn bind(&mut self) -> Result<(), String> {
        if self.d.clocked {
            self.clk = Some(self.sim.get_clock("clk").ok_or("simulator has no clock port clk")?);
        }
        if self.d.has_reset {
            self.rst = Some(self.sim.get_reset("rst").ok_or("simulator has no reset port rst")?);
        }
        Ok(())
    }
    pub fn set(&mut self, letter: &[u64]) {
        for ((name, w), v) in self.d.inputs.iter().zip(letter) {
            self.sim.set(name, veryl_simulator::ir::Value::new(*v, *w as usize, false));
        }
    }
    pub fn outs(&mut self) -> Vec<u128> {
        let mut v = vec![];
        for (name, _) in &self.d.outputs {
            match self.sim.get(name) {
                Some(x) => {
                    if x.mask_xz_u128() != 0 {
                        v.push(u128::MAX);
                    } else {
                        v.push(x.payload_u128())
                    }
                }
                None => v.push(u128::MAX - 1),
            }
        }
        v
    }
    pub fn step(&mut self) {
        if let Some(c) = &self.clk {
            self.sim.step(c);
            self.steps += 1;
        }
    }
    pub fn reset(&mut self) {
        match (&self.clk, &self.rst) {
            (Some(c), Some(r)) => {
                self.sim.step_reset(c, r);
                self.steps += 1;
            }
            (Some(c), None) => {
                self.sim.step(c);
                self.steps += 1;
            }
            _ => {}
        }
    }
    pub fn snapshot(&mut self) -> Vec<u8> {
        self.sim.ensure_comb_updated();
        let mut out = vec![];
        snapshot_module(&self.sim.ir.module_variables, &mut out);
        out
    }
    /// Init sequence: clean preamble, all-zero inputs, reset (or one plain edge without reset).
    fn init_seq(&mut self) {
        let zero = vec![0u64; self.d.inputs.len()];
        for l in &self.d.clean {
            self.set(l);
            self.step();
        }
        self.set(&zero);
        self.reset();
    }
    /// First initialisation (fresh object): records the root snapshot and checks that a second
    /// fresh simulator reaches the same one (harness determinism).
    pub fn first_init(&mut self) -> Result<(), String> {
        self.init_seq();
        self.root_snap = self.snapshot();
        let mut other = new_sim(self.air)?;
        std::mem::swap(&mut self.sim, &mut other);
        self.bind()?;
        self.fresh_builds += 1;
        self.init_seq();
        let again = self.snapshot();
        if again != self.root_snap {
            return Err("two fresh simulators disagree after the init sequence (nondeterminism)".into());
        }
        Ok(())
    }
    /// Back to the root state.
    pub fn restart(&mut self) -> Result<(), String> {
        self.restarts += 1;
        if !self.fresh_mode {
            self.init_seq();
            if self.snapshot() == self.root_snap {
                return Ok(());
            }
            self.fresh_mode = true;
        }
        self.sim = new_sim(self.air)?;
        self.bind()?;
        self.fresh_builds += 1;
        self.init_seq();
        if self.snapshot() != self.root_snap {
            return Err("fresh simulator does not reach the root snapshot".into());
        }
        Ok(())
    }
}

// ------------------------------------------------------------------------------------------
// R3 as a machine

pub struct NetM<'a> {
    pub e: Eval<'a>,
    d: &'a Design,
    root: Option<(r3::State, Vec<bool>)>,
}

impl<'a> NetM<'a> {
    pub fn new(nl: &'a Netlist, st: &r3::Structure, d: &'a Design) -> Result<NetM<'a>, String> {
        let e = Eval::new(nl, st)?;
        // port presence
        for (n, w) in d.inputs.iter().chain(d.outputs.iter()) {
            let p = nl.ports.iter().find(|p| &p.path == n).ok_or(format!("netlist has no port {n}"))?;
            if p.nets.len() != *w as usize {
                return Err(format!("netlist port {n} has {} nets, RTL width {w}", p.nets.len()));
            }
        }
        Ok(NetM { e, d, root: None })
    }
    pub fn set(&mut self, letter: &[u64]) {
        for ((name, _), v) in self.d.inputs.iter().zip(letter) {
            self.e.set_input(name, *v);
        }
        self.e.apply();
    }
    pub fn outs(&self) -> Vec<u128> {
        self.d.outputs.iter().map(|(n, _)| self.e.get_output(n).unwrap_or(u64::MAX) as u128).collect()
    }
    /// One full clock period: 0 → 1 → 0 on `clk` (posedge elements react on the first half,
    /// negedge elements on the second; data inputs are stable).
    pub fn step(&mut self) {
        if !self.d.clocked {
            return;
        }
        self.e.set_input("clk", 1);
        self.e.apply();
        self.e.set_input("clk", 0);
        self.e.apply();
    }
    /// Reset protocol mirroring `Simulator::step_reset`: assert, one clock period, deassert.
    /// The reset polarity is taken from the RTL port type (not from the netlist).
    pub fn reset(&mut self) {
        if self.d.has_reset {
            let active_high = reset_active_high(self.d);
            self.e.set_input("rst", active_high as u64);
            self.e.apply();
            self.step();
            self.e.set_input("rst", !active_high as u64);
            self.e.apply();
        } else {
            self.step();
        }
    }
    pub fn power_up_init(&mut self) {
        // deasserted reset level from power-up
        if self.d.has_reset {
            let active_high = reset_active_high(self.d);
            self.e.set_input("rst", !active_high as u64);
            self.e.apply();
        }
        let zero = vec![0u64; self.d.inputs.len()];
        for l in &self.d.clean.clone() {
            self.set(l);
            self.step();
        }
        self.set(&zero);
        self.reset();
        self.root = Some((self.e.st.clone(), self.e.inp.clone()));
    }
    pub fn save(&self) -> (r3::State, Vec<bool>) {
        (self.e.st.clone(), self.e.inp.clone())
    }
    pub fn load(&mut self, s: &(r3::State, Vec<bool>)) {
        self.e.st = s.0.clone();
        self.e.inp = s.1.clone();
        self.e.settle();
    }
    pub fn to_root(&mut self) {
        let r = self.root.clone().expect("power_up_init first");
        self.load(&r);
    }
}

/// Declared (clock edge is posedge, reset (active_high, sync)) of the top-level `clk` / `rst` ports.
/// `clock` is veryl's default clock type (posedge), `reset` the default reset type (async low) —
/// the same defaults the simulator config uses.
pub fn declared_clocking(d: &Design) -> (bool, Option<(bool, bool)>) {
    let pos = !d.text.contains("clk: input clock_negedge");
    let rst = if !d.has_reset {
        None
    } else if d.text.contains("rst: input reset_async_high") {
        Some((true, false))
    } else if d.text.contains("rst: input reset_sync_high") {
        Some((true, true))
    } else if d.text.contains("rst: input reset_sync_low") {
        Some((false, true))
    } else {
        Some((false, false))
    };
    (pos, rst)
}

/// Static part of "flip-flops with their reset values and edges": a netlist in which every
/// flip-flop had the opposite clock edge is cycle-equivalent when inputs only change between
/// cycles, so the edge (and the reset kind) is compared with the RTL declaration directly.
/// Returns (class, detail) issues.
pub fn ff_attribute_issues(d: &Design, nl: &Netlist) -> Vec<(&'static str, String)> {
    let mut v = vec![];
    if !d.clocked {
        return v;
    }
    let (pos, rst) = declared_clocking(d);
    let port_net = |name: &str| nl.ports.iter().find(|p| p.path == name).and_then(|p| p.nets.first().copied());
    let clk_net = port_net("clk");
    let rst_net = port_net("rst");
    for (i, f) in nl.ffs.iter().enumerate() {
        if f.posedge != pos {
            v.push(("clock-edge", format!("ff{i}: {} but clk is declared {}", if f.posedge { "posedge" } else { "negedge" }, if pos { "posedge" } else { "negedge" })));
        }
        if Some(f.clock) != clk_net {
            v.push(("clock-net", format!("ff{i}: clock pin is net {} but port clk is {:?}", f.clock, clk_net)));
        }
        if let Some(r) = &f.reset {
            match rst {
                None => v.push(("reset-kind", format!("ff{i}: has a reset but the design declares none"))),
                Some((high, sync)) => {
                    if r.active_high != high || r.sync != sync {
                        v.push((
                            "reset-kind",
                            format!(
                                "ff{i}: reset is {} {} but rst is declared {} {}",
                                if r.active_high { "high" } else { "low" },
                                if r.sync { "sync" } else { "async" },
                                if high { "high" } else { "low" },
                                if sync { "sync" } else { "async" }
                            ),
                        ));
                    }
                    if Some(r.net) != rst_net {
                        v.push(("reset-net", format!("ff{i}: reset pin is net {} but port rst is {:?}", r.net, rst_net)));
                    }
                }
            }
        }
    }
    for (i, r) in nl.rams.iter().enumerate() {
        if r.posedge != pos {
            v.push(("clock-edge", format!("ram{i}: {} but clk is declared {}", if r.posedge { "posedge" } else { "negedge" }, if pos { "posedge" } else { "negedge" })));
        }
        if Some(r.clock) != clk_net {
            v.push(("clock-net", format!("ram{i}: clock pin is net {} but port clk is {:?}", r.clock, clk_net)));
        }
    }
    v
}

/// Reset polarity as declared in the RTL text (`rst: input <type>`); the polarity-agnostic
/// `reset` is active low (veryl's default `reset_type`, which the simulator config also uses).
pub fn reset_active_high(d: &Design) -> bool {
    d.text.contains("rst: input reset_async_high") || d.text.contains("rst: input reset_sync_high")
}

// ------------------------------------------------------------------------------------------
// lock-step explorer

#[derive(Clone, Debug)]
pub struct Mismatch {
    /// Letters applied after the init sequence; the last one is where the outputs differ.
    pub seq: Vec<Vec<u64>>,
    /// "pre-edge" (after driving the inputs) or "post-edge" (after the clock edge).
    pub phase: &'static str,
    pub port: String,
    pub expected: u128,
    pub observed: u128,
}

#[derive(Default, Clone, Debug)]
pub struct ExploreStats {
    pub states: u64,
    pub transitions: u64,
    pub flat_sequences: u64,
    pub flat_depth: u32,
    pub flat_steps: u64,
    pub complete: bool,
    pub cap_reason: Option<String>,
    pub distinct_outputs: usize,
    pub restarts: u64,
    pub fresh_mode: bool,
    pub fresh_builds: u64,
    pub max_path: usize,
}

pub struct Limits {
    pub max_nodes: usize,
    pub max_transitions: u64,
    pub flat_budget: u64,
    pub max_fresh_builds: u64,
    pub deadline: std::time::Instant,
}

fn compare(d: &Design, sim: &mut SimM, net: &NetM, outs_seen: &mut BTreeSet<Vec<u128>>) -> Option<(String, u128, u128)> {
    let a = sim.outs();
    let b = net.outs();
    if outs_seen.len() < 4096 {
        outs_seen.insert(a.clone());
    }
    for (i, (x, y)) in a.iter().zip(b.iter()).enumerate() {
        if x != y {
            return Some((d.outputs[i].0.clone(), *x, *y));
        }
    }
    None
}

/// One lock-step transition; returns the mismatch (phase, port, expected, observed) if any.
fn transition(d: &Design, sim: &mut SimM, net: &mut NetM, letter: &[u64], outs_seen: &mut BTreeSet<Vec<u128>>) -> Option<(&'static str, String, u128, u128)> {
    sim.set(letter);
    net.set(letter);
    if let Some((p, e, o)) = compare(d, sim, net, outs_seen) {
        return Some(("pre-edge", p, e, o));
    }
    if d.clocked {
        sim.step();
        net.step();
        if let Some((p, e, o)) = compare(d, sim, net, outs_seen) {
            return Some(("post-edge", p, e, o));
        }
    }
    None
}

struct Node {
    parent: Option<(usize, u16)>,
    depth: u32,
    net_state: (r3::State, Vec<bool>),
    next_letter: usize,
    succ: Vec<u32>, // u32::MAX = unknown
}

pub fn explore(d: &Design, sim: &mut SimM, net: &mut NetM, lim: &Limits) -> Result<(ExploreStats, Option<Mismatch>), String> {
    let letters = d.letters();
    let mut stats = ExploreStats::default();
    let mut outs_seen: BTreeSet<Vec<u128>> = BTreeSet::new();
    if letters.is_empty() {
        return Err("empty alphabet".into());
    }
    // root: both machines after the init sequence
    sim.restart()?;
    net.to_root();
    if let Some((p, e, o)) = compare(d, sim, net, &mut outs_seen) {
        return Ok((stats, Some(Mismatch { seq: vec![], phase: "post-reset", port: p, expected: e, observed: o })));
    }

    // ---- flat: all sequences of length <= L, no deduplication
    let a = letters.len() as u64;
    let mut l = 1u32;
    while l < 6 && a.pow(l + 1) * (l as u64 + 1) <= lim.flat_budget {
        l += 1;
    }
    if !d.clocked {
        l = 1;
    }
    if sim.fresh_mode && l > 2 {
        // every sequence costs a freshly built simulator
        l -= 1;
    }
    stats.flat_depth = l;
    let mut idx = vec![0usize; l as usize];
    'flat: loop {
        if std::time::Instant::now() > lim.deadline {
            stats.cap_reason = Some("time budget (flat phase)".into());
            break 'flat;
        }
        if d.clocked {
            sim.restart()?;
        }
        net.to_root();
        for (k, &i) in idx.iter().enumerate() {
            stats.flat_steps += 1;
            if let Some((phase, p, e, o)) = transition(d, sim, net, &letters[i], &mut outs_seen) {
                let seq = idx[..=k].iter().map(|&j| letters[j].clone()).collect();
                return Ok((stats, Some(Mismatch { seq, phase, port: p, expected: e, observed: o })));
            }
        }
        stats.flat_sequences += 1;
        // next index vector
        let mut k = l as usize;
        loop {
            if k == 0 {
                break 'flat;
            }
            k -= 1;
            idx[k] += 1;
            if idx[k] < letters.len() {
                break;
            }
            idx[k] = 0;
        }
    }
    if !d.clocked {
        // stateless: the flat phase was the whole space
        stats.states = 1;
        stats.transitions = stats.flat_sequences;
        stats.complete = stats.cap_reason.is_none();
        stats.distinct_outputs = outs_seen.len();
        stats.restarts = sim.restarts;
        return Ok((stats, None));
    }

    // ---- product walk with deduplication on (R3 state, simulator variables)
    sim.restart()?;
    net.to_root();
    let mut index: HashMap<[u8; 32], usize> = HashMap::new();
    let mut nodes: Vec<Node> = vec![];
    // State identity: both machines are first brought to the all-zero data letter (no clock
    // edge), then ALL simulator variables (ports, combinational and sequential, all hierarchy
    // levels) and the R3 flip-flop/RAM state are hashed. Without the normalisation every state
    // would be split by the last letter applied.
    let zero = vec![0u64; d.inputs.len()];
    let key = |sim: &mut SimM, net: &mut NetM| -> [u8; 32] {
        sim.set(&zero);
        net.set(&zero);
        let mut h = blake3::Hasher::new();
        h.update(&net.e.state_bytes());
        h.update(&[0xee]);
        h.update(&sim.snapshot());
        *h.finalize().as_bytes()
    };
    let k0 = key(sim, net);
    index.insert(k0, 0);
    nodes.push(Node { parent: None, depth: 0, net_state: net.save(), next_letter: 0, succ: vec![u32::MAX; letters.len()] });
    let mut unfinished: VecDeque<usize> = VecDeque::new();
    unfinished.push_back(0);
    let mut cur = 0usize;
    let mut capped: Option<String> = None;
    let mut tick = 0u64;
    loop {
        // make sure `cur` has something unexplored, else move
        if nodes[cur].next_letter >= letters.len() {
            while let Some(&f) = unfinished.front() {
                if nodes[f].next_letter >= letters.len() {
                    unfinished.pop_front();
                } else {
                    break;
                }
            }
            let Some(&_any) = unfinished.front() else { break };
            // nearest unfinished node reachable from cur over known edges
            let mut target_path: Option<(usize, Vec<u16>)> = None;
            {
                let mut seen: HashMap<usize, (usize, u16)> = HashMap::new();
                let mut q = VecDeque::new();
                q.push_back(cur);
                seen.insert(cur, (usize::MAX, 0));
                let mut visited = 0;
                'bfs: while let Some(x) = q.pop_front() {
                    visited += 1;
                    if visited > 4096 {
                        break;
                    }
                    for (li, &s) in nodes[x].succ.iter().enumerate() {
                        if s == u32::MAX {
                            continue;
                        }
                        let s = s as usize;
                        if seen.contains_key(&s) {
                            continue;
                        }
                        seen.insert(s, (x, li as u16));
                        if nodes[s].next_letter < letters.len() {
                            let mut path = vec![];
                            let mut y = s;
                            while y != cur {
                                let (p, l) = seen[&y];
                                path.push(l);
                                y = p;
                            }
                            path.reverse();
                            target_path = Some((s, path));
                            break 'bfs;
                        }
                        q.push_back(s);
                    }
                }
            }
            let (target, path, from_root) = match target_path {
                Some((t, p)) => (t, p, false),
                None => {
                    let t = *unfinished.front().unwrap();
                    let mut path = vec![];
                    let mut y = t;
                    while let Some((p, l)) = nodes[y].parent {
                        path.push(l);
                        y = p;
                    }
                    path.reverse();
                    (t, path, true)
                }
            };
            if from_root {
                if sim.fresh_mode && sim.fresh_builds >= lim.max_fresh_builds {
                    capped = Some(format!("fresh-simulator restarts capped at {}", lim.max_fresh_builds));
                    break;
                }
                sim.restart()?;
            }
            // walk the simulator along known edges (R3 is restored from the stored state)
            let mut at = if from_root { 0 } else { cur };
            for &li in &path {
                sim.set(&letters[li as usize]);
                sim.step();
                at = nodes[at].succ[li as usize] as usize;
            }
            if at != target {
                return Err("explorer walked to the wrong node (harness bug)".into());
            }
            stats.max_path = stats.max_path.max(path.len());
            cur = target;
            let st = nodes[cur].net_state.clone();
            net.load(&st);
            continue;
        }
        tick += 1;
        if tick % 256 == 0 && std::time::Instant::now() > lim.deadline {
            capped = Some("time budget".into());
            break;
        }
        if stats.transitions >= lim.max_transitions {
            capped = Some(format!("transition cap {}", lim.max_transitions));
            break;
        }
        let li = nodes[cur].next_letter;
        nodes[cur].next_letter += 1;
        stats.transitions += 1;
        if let Some((phase, p, e, o)) = transition(d, sim, net, &letters[li], &mut outs_seen) {
            let mut seq = vec![letters[li].clone()];
            let mut y = cur;
            while let Some((pp, l)) = nodes[y].parent {
                seq.push(letters[l as usize].clone());
                y = pp;
            }
            seq.reverse();
            stats.states = nodes.len() as u64;
            return Ok((stats, Some(Mismatch { seq, phase, port: p, expected: e, observed: o })));
        }
        let k = key(sim, net);
        let nxt = match index.get(&k) {
            Some(&n) => n,
            None => {
                if nodes.len() >= lim.max_nodes {
                    capped = Some(format!("state cap {}", lim.max_nodes));
                    break;
                }
                let n = nodes.len();
                index.insert(k, n);
                nodes.push(Node {
                    parent: Some((cur, li as u16)),
                    depth: nodes[cur].depth + 1,
                    net_state: net.save(),
                    next_letter: 0,
                    succ: vec![u32::MAX; letters.len()],
                });
                unfinished.push_back(n);
                n
            }
        };
        nodes[cur].succ[li] = nxt as u32;
        cur = nxt;
    }
    stats.states = nodes.len() as u64;
    stats.complete = capped.is_none() && stats.cap_reason.is_none();
    if capped.is_some() {
        stats.cap_reason = capped;
    }
    stats.distinct_outputs = outs_seen.len();
    stats.restarts = sim.restarts;
    stats.fresh_mode = sim.fresh_mode;
    stats.fresh_builds = sim.fresh_builds;
    stats.max_path = stats.max_path.max(nodes.iter().map(|n| n.depth as usize).max().unwrap_or(0));
    Ok((stats, None))
}

/// Re-runs a counterexample from power-up on a fresh simulator and a fresh R3 instance.
/// Some(mismatch) if it reproduces (possibly earlier in the sequence).
pub fn confirm(d: &Design, air: &air::Ir, nl: &Netlist, seq: &[Vec<u64>]) -> Result<Option<Mismatch>, String> {
    let st = nl.structure();
    let mut sim = SimM::new(air, d)?;
    sim.init_seq();
    let mut net = NetM::new(nl, &st, d)?;
    net.power_up_init();
    let mut seen = BTreeSet::new();
    if let Some((p, e, o)) = compare(d, &mut sim, &net, &mut seen) {
        return Ok(Some(Mismatch { seq: vec![], phase: "post-reset", port: p, expected: e, observed: o }));
    }
    for (k, l) in seq.iter().enumerate() {
        if let Some((phase, p, e, o)) = transition(d, &mut sim, &mut net, l, &mut seen) {
            return Ok(Some(Mismatch { seq: seq[..=k].to_vec(), phase, port: p, expected: e, observed: o }));
        }
    }
    Ok(None)
}

// ------------------------------------------------------------------------------------------
// per-design pipeline (shared with C20)

#[derive(Clone)]
pub struct Opts {
    pub libs: Vec<(Library, &'static str)>,
    pub rams: Vec<(&'static str, RamConfig)>,
    pub explore: bool,
    pub reports: bool,
    pub max_nodes: usize,
    pub max_transitions: u64,
    pub flat_budget: u64,
    pub max_fresh_builds: u64,
    pub deadline: std::time::Instant,
}

#[derive(Default)]
pub struct Outcome {
    pub name: String,
    pub template: String,
    pub skipped: Option<String>,
    pub synth_errors: Vec<(String, String)>,
    pub built: u64,
    pub distinct: u64,
    pub explored: u64,
    pub complete: u64,
    pub capped: Vec<String>,
    pub not_run_budget: u64,
    pub states: u64,
    pub transitions: u64,
    pub flat_sequences: u64,
    pub flat_steps: u64,
    pub max_flat_depth: u32,
    pub distinct_outputs: usize,
    pub fresh_mode: bool,
    pub ram_netlists: u64,
    pub ram_complete: u64,
    pub ram_bounded: u64,
    pub ff_netlists: u64,
    pub kinds: BTreeMap<&'static str, usize>,
    pub max_cells: usize,
    pub max_ffs: usize,
    pub violations: Vec<Violation>,
    pub machinery: Vec<String>,
    pub sample: Option<J>,
    pub c20: super::c20::Acc,
    pub wall_s: f64,
    pub ff_attr_checked: u64,
}

pub fn sig_class(template: &str) -> String {
    // templates already name the construct under test (see gen_synth); `wide:<op>` is folded onto
    // the operator family so one root cause does not fan out over every operator
    if let Some(op) = template.strip_prefix("wide:") {
        return format!("wide:{}", gen_synth::op_group(op));
    }
    if template.starts_with("unary:") {
        return "unary".into();
    }
    template.to_string()
}

fn letters_json(d: &Design, seq: &[Vec<u64>]) -> J {
    J::Array(
        seq.iter()
            .map(|l| {
                let mut m = serde_json::Map::new();
                for ((n, _), v) in d.inputs.iter().zip(l) {
                    m.insert(n.clone(), json!(v));
                }
                J::Object(m)
            })
            .collect(),
    )
}

pub fn process_design(d: &Design, o: &Opts) -> Outcome {
    let mut out = Outcome { name: d.name.clone(), template: d.template.clone(), ..Default::default() };
    let air = match analyze(&d.text) {
        Ok(x) => x,
        Err(e) => {
            out.skipped = Some(e);
            return out;
        }
    };
    // build all netlists
    let mut builts: Vec<Built> = vec![];
    for lib in &o.libs {
        for ram in &o.rams {
            match synth(&air, *lib, *ram) {
                Ok(b) => builts.push(b),
                Err(e) => out.synth_errors.push((format!("{}/{}", lib.1, ram.0), e)),
            }
        }
    }
    out.built = builts.len() as u64;
    if builts.is_empty() {
        return out;
    }
    for b in &builts {
        for (k, n) in b.nl.kind_histogram() {
            *out.kinds.entry(k).or_insert(0) += n;
        }
        out.max_cells = out.max_cells.max(b.nl.cells.len());
        out.max_ffs = out.max_ffs.max(b.nl.ffs.len());
    }
    if o.reports {
        for b in &builts {
            super::c20::check_built(d, b, &mut out.c20);
        }
    }
    if !o.explore {
        return out;
    }
    // distinct netlists
    let mut groups: Vec<(String, Vec<usize>)> = vec![];
    for (i, b) in builts.iter().enumerate() {
        let k = format!("{:?}|{:?}|{:?}|{:?}", b.nl.ports, b.nl.cells, b.nl.ffs, b.nl.rams);
        match groups.iter_mut().find(|g| g.0 == k) {
            Some(g) => g.1.push(i),
            None => groups.push((k, vec![i])),
        }
    }
    out.distinct = groups.len() as u64;
    let mut sim = match SimM::new(&air, d) {
        Ok(s) => s,
        Err(e) => {
            out.skipped = Some(format!("simulator: {e}"));
            return out;
        }
    };
    if let Err(e) = sim.first_init() {
        out.machinery.push(format!("{}: {e}", d.name));
        return out;
    }
    for (_, members) in &groups {
        let b = &builts[members[0]];
        let cfgs: Vec<String> = members.iter().map(|&i| format!("{}/{}", builts[i].lib, builts[i].ram)).collect();
        if std::time::Instant::now() > o.deadline {
            out.not_run_budget += 1;
            continue;
        }
        {
            let issues = ff_attribute_issues(d, &b.nl);
            out.ff_attr_checked += (b.nl.ffs.len() + b.nl.rams.len()) as u64;
            let mut classes: BTreeMap<&'static str, Vec<String>> = BTreeMap::new();
            for (c, det) in issues {
                classes.entry(c).or_default().push(det);
            }
            for (c, dets) in classes {
                out.violations.push(Violation {
                    signature: format!("C19:ff-attributes:{c}"),
                    what: format!("{} [{}]: {} sequential element(s), first: {}", d.name, cfgs.join(","), dets.len(), dets[0]),
                    case: json!({"design": d.name, "design_text": d.text, "library": b.lib, "ram_config": b.ram, "netlist": b.dump}),
                    expected: json!("flip-flop / RAM clock edge and reset kind as declared by the RTL port types"),
                    observed: json!(dets.iter().take(5).collect::<Vec<_>>()),
                });
            }
        }
        let st = b.nl.structure();
        let mut net = match NetM::new(&b.nl, &st, d) {
            Ok(n) => n,
            Err(e) => {
                // an unevaluable netlist is a C20 finding; for C19 it is a violation too (no
                // behaviour at all), reported with its own signature
                out.violations.push(Violation {
                    signature: format!("C19:unevaluable-netlist:{}", sig_class(&d.template)),
                    what: format!("netlist of {} ({}) cannot be evaluated: {e}", d.name, cfgs.join(",")),
                    case: json!({"design": d.name, "design_text": d.text, "configs": cfgs, "netlist": b.dump}),
                    expected: json!("an evaluable netlist"),
                    observed: json!(e),
                });
                continue;
            }
        };
        net.power_up_init();
        let lim = Limits {
            max_nodes: o.max_nodes,
            max_transitions: o.max_transitions,
            flat_budget: o.flat_budget,
            max_fresh_builds: o.max_fresh_builds,
            deadline: o.deadline,
        };
        sim.restarts = 0;
        let has_ram = !b.nl.rams.is_empty();
        match explore(d, &mut sim, &mut net, &lim) {
            Err(e) => out.machinery.push(format!("{} [{}]: {e}", d.name, cfgs[0])),
            Ok((stats, mm)) => {
                out.explored += 1;
                out.states += stats.states;
                out.transitions += stats.transitions;
                out.flat_sequences += stats.flat_sequences;
                out.flat_steps += stats.flat_steps;
                out.max_flat_depth = out.max_flat_depth.max(stats.flat_depth);
                out.distinct_outputs = out.distinct_outputs.max(stats.distinct_outputs);
                out.fresh_mode |= stats.fresh_mode;
                if has_ram {
                    out.ram_netlists += 1;
                } else if !b.nl.ffs.is_empty() {
                    out.ff_netlists += 1;
                }
                if let Some(m) = mm {
                    // confirm from power-up on fresh machines
                    match confirm(d, &air, &b.nl, &m.seq) {
                        Ok(Some(c)) => {
                            let pre = letters_json(d, &d.clean);
                            out.violations.push(Violation {
                                signature: format!("C19:mismatch:{}:{}", sig_class(&d.template), if has_ram { "ram-inferred" } else { "no-ram" }),
                                what: format!(
                                    "{} [{}]: output {} differs {} at step {} (RTL simulator {:#x}, netlist {:#x})",
                                    d.name,
                                    cfgs.join(","),
                                    c.port,
                                    c.phase,
                                    c.seq.len(),
                                    c.expected,
                                    c.observed
                                ),
                                case: json!({
                                    "design": d.name,
                                    "design_text": d.text,
                                    "design_meta": {"inputs": d.inputs, "outputs": d.outputs, "clocked": d.clocked, "has_reset": d.has_reset, "clean": d.clean, "template": d.template},
                                    "library": b.lib,
                                    "ram_config": b.ram,
                                    "same_netlist_for_configs": cfgs,
                                    "init_sequence": {"clean_letters": pre, "then": "all inputs 0, reset (one clock edge with rst asserted; a plain edge if the design has no reset)"},
                                    "input_sequence": letters_json(d, &c.seq),
                                    "phase": c.phase,
                                    "port": c.port,
                                    "netlist": b.dump,
                                    "cell_kinds": b.nl.kind_histogram(),
                                }),
                                expected: json!({"rtl_simulator": format!("{:#x}", c.expected)}),
                                observed: json!({"netlist_r3": format!("{:#x}", c.observed)}),
                            });
                        }
                        Ok(None) => out.machinery.push(format!(
                            "{} [{}]: disagreement at {:?} did not reproduce from power-up on fresh machines",
                            d.name, cfgs[0], m.seq
                        )),
                        Err(e) => out.machinery.push(format!("{} [{}]: confirm failed: {e}", d.name, cfgs[0])),
                    }
                } else if stats.complete {
                    out.complete += 1;
                    if has_ram {
                        out.ram_complete += 1;
                    }
                } else {
                    if has_ram {
                        out.ram_bounded += 1;
                    }
                    out.capped.push(format!("{} [{}]: {}", d.name, cfgs[0], stats.cap_reason.clone().unwrap_or_default()));
                }
                if out.sample.is_none() {
                    out.sample = Some(json!({
                        "design": d.name, "config": cfgs[0], "cells": b.nl.cells.len(), "ffs": b.nl.ffs.len(),
                        "ram_bits": b.nl.ram_bits(), "states": stats.states, "transitions": stats.transitions,
                        "flat_sequences": stats.flat_sequences, "flat_depth": stats.flat_depth,
                        "distinct_output_vectors": stats.distinct_outputs, "complete": stats.complete,
                    }));
                }
            }
        }
    }
    out
}

// ------------------------------------------------------------------------------------------
// tiers

pub struct Job {
    pub design: Design,
    pub libs: Vec<(Library, &'static str)>,
}

pub fn jobs(thorough: bool) -> Vec<Job> {
    let fam = gen_synth::family();
    let mut v = vec![];
    let mut qi = 0;
    for d in fam {
        if thorough {
            v.push(Job { design: d, libs: LIBS.to_vec() });
        } else if d.quick {
            qi += 1;
            // every 6th quick design and every RAM / pass design goes through all four libraries
            // the memories with the largest product spaces and the 16-stage scans stay on fewer
            // libraries in the quick tier (the thorough tier runs everything on all four)
            let heavy = matches!(d.template.as_str(), "ram:masked-rmw" | "ram:lane-writes" | "ram:two-write-ports" | "ram:nested-enable");
            let scan16 = d.name.starts_with("pass/counter/") && d.name.ends_with("/16");
            let all = !heavy && !scan16 && (qi % 6 == 0 || d.template.starts_with("pass:") || (d.ram_candidate && qi % 2 == 0));
            let libs = if all {
                LIBS.to_vec()
            } else if scan16 {
                vec![LIBS[0], LIBS[1]]
            } else {
                vec![LIBS[0]]
            };
            v.push(Job { design: d, libs });
        }
    }
    v
}

pub fn run_jobs(ctx: &Ctx, explore: bool, reports: bool, budget: f64) -> (Vec<Outcome>, usize) {
    let js = jobs(ctx.thorough());
    let deadline = ctx.start + std::time::Duration::from_secs_f64(budget);
    let thorough = ctx.thorough();
    // VERIF_SEED only rotates the shard order
    let n = js.len();
    let rot = if n == 0 { 0 } else { (ctx.seed as usize) % n };
    // heavy designs (memories, wide arithmetic) first so they do not end up as the long pole
    let mut order: Vec<usize> = (0..n).map(|i| (i + rot) % n).collect();
    order.sort_by_key(|&i| {
        let nm = &js[i].design.name;
        if nm.starts_with("ram/") || nm.starts_with("wide/") { 0 } else { 1 }
    });
    let outs = par_map(&order, |&i| {
        let j = &js[i];
        let d = j.design.clone();
        let o = Opts {
            libs: j.libs.clone(),
            rams: ram_configs(),
            explore,
            reports,
            max_nodes: if thorough { 300_000 } else { 70_000 },
            max_transitions: if thorough { 4_000_000 } else { 600_000 },
            flat_budget: if thorough { 60_000 } else { 6_000 },
            max_fresh_builds: if thorough { 20_000 } else { 1_500 },
            deadline,
        };
        let name = d.name.clone();
        let template = d.template.clone();
        let t0 = std::time::Instant::now();
        match run_isolated(64 << 20, move || process_design(&d, &o)) {
            Ok(mut x) => {
                x.wall_s = t0.elapsed().as_secs_f64();
                x
            }
            Err(p) => Outcome { name: name.clone(), template, machinery: vec![format!("{name}: panic in pipeline: {p} at {:?}", take_panic_loc())], ..Default::default() },
        }
    });
    (outs, n)
}

pub fn run(ctx: &Ctx) -> Report {
    install_quiet_panic_hook();
    let mut rep = Report::new(Level::ModelChecking);
    let budget = ctx.budget(50.0, 1100.0);
    let (outs, n_jobs) = run_jobs(ctx, true, false, budget);
    let mut skipped: BTreeMap<String, u64> = BTreeMap::new();
    let mut synth_err: BTreeMap<String, u64> = BTreeMap::new();
    let mut kinds: BTreeMap<&'static str, usize> = BTreeMap::new();
    let mut capped: Vec<String> = vec![];
    let mut nontrivial = 0u64;
    let mut libs_used: BTreeSet<&str> = BTreeSet::new();
    let mut templates: BTreeSet<String> = BTreeSet::new();
    let mut corner_designs = 0u64;
    let mut violating: Vec<String> = vec![];
    let mut slow: Vec<(f64, String)> = vec![];
    let fam = jobs(ctx.thorough());
    for j in &fam {
        for l in &j.libs {
            libs_used.insert(l.1);
        }
        if j.design.alphabet.is_some() {
            corner_designs += 1;
        }
    }
    for o in outs {
        if let Some(s) = &o.skipped {
            let key: String = s.chars().take(90).collect();
            *skipped.entry(key).or_insert(0) += 1;
            rep.notes.push(format!("skipped {}: {}", o.name, s.chars().take(300).collect::<String>()));
            continue;
        }
        for (cfg, e) in &o.synth_errors {
            let key: String = e.chars().take(90).collect();
            *synth_err.entry(key).or_insert(0) += 1;
            if rep.notes.len() < 40 {
                rep.notes.push(format!("synth rejected {} [{cfg}]: {}", o.name, e.chars().take(200).collect::<String>()));
            }
        }
        rep.add("designs", 1);
        slow.push((o.wall_s, o.name.clone()));
        templates.insert(o.template.clone());
        rep.add("netlists_built", o.built);
        rep.add("netlists_distinct", o.distinct);
        rep.add("explorations", o.explored);
        rep.add("explorations_complete", o.complete);
        rep.add("explorations_not_run_budget", o.not_run_budget);
        rep.add("states", o.states);
        rep.add("transitions", o.transitions);
        rep.add("flat_sequences_no_dedup", o.flat_sequences);
        rep.add("traces_validated_against_impl", o.transitions + o.flat_steps);
        rep.add("ram_netlists_explored", o.ram_netlists);
        rep.add("ram_netlists_full_product", o.ram_complete);
        rep.add("ram_netlists_bounded", o.ram_bounded);
        rep.add("ff_netlists_explored", o.ff_netlists);
        rep.add("sequential_elements_attribute_checked", o.ff_attr_checked);
        if o.fresh_mode {
            rep.add("designs_needing_fresh_simulator_per_restart", 1);
        }
        if o.distinct_outputs >= 2 && o.max_cells >= 1 {
            nontrivial += 1;
        }
        for (k, n) in &o.kinds {
            *kinds.entry(k).or_insert(0) += n;
        }
        capped.extend(o.capped.iter().cloned());
        if let Some(s) = o.sample
            && (o.states > 4 || rep.coverage.get("samples").is_none())
        {
            rep.sample(s);
        }
        for m in o.machinery {
            rep.machinery(m);
        }
        for v in o.violations {
            if violating.len() < 4000 {
                violating.push(format!("{} | {}", v.signature, v.what.chars().take(160).collect::<String>()));
            }
            rep.violation(v);
        }
    }
    slow.sort_by(|a, b| b.0.partial_cmp(&a.0).unwrap());
    rep.set("slowest_designs", json!(slow.iter().take(15).map(|x| format!("{:.1}s {}", x.0, x.1)).collect::<Vec<_>>()));
    if !violating.is_empty() {
        rep.set("violating_cases", json!(violating));
    }
    let n_skipped: u64 = skipped.values().sum();
    rep.set("family_size", n_jobs as u64);
    rep.set("designs_skipped", n_skipped);
    rep.set("designs_skipped_reasons", json!(skipped));
    rep.set("synth_rejections", synth_err.values().sum::<u64>());
    rep.set("synth_rejection_reasons", json!(synth_err));
    rep.set("designs_nontrivial", nontrivial);
    rep.set("designs_with_corner_alphabet", corner_designs);
    rep.set("templates", templates.len() as u64);
    rep.set("libraries", json!(libs_used.iter().collect::<Vec<_>>()));
    rep.set("ram_configs", json!(["default", "always(min_bits=1)", "never(min_bits=max)", "always-1r1w(min_bits=1,max_read_ports=1,max_write_ports=1)"]));
    rep.set("cell_kinds_seen", json!(kinds));
    rep.set("cell_kinds_distinct", kinds.len() as u64);
    rep.set("explorations_capped", capped.len() as u64);
    if !capped.is_empty() {
        rep.set("capped_examples", json!(capped.iter().take(12).collect::<Vec<_>>()));
    }
    let thorough = ctx.thorough();
    rep.set(
        "bounds_requested",
        json!({
            "designs": n_jobs,
            "libraries": if thorough { "all 4 for every design" } else { "sky130 for every design, all 4 for every 6th design, the pass:* family and half of the memories" },
            "ram_configs": 4,
            "input_alphabet": "every valuation of the data inputs (corner valuations for the wide:* family)",
            "max_states_per_netlist": if thorough { 300_000 } else { 70_000 },
            "max_transitions_per_netlist": if thorough { 4_000_000 } else { 600_000 },
            "undeduplicated_sequence_steps_per_netlist": if thorough { 60_000 } else { 6_000 },
        }),
    );
    rep.set(
        "bounds_completed",
        json!({
            "designs": rep.get_u64("designs"),
            "explorations": rep.get_u64("explorations"),
            "explorations_complete_full_reachable_product": rep.get_u64("explorations_complete"),
            "explorations_stopped_by_a_reported_disagreement": rep.get_u64("explorations") - rep.get_u64("explorations_complete") - capped.len() as u64,
            "explorations_capped": capped.len(),
        }),
    );
    let not_run = rep.get_u64("explorations_not_run_budget");
    rep.set("budget_s", budget);
    // `exhaustive`: every declared (finite) space was covered completely. Designs with a corner
    // alphabet are bounded by construction and labelled separately.
    rep.set("exhaustive", capped.is_empty() && not_run == 0 && n_skipped == 0);
    rep.set("exhaustive_over_all_input_valuations", capped.is_empty() && not_run == 0 && n_skipped == 0 && corner_designs == 0);
    rep.assume("the RTL side is veryl's own simulator (2-state, default Config: interpreter); R3 evaluates the netlist");
    rep.assume("un-reset flip-flops and RAM words power up as 0 on both sides (the 2-state simulator's initial value)");
    rep.assume("division/modulo are guarded against a zero divisor; array indices stay in range (results are X in SystemVerilog otherwise)");
    rep.assume("wide designs (corner alphabets) are explored over corner operand values only; all other designs over every input valuation");
    rep.assume("one clock, one reset; one simulator step = one active clock edge; netlist clock driven 0→1→0 per step");
    // vacuity guards
    if rep.get_u64("designs") < 50 {
        rep.machinery(format!("vacuity guard: only {} designs accepted", rep.get_u64("designs")));
    }
    if n_skipped * 20 > n_jobs as u64 {
        rep.machinery(format!("generator self-check: {n_skipped} of {n_jobs} designs rejected by veryl"));
    }
    if nontrivial * 2 < rep.get_u64("designs") {
        rep.machinery("vacuity guard: fewer than half of the designs showed 2+ distinct output vectors");
    }
    if kinds.len() < 12 {
        rep.machinery(format!("vacuity guard: only {} distinct cell kinds appeared", kinds.len()));
    }
    if rep.get_u64("ram_netlists_explored") == 0 || rep.get_u64("ff_netlists_explored") == 0 {
        rep.machinery("vacuity guard: no RAM or no flip-flop netlist was explored");
    }
    rep
}

pub fn replay(doc: &J) -> i32 {
    install_quiet_panic_hook();
    let case = doc["case"].clone();
    let text = case["design_text"].as_str().unwrap_or("").to_string();
    let name = case["design"].as_str().unwrap_or("").to_string();
    let lib = case["library"].as_str().unwrap_or("sky130").to_string();
    let ram = case["ram_config"].as_str().unwrap_or("default").to_string();
    let sig = doc["signature"].as_str().unwrap_or("").to_string();
    if let Some(class) = sig.strip_prefix("C19:ff-attributes:") {
        let class = class.to_string();
        let Some(d) = gen_synth::design_from_text(&name, &text) else {
            eprintln!("cannot read the port list of module Top");
            return 2;
        };
        let r = run_isolated(256 << 20, move || -> Result<Vec<String>, String> {
            let air = analyze(&d.text)?;
            let l = LIBS.iter().find(|x| x.1 == lib).copied().ok_or("library")?;
            let rc = ram_configs().into_iter().find(|x| x.0 == ram).ok_or("ram config")?;
            let b = synth(&air, l, rc)?;
            Ok(ff_attribute_issues(&d, &b.nl).into_iter().filter(|x| x.0 == class).map(|x| x.1).collect())
        });
        return match r {
            Ok(Ok(v)) if v.is_empty() => {
                println!("attributes match the declaration");
                0
            }
            Ok(Ok(v)) => {
                println!("still differs: {}", v[0]);
                1
            }
            Ok(Err(e)) => {
                eprintln!("replay machinery: {e}");
                2
            }
            Err(p) => {
                eprintln!("replay panicked: {p}");
                2
            }
        };
    }
    let meta = &case["design_meta"];
    let pairs = |v: &J| -> Vec<(String, u32)> {
        v.as_array()
            .map(|a| a.iter().map(|x| (x[0].as_str().unwrap_or("").to_string(), x[1].as_u64().unwrap_or(1) as u32)).collect())
            .unwrap_or_default()
    };
    let d = Design {
        name: name.clone(),
        template: meta["template"].as_str().unwrap_or("replay").to_string(),
        text,
        inputs: pairs(&meta["inputs"]),
        outputs: pairs(&meta["outputs"]),
        clocked: meta["clocked"].as_bool().unwrap_or(false),
        has_reset: meta["has_reset"].as_bool().unwrap_or(false),
        alphabet: None,
        clean: meta["clean"]
            .as_array()
            .map(|a| a.iter().map(|l| l.as_array().map(|x| x.iter().map(|y| y.as_u64().unwrap_or(0)).collect()).unwrap_or_default()).collect())
            .unwrap_or_default(),
        ram_candidate: false,
        quick: false,
    };
    if d.outputs.is_empty() {
        eprintln!("replay file has no design_meta");
        return 2;
    }
    let seq: Vec<Vec<u64>> = case["input_sequence"]
        .as_array()
        .map(|a| {
            a.iter()
                .map(|l| d.inputs.iter().map(|(n, _)| l[n].as_u64().unwrap_or(0)).collect())
                .collect()
        })
        .unwrap_or_default();
    let r = run_isolated(256 << 20, move || -> Result<Option<Mismatch>, String> {
        let air = analyze(&d.text)?;
        let l = LIBS.iter().find(|x| x.1 == lib).copied().ok_or("library")?;
        let rc = ram_configs().into_iter().find(|x| x.0 == ram).ok_or("ram config")?;
        let b = synth(&air, l, rc)?;
        confirm(&d, &air, &b.nl, &seq)
    });
    match r {
        Ok(Ok(Some(m))) => {
            println!("still differs: port {} {} expected(sim) {:#x} observed(netlist) {:#x} after {} letters", m.port, m.phase, m.expected, m.observed, m.seq.len());
            1
        }
        Ok(Ok(None)) => {
            println!("no difference on this sequence");
            0
        }
        Ok(Err(e)) => {
            eprintln!("replay machinery: {e}");
            2
        }
        Err(p) => {
            eprintln!("replay panicked: {p}");
            2
        }
    }
}

#[allow(dead_code)]
fn _unused(_: &dyn veryl_synthesizer::CellLibrary) {
    let _ = library_for;
}

// ------------------------------------------------------------------------------------------
// development probe (`vmc worker synth-probe …`)

pub fn probe(args: &[String]) -> i32 {
    install_quiet_panic_hook();
    let fam = gen_synth::family();
    let what = args.first().map(|s| s.as_str()).unwrap_or("list");
    match what {
        "list" => {
            let q = fam.iter().filter(|d| d.quick).count();
            for d in &fam {
                println!("{} {} bits={} {}", if d.quick { "Q" } else { "-" }, d.name, d.input_bits(), if d.alphabet.is_some() { "corner" } else { "" });
            }
            println!("family {} quick {}", fam.len(), q);
            0
        }
        "accept" => {
            let res = par_map(&fam, |d| {
                let d2 = d.clone();
                let r = run_isolated(256 << 20, move || -> Result<String, String> {
                    let air = analyze(&d2.text)?;
                    let mut s = String::new();
                    for ram in ram_configs() {
                        let b = synth(&air, LIBS[0], ram)?;
                        s.push_str(&format!("{}:c{}f{}r{} ", ram.0, b.nl.cells.len(), b.nl.ffs.len(), b.nl.ram_bits()));
                    }
                    let _ = SimM::new(&air, &d2)?;
                    Ok(s)
                });
                match r {
                    Ok(Ok(s)) => (d.name.clone(), true, s),
                    Ok(Err(e)) => (d.name.clone(), false, e),
                    Err(p) => (d.name.clone(), false, format!("PANIC {p} {:?}", take_panic_loc())),
                }
            });
            let mut bad = 0;
            for (n, ok, s) in &res {
                if !ok {
                    bad += 1;
                    println!("REJECT {n}: {}", s.chars().take(400).collect::<String>());
                } else if args.get(1).map(|x| x == "-v").unwrap_or(false) {
                    println!("ok {n}: {s}");
                }
            }
            println!("{} designs, {} rejected", res.len(), bad);
            0
        }
        pat if pat.starts_with('@') => {
            // `@file.veryl [lib] [ram] [seq]` — seq = letters separated by '/', values by ','
            let text = match std::fs::read_to_string(&pat[1..]) {
                Ok(t) => t,
                Err(e) => {
                    eprintln!("{e}");
                    return 2;
                }
            };
            let lib = args.get(1).and_then(|x| LIBS.iter().find(|l| l.1 == x)).copied().unwrap_or(LIBS[0]);
            let ram = args.get(2).and_then(|x| ram_configs().into_iter().find(|r| r.0 == x)).unwrap_or(ram_configs()[0]);
            let seq: Vec<Vec<u64>> = args
                .get(3)
                .map(|s| s.split('/').map(|l| l.split(',').filter_map(|v| v.parse().ok()).collect()).collect())
                .unwrap_or_default();
            let Some(d) = gen_synth::design_from_text("file", &text) else {
                eprintln!("cannot find module Top ports");
                return 2;
            };
            let r = run_isolated(256 << 20, move || -> Result<(), String> {
                let air = analyze(&d.text)?;
                let b = synth(&air, lib, ram)?;
                println!("{}", b.dump);
                if let (Some(a), Some(t)) = (&b.area, &b.timing) {
                    println!("{a}\n{t}");
                }
                let mut acc = super::c20::Acc::default();
                super::c20::check_built(&d, &b, &mut acc);
                for v in &acc.violations {
                    println!("C20 {}: {}", v.signature, v.what);
                }
                let st = b.nl.structure();
                let mut sim = SimM::new(&air, &d)?;
                sim.init_seq();
                let mut net = NetM::new(&b.nl, &st, &d)?;
                net.power_up_init();
                println!("inputs {:?} outputs {:?}", d.inputs, d.outputs);
                println!("post-reset: sim {:x?} net {:x?}", sim.outs(), net.outs());
                for l in &seq {
                    sim.set(l);
                    net.set(l);
                    let (a, b2) = (sim.outs(), net.outs());
                    sim.step();
                    net.step();
                    println!("{:?}: pre sim {:x?} net {:x?} | post sim {:x?} net {:x?}", l, a, b2, sim.outs(), net.outs());
                }
                if seq.is_empty() {
                    sim.first_init()?;
                    let lim = Limits { max_nodes: 300_000, max_transitions: 4_000_000, flat_budget: 6_000, max_fresh_builds: 300, deadline: std::time::Instant::now() + std::time::Duration::from_secs(120) };
                    let (stats, mm) = explore(&d, &mut sim, &mut net, &lim)?;
                    println!("{:?}", stats);
                    if let Some(m) = mm {
                        println!("MISMATCH {:?}", m);
                    }
                }
                Ok(())
            });
            match r {
                Ok(Ok(())) => 0,
                Ok(Err(e)) => {
                    println!("ERROR {e}");
                    2
                }
                Err(p) => {
                    println!("PANIC {p} {:?}", take_panic_loc());
                    2
                }
            }
        }
        pat => {
            let lib = args.get(1).and_then(|x| LIBS.iter().find(|l| l.1 == x)).copied().unwrap_or(LIBS[0]);
            let ram = args.get(2).and_then(|x| ram_configs().into_iter().find(|r| r.0 == x)).unwrap_or(ram_configs()[0]);
            for d in fam.iter().filter(|d| d.name.contains(pat)) {
                let d2 = d.clone();
                let r = run_isolated(256 << 20, move || -> Result<(), String> {
                    println!("==== {}\n{}", d2.name, d2.text);
                    let air = analyze(&d2.text)?;
                    let b = synth(&air, lib, ram)?;
                    println!("{}", b.dump);
                    if let (Some(a), Some(t)) = (&b.area, &b.timing) {
                        println!("{a}\n{t}");
                    }
                    let mut acc = super::c20::Acc::default();
                    super::c20::check_built(&d2, &b, &mut acc);
                    for v in &acc.violations {
                        println!("C20 {}: {}", v.signature, v.what);
                    }
                    let st = b.nl.structure();
                    let mut sim = SimM::new(&air, &d2)?;
                    sim.first_init()?;
                    let mut net = NetM::new(&b.nl, &st, &d2)?;
                    net.power_up_init();
                    let lim = Limits { max_nodes: 300_000, max_transitions: 4_000_000, flat_budget: 6_000, max_fresh_builds: 300, deadline: std::time::Instant::now() + std::time::Duration::from_secs(120) };
                    let t0 = std::time::Instant::now();
                    let (stats, mm) = explore(&d2, &mut sim, &mut net, &lim)?;
                    println!("{:?} in {:?}", stats, t0.elapsed());
                    if let Some(m) = mm {
                        println!("MISMATCH {:?}", m);
                        println!("confirm: {:?}", confirm(&d2, &air, &b.nl, &m.seq)?);
                    }
                    Ok(())
                });
                match r {
                    Ok(Ok(())) => {}
                    Ok(Err(e)) => println!("ERROR {}: {e}", d.name),
                    Err(p) => println!("PANIC {}: {p} {:?}", d.name, take_panic_loc()),
                }
            }
            0
        }
    }
}

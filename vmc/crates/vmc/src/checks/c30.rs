//! C30 — concurrent veryl processes never corrupt each other.
//!
//! Engine E5 (`crate::e5`): the REAL `veryl` binary, N processes under ptrace, serialised at
//! system-call granularity, every interleaving of their visible file-system / lock operations up
//! to a preemption bound (iterative preemption bounding, partial-order reduction from solo
//! traces). No source hooks.
//!
//! Scenarios (all in scratch, canonical mount):
//!   P1   two `veryl build` of one project (incremental = true), fresh and built+edit states
//!   P1b  `veryl build` ∥ `veryl check`
//!   P1c  `veryl build` ∥ `veryl clean`
//!   P2   `veryl build` ∥ `veryl-ls` (P2e: built project; P2b: two language servers)
//!   P3   two builds of two DIFFERENT projects (exclude_std = false) on one EMPTY user cache
//!   P4   (experimental, on request) two builds sharing a local git dependency
//!
//! Oracles per schedule:
//!   * nobody panics / is killed by a signal, no deadlock, no participant hangs;
//!   * partial read: no participant reads a file another participant has open for writing and
//!     still mutates afterwards (truncate-then-write in progress);
//!   * outcome: (exit status, diagnostics) of every participant and the final output trees equal
//!     those of one of the SERIAL orders (schedules without preemption), and for build-only
//!     scenarios the trees equal a clean build of the same sources;
//!   * follow-up: a further `veryl build` in every project gives exactly the clean build.

use crate::core::*;
use crate::e5::{self, Footprint, PartSpec, RunResult};
use crate::fixture;
use crate::proj::{self, Snap};
use serde_json::{Value, json};
use std::collections::{BTreeMap, BTreeSet};
use std::path::{Path, PathBuf};
use std::sync::Mutex;
use std::time::Duration;

// ------------------------------------------------------------------------------------------
// scenarios
// ------------------------------------------------------------------------------------------

#[derive(Clone)]
struct Scenario {
    name: String,
    what: &'static str,
    parts: Vec<PartSpec>,
    init: Snap,
    /// project directories (relative to the sandbox root) whose output trees are observed
    projects: Vec<&'static str>,
    /// all participants are builds: final trees must equal the clean build
    build_only: bool,
    /// further directories (relative to the root) that belong to the sources (e.g. a git repository)
    extra_keep: Vec<&'static str>,
    /// participants run child processes (git) that perform visible operations one after another
    allow_children: bool,
}

/// Directory of the veryl / veryl-ls binaries (development override: VMC_C30_BIN_DIR).
fn bins() -> PathBuf {
    std::env::var("VMC_C30_BIN_DIR").map(PathBuf::from).unwrap_or_else(|_| bin_dir())
}

fn veryl_part(name: &str, cwd: &str, args: &[&str]) -> PartSpec {
    PartSpec {
        name: name.to_string(),
        program: bins().join("veryl"),
        args: args.iter().map(|x| x.to_string()).collect(),
        cwd_rel: cwd.to_string(),
        env: vec![],
        stdin: None,
        stdin_script: vec![],
        must_not_block: false,
    }
}

fn lsp_msg(v: Value) -> Vec<u8> {
    let body = v.to_string();
    format!("Content-Length: {}\r\n\r\n{}", body.len(), body).into_bytes()
}

/// `veryl-ls` driven over stdio: initialize, didOpen(file), wait for the diagnostics published
/// after the background analysis of the whole project, shutdown, exit.
fn ls_part(name: &str, cwd: &str, file_rel: &str, text: &str) -> PartSpec {
    use e5::StdinStep::*;
    let uri = format!("file://{}/{cwd}/{file_rel}", proj::CANON);
    let mut open = lsp_msg(json!({"jsonrpc":"2.0","method":"initialized","params":{}}));
    open.extend(lsp_msg(json!({"jsonrpc":"2.0","method":"textDocument/didOpen","params":{"textDocument":{"uri":uri,"languageId":"veryl","version":1,"text":text}}})));
    PartSpec {
        name: name.to_string(),
        program: bins().join("veryl-ls"),
        args: vec![],
        cwd_rel: cwd.to_string(),
        env: vec![],
        stdin: None,
        stdin_script: vec![
            Send(lsp_msg(json!({"jsonrpc":"2.0","id":1,"method":"initialize","params":{"processId":null,"rootUri":null,"capabilities":{}}}))),
            WaitStdout { text: "\"id\":1".into(), count: 1 },
            Send(open),
            // first publication: the opened buffer alone; second: after the background pass
            WaitStdout { text: "textDocument/publishDiagnostics".into(), count: 2 },
            Send(lsp_msg(json!({"jsonrpc":"2.0","id":2,"method":"shutdown","params":null}))),
            WaitStdout { text: "\"id\":2".into(), count: 1 },
            Send(lsp_msg(json!({"jsonrpc":"2.0","method":"exit","params":null}))),
            Close,
        ],
        must_not_block: true,
    }
}

/// Diagnostics of the LAST publishDiagnostics notification in an LSP stdout stream.
fn ls_diagnostics(stdout: &str) -> Vec<String> {
    let mut last: Option<Vec<String>> = None;
    let mut rest = stdout;
    while let Some(i) = rest.find("Content-Length: ") {
        rest = &rest[i + 16..];
        let Some(e) = rest.find("\r\n\r\n") else { break };
        let Ok(n) = rest[..e].trim().parse::<usize>() else { break };
        let body_start = e + 4;
        if rest.len() < body_start + n {
            break;
        }
        let body = &rest[body_start..body_start + n];
        rest = &rest[body_start + n..];
        if let Ok(v) = serde_json::from_str::<Value>(body) {
            if v["method"] == "textDocument/publishDiagnostics" {
                let mut d: Vec<String> = v["params"]["diagnostics"]
                    .as_array()
                    .map(|a| a.iter().map(|x| format!("{}:{}: {}", x["range"]["start"]["line"], x["severity"], x["message"].as_str().unwrap_or(""))).collect())
                    .unwrap_or_default();
                d.sort();
                last = Some(d);
            }
        }
    }
    match last {
        Some(d) => d,
        None => vec!["<no publishDiagnostics>".to_string()],
    }
}

fn std_toml(name: &str) -> String {
    format!(
        "[project]\nname = \"{name}\"\nversion = \"0.1.0\"\n\n[build]\nclock_type = \"posedge\"\nreset_type = \"async_low\"\nincremental = true\nsources = [\"src\"]\ntarget = {{type = \"directory\", path = \"target\"}}\n"
    )
}

fn std_user(module: &str, stdmod: &str, port_i: &str, port_o: &str) -> String {
    format!(
        "module {module} (\n    i: input  logic<8>,\n    o: output logic<8>,\n) {{\n    var unused_{module}: logic;\n    inst u: $std::{stdmod} #(\n        WIDTH: 8,\n    ) (\n        {port_i}: i,\n        {port_o}: o,\n    );\n}}\n"
    )
}

fn put(root: &Path, rel: &str, content: &str) {
    let p = root.join(rel);
    std::fs::create_dir_all(p.parent().unwrap()).unwrap();
    std::fs::write(&p, content).unwrap();
    proj::set_mtime(&p, std::time::UNIX_EPOCH + Duration::from_secs(1_600_000_000));
}

fn empty_root(root: &Path, dirs: &[&str]) {
    let _ = std::fs::remove_dir_all(root);
    for d in dirs {
        std::fs::create_dir_all(root.join(d)).unwrap();
    }
}

fn p1_sources(root: &Path) {
    empty_root(root, &["p", "home", "cache"]);
    put(root, "p/Veryl.toml", &fixture::toml(false, false, false));
    put(root, "p/src/pkg.veryl", &fixture::content("src/pkg.veryl", "v0"));
    put(root, "p/src/a.veryl", &fixture::content("src/a.veryl", "v0"));
    put(root, "p/src/b.veryl", &fixture::content("src/b.veryl", "warn"));
}

fn p3_sources(root: &Path) {
    empty_root(root, &["p", "p2", "home", "cache"]);
    put(root, "p/Veryl.toml", &std_toml("prj"));
    put(root, "p/src/top.veryl", &std_user("TopA", "gray_encoder", "i_bin", "o_gray"));
    put(root, "p2/Veryl.toml", &std_toml("prj2"));
    put(root, "p2/src/top.veryl", &std_user("TopB", "gray_decoder", "i_gray", "o_bin"));
}

fn git_env() -> Vec<(String, String)> {
    [
        ("GIT_AUTHOR_NAME", "veryl"),
        ("GIT_AUTHOR_EMAIL", "veryl@example.org"),
        ("GIT_COMMITTER_NAME", "veryl"),
        ("GIT_COMMITTER_EMAIL", "veryl@example.org"),
        ("GIT_AUTHOR_DATE", "2020-01-01T00:00:00Z"),
        ("GIT_COMMITTER_DATE", "2020-01-01T00:00:00Z"),
        ("GIT_CONFIG_NOSYSTEM", "1"),
    ]
    .iter()
    .map(|(k, v)| (k.to_string(), v.to_string()))
    .collect()
}

fn tool(root: &Path, program: &str, cwd: &str, args: &[&str]) -> Result<(), String> {
    let mut spec = veryl_part("setup", cwd, args);
    spec.program = PathBuf::from(program);
    spec.env = git_env();
    let o = e5::run_plain(root, &spec, Duration::from_secs(120));
    if o.exit != Some(0) {
        return Err(format!("setup `{program} {}` in {cwd} failed: exit {:?}: {} {}", args.join(" "), o.exit, o.stdout, o.stderr));
    }
    Ok(())
}

/// P4: two projects depending on one local git repository (published project `dep`).
fn p4_sources(root: &Path) -> Result<(), String> {
    empty_root(root, &["p", "p2", "dep", "home", "cache"]);
    put(
        root,
        "dep/Veryl.toml",
        "[project]\nname = \"dep\"\nversion = \"0.1.0\"\n\n[build]\nclock_type = \"posedge\"\nreset_type = \"async_low\"\nexclude_std = true\nsources = [\"src\"]\ntarget = {type = \"directory\", path = \"target\"}\n\n[publish]\npublish_commit = true\nregister = false\n",
    );
    put(root, "dep/src/dep.veryl", "pub module DepMod (\n    i: input  logic<8>,\n    o: output logic<8>,\n) {\n    assign o = ~i;\n}\n");
    put(root, "dep/.gitignore", ".build/\ntarget/\ndependencies/\nVeryl.lock\n*.f\n");
    let git = "/usr/bin/git";
    tool(root, git, "dep", &["init", "-q", "-b", "main"])?;
    tool(root, git, "dep", &["add", "."])?;
    tool(root, git, "dep", &["commit", "-q", "-m", "dep"])?;
    let veryl = bins().join("veryl");
    tool(root, veryl.to_str().unwrap(), "dep", &["publish"])?;
    let _ = std::fs::remove_dir_all(root.join("dep/.build"));
    for (prj, name, module) in [("p", "prj", "TopA"), ("p2", "prj2", "TopB")] {
        put(
            root,
            &format!("{prj}/Veryl.toml"),
            &format!(
                "[project]\nname = \"{name}\"\nversion = \"0.1.0\"\n\n[build]\nclock_type = \"posedge\"\nreset_type = \"async_low\"\nincremental = true\nexclude_std = true\nsources = [\"src\"]\ntarget = {{type = \"directory\", path = \"target\"}}\n\n[dependencies]\ndep = {{git = \"file://{}/dep\", version = \"0.1.0\"}}\n",
                proj::CANON
            ),
        );
        put(
            root,
            &format!("{prj}/src/top.veryl"),
            &format!("module {module} (\n    i: input  logic<8>,\n    o: output logic<8>,\n) {{\n    inst u: dep::DepMod (\n        i: i,\n        o: o,\n    );\n}}\n"),
        );
    }
    Ok(())
}

fn make_scenarios(root: &Path, thorough: bool, only: &str) -> Result<Vec<Scenario>, String> {
    let mut v = vec![];
    let build = |n: &str, cwd: &str| veryl_part(n, cwd, &["build"]);
    // ---- P1 fresh
    p1_sources(root);
    let p1_fresh = proj::snapshot(root);
    v.push(Scenario {
        name: "P1-fresh".into(),
        what: "two `veryl build` of one never-built project",
        parts: vec![build("build-1", "p"), build("build-2", "p")],
        init: p1_fresh.clone(),
        projects: vec!["p"],
        build_only: true,
        extra_keep: vec![],
        allow_children: false,
    });
    // ---- P1 built + edit
    let o = e5::run_plain(root, &build("b", "p"), Duration::from_secs(120));
    if o.exit != Some(0) {
        return Err(format!("P1 base project does not build: {}", o.stderr));
    }
    let p = root.join("p/src/a.veryl");
    std::fs::write(&p, fixture::content("src/a.veryl", "v1")).unwrap();
    proj::set_mtime(&p, std::time::SystemTime::now());
    let p1_edit = proj::snapshot(root);
    v.push(Scenario {
        name: "P1-edit".into(),
        what: "two `veryl build` of a built project after one source edit",
        parts: vec![build("build-1", "p"), build("build-2", "p")],
        init: p1_edit.clone(),
        projects: vec!["p"],
        build_only: true,
        extra_keep: vec![],
        allow_children: false,
    });
    v.push(Scenario {
        name: "P1b-check".into(),
        what: "`veryl build` alongside `veryl check` (built project after one source edit)",
        parts: vec![build("build", "p"), veryl_part("check", "p", &["check"])],
        init: p1_edit.clone(),
        projects: vec!["p"],
        build_only: false,
        extra_keep: vec![],
        allow_children: false,
    });
    v.push(Scenario {
        name: "P1c-clean".into(),
        what: "`veryl build` alongside `veryl clean` (built project after one source edit)",
        parts: vec![build("build", "p"), veryl_part("clean", "p", &["clean"])],
        init: p1_edit.clone(),
        projects: vec!["p"],
        build_only: false,
        extra_keep: vec![],
        allow_children: false,
    });
    // ---- P2: build alongside the language server
    let mut b_text = fixture::content("src/b.veryl", "warn");
    b_text.push_str("// edited in the editor\n");
    v.push(Scenario {
        name: "P2-ls".into(),
        what: "`veryl build` alongside `veryl-ls` (didOpen of one file + background analysis) on a never-built project",
        parts: vec![build("build", "p"), ls_part("veryl-ls", "p", "src/b.veryl", &b_text)],
        init: p1_fresh.clone(),
        projects: vec!["p"],
        build_only: false,
        extra_keep: vec![],
        allow_children: false,
    });
    if thorough || only.contains("P2e") {
        v.push(Scenario {
            name: "P2e-ls-edit".into(),
            what: "`veryl build` alongside `veryl-ls` on a built project after one source edit",
            parts: vec![build("build", "p"), ls_part("veryl-ls", "p", "src/b.veryl", &b_text)],
            init: p1_edit.clone(),
            projects: vec!["p"],
            build_only: false,
            extra_keep: vec![],
        allow_children: false,
        });
    }
    if thorough || only.contains("P2b") {
        let mut a_text = fixture::content("src/a.veryl", "v1");
        a_text.push_str("// second editor\n");
        v.push(Scenario {
            name: "P2b-ls-ls".into(),
            what: "two `veryl-ls` instances on one project (each: didOpen + background analysis)",
            parts: vec![ls_part("veryl-ls-1", "p", "src/b.veryl", &b_text), ls_part("veryl-ls-2", "p", "src/a.veryl", &a_text)],
            init: p1_edit.clone(),
            projects: vec!["p"],
            build_only: false,
            extra_keep: vec![],
        allow_children: false,
        });
    }
    // ---- P3
    p3_sources(root);
    let p3 = proj::snapshot(root);
    v.push(Scenario {
        name: "P3-std".into(),
        what: "builds of two different projects (exclude_std = false) sharing one empty user cache",
        parts: vec![build("build-p", "p"), build("build-p2", "p2")],
        init: p3,
        projects: vec!["p", "p2"],
        build_only: true,
        extra_keep: vec![],
        allow_children: false,
    });
    // ---- P4 (git dependency shared through the user cache)
    // EXPERIMENTAL, only on request (VMC_C30_ONLY=P4): git's own operation sequence is not
    // reproducible from run to run (the number of refs/index probes varies), so deep prefixes
    // diverge on replay; see REPORT.
    if only.contains("P4") {
        p4_sources(root)?;
        let p4 = proj::snapshot(root);
        let mut a = build("build-p", "p");
        let mut b = build("build-p2", "p2");
        a.env = git_env();
        b.env = git_env();
        v.push(Scenario {
            name: "P4-gitdep".into(),
            what: "builds of two projects sharing one git dependency (local repository) on an empty user cache",
            parts: vec![a, b],
            init: p4,
            projects: vec!["p", "p2"],
            build_only: true,
            extra_keep: vec!["dep"],
            allow_children: true,
        });
    }
    // ---- P2s: build alongside the language server on a project that uses the standard library,
    // empty user cache (the server's metadata.paths() expands std under a blocking lock)
    if thorough || only.contains("P2s") {
        p3_sources(root);
        let p3b = proj::snapshot(root);
        let text = std_user("TopA", "gray_encoder", "i_bin", "o_gray");
        v.push(Scenario {
            name: "P2s-ls-std".into(),
            what: "`veryl build` alongside `veryl-ls` on a project with exclude_std = false, empty user cache",
            parts: vec![build("build", "p"), ls_part("veryl-ls", "p", "src/top.veryl", &text)],
            init: p3b,
            projects: vec!["p"],
            build_only: false,
            extra_keep: vec![],
            allow_children: false,
        });
    }
    if !only.is_empty() {
        v.retain(|s| only.split(',').any(|o| s.name.starts_with(o)));
    }
    Ok(v)
}

// ------------------------------------------------------------------------------------------
// observations
// ------------------------------------------------------------------------------------------

#[derive(Clone, Debug, PartialEq, Eq, PartialOrd, Ord)]
struct PartObs {
    exit: Option<i32>,
    signal: Option<i32>,
    panicked: bool,
    diags: Vec<String>,
}

#[derive(Clone, Debug, PartialEq, Eq, PartialOrd, Ord)]
struct Outcome {
    parts: Vec<PartObs>,
    trees: Vec<BTreeMap<String, String>>,
}

fn part_obs(o: &e5::PartOutcome) -> PartObs {
    let panicked = o.exit == Some(101) || o.stderr.contains("panicked at") || matches!(o.signal, Some(4) | Some(6) | Some(7) | Some(11));
    // a language-server participant: its diagnostics travel on stdout
    let diags = if o.stdout.contains("Content-Length: ") { ls_diagnostics(&o.stdout) } else { proj::diag_blocks(&o.stderr) };
    PartObs { exit: o.exit, signal: o.signal, panicked, diags }
}

fn tree_of(root: &Path, prj: &str) -> BTreeMap<String, String> {
    proj::output_tree(&root.join(prj), &["src/", "Veryl.toml"])
}

fn outcome_json(o: &Outcome) -> Value {
    json!({
        "participants": o.parts.iter().map(|p| json!({"exit": p.exit, "signal": p.signal, "panicked": p.panicked, "diagnostics": p.diags})).collect::<Vec<_>>(),
        "trees": o.trees,
    })
}

fn tree_diff(a: &BTreeMap<String, String>, b: &BTreeMap<String, String>) -> Vec<String> {
    let mut d = vec![];
    for (k, v) in a {
        match b.get(k) {
            None => d.push(format!("missing:{k}")),
            Some(x) if x != v => d.push(format!("differs:{k}")),
            _ => {}
        }
    }
    for k in b.keys() {
        if !a.contains_key(k) {
            d.push(format!("extra:{k}"));
        }
    }
    d
}

/// Clean-build reference of a project: only Veryl.toml + sources, empty cache.
struct CleanRef {
    obs: PartObs,
    tree: BTreeMap<String, String>,
}

fn clean_reference(root: &Path, sc: &Scenario, prj: &str) -> CleanRef {
    let mut s = Snap::default();
    s.dirs = vec!["home".into(), "cache".into()];
    for d in &sc.projects {
        s.dirs.push(d.to_string());
    }
    for d in &sc.init.dirs {
        if sc.extra_keep.iter().any(|k| d == k || d.starts_with(&format!("{k}/"))) {
            s.dirs.push(d.clone());
        }
    }
    for (rel, v) in &sc.init.files {
        let keep = sc.projects.iter().any(|p| *rel == format!("{p}/Veryl.toml") || rel.starts_with(&format!("{p}/src/")))
            || sc.extra_keep.iter().any(|d| rel.starts_with(&format!("{d}/")));
        if keep {
            s.files.insert(rel.clone(), v.clone());
        }
    }
    proj::restore(root, &s);
    let o = e5::run_plain(root, &veryl_part("clean-ref", prj, &["build"]), Duration::from_secs(180));
    CleanRef { obs: part_obs(&o), tree: tree_of(root, prj) }
}

struct Eval {
    schedule_rle: String,
    outcome: Outcome,
    post: Vec<(PartObs, BTreeMap<String, String>)>,
    partial: Vec<(String, String, Value)>, // (signature tail, what, detail)
    deadlock: Option<String>,
    error: Option<String>,
    multi_visible: Vec<String>,
    preempted_in_cs: bool,
    n_sched: Vec<usize>,
    race: String,
    race_ops: Vec<String>,
    blocked: Vec<String>,
    stalled: Option<String>,
}

fn kind_of_path(p: &str) -> &'static str {
    if p.starts_with("cache/veryl/std") {
        if p.ends_with(".veryl") {
            "std-file"
        } else if p.ends_with("/lock") {
            "std-lock"
        } else {
            "std-dir"
        }
    } else if p.starts_with("cache/veryl/dependencies") || p.starts_with("cache/veryl/resolve") {
        if p.ends_with("/lock") { "dependency-lock" } else { "dependency-checkout" }
    } else if p.ends_with("manifest.toml") {
        "manifest"
    } else if p.ends_with(".frag") {
        "blob"
    } else if p.ends_with("info.toml") {
        "build-info"
    } else if p.ends_with("Veryl.lock") {
        "lockfile"
    } else if p.ends_with(".build/lock") {
        "build-lock"
    } else if p.ends_with(".build/cache/lock") {
        "store-lock"
    } else if p.ends_with(".build/cache-ls/lock") {
        "ls-store-lock"
    } else if p.ends_with(".build") {
        "build-dir"
    } else if p.ends_with(".sv") || p.ends_with(".f") || p.ends_with(".map") {
        "output"
    } else if p.ends_with(".veryl") || p.ends_with("Veryl.toml") {
        "source"
    } else if p.contains("/dependencies") {
        "output-dir"
    } else {
        "other"
    }
}

fn race_class(r: &RunResult) -> String {
    match e5::race_pair(r) {
        Some((x, y)) => format!("{}({})/{}({})", x.kind.as_str(), kind_of_path(&x.path), y.kind.as_str(), kind_of_path(&y.path)),
        None => "no-direct-conflict".to_string(),
    }
}

fn evaluate(sc: &Scenario, root: &Path, r: &RunResult, with_post: bool) -> Eval {
    let outcome = Outcome {
        parts: r.parts.iter().map(part_obs).collect(),
        trees: sc.projects.iter().map(|p| tree_of(root, p)).collect(),
    };
    let mut partial = vec![];
    for pr in e5::partial_reads(r) {
        let kind = kind_of_path(&pr.path);
        let lo = pr.read_idx.saturating_sub(3);
        let hi = (pr.next_mutation_idx + 1).min(r.ops.len());
        let window: Vec<String> = r.ops[lo..hi].iter().map(|o| format!("{}:{}={}", sc.parts[o.part].name, o.label(), o.ret)).collect();
        partial.push((
            format!("partial-read:{kind}"),
            format!(
                "{} reads {} while {} has it open for writing and has not finished (next mutation: {})",
                sc.parts[pr.reader].name,
                pr.path,
                sc.parts[pr.writer].name,
                r.ops[pr.next_mutation_idx].label()
            ),
            json!({"path": pr.path, "reader": sc.parts[pr.reader].name, "writer": sc.parts[pr.writer].name, "operations": window}),
        ));
    }
    // vacuity: was some participant preempted while it held a lock (inside a critical section)?
    let mut preempted_in_cs = false;
    {
        let mut held: Vec<i32> = vec![0; sc.parts.len()];
        let mut last: Option<usize> = None;
        for o in &r.ops {
            if let Some(l) = last {
                if l != o.part && held[l] > 0 {
                    preempted_in_cs = true;
                }
            }
            match o.kind {
                e5::OpKind::Lock | e5::OpKind::TryLock if o.ret == 0 => held[o.part] += 1,
                e5::OpKind::Unlock | e5::OpKind::CloseLocked => held[o.part] = (held[o.part] - 1).max(0),
                _ => {}
            }
            last = Some(o.part);
        }
    }
    let mut post = vec![];
    if with_post && r.error.is_none() && r.deadlock.is_none() && r.stalled.is_none() {
        for p in &sc.projects {
            let o = e5::run_plain(root, &veryl_part("follow-up", p, &["build"]), Duration::from_secs(180));
            post.push((part_obs(&o), tree_of(root, p)));
        }
    }
    Eval {
        schedule_rle: e5::rle(&r.schedule()),
        outcome,
        post,
        partial,
        deadlock: r.deadlock.clone(),
        error: r.error.clone(),
        multi_visible: r.multi_visible.clone(),
        preempted_in_cs,
        n_sched: r.parts.iter().map(|p| p.n_sched).collect(),
        race: race_class(r),
        blocked: r.blocked_must_not.clone(),
        stalled: r.stalled.map(|i| sc.parts[i].name.clone()),
        race_ops: e5::race_pair(r).map(|(x, y)| vec![format!("{}: {}", sc.parts[x.part].name, x.label()), format!("{}: {}", sc.parts[y.part].name, y.label())]).unwrap_or_default(),
    }
}

// ------------------------------------------------------------------------------------------
// one scenario
// ------------------------------------------------------------------------------------------

/// All oracle failures of one evaluated schedule: (signature, what, expected, observed).
fn violations_of(sc: &Scenario, v: &Eval, serial: &BTreeSet<Outcome>, cleans: &[CleanRef]) -> Vec<(String, String, Value, Value)> {
    let mut out = vec![];
    if let Some(d) = &v.deadlock {
        let mut locks: Vec<&str> = d.split("; ").filter_map(|x| x.split(" waits at ").nth(1)).filter_map(|x| x.split(' ').next()).map(|l| kind_of_path(l.rsplit(':').next().unwrap_or(""))).collect();
        locks.sort();
        locks.dedup();
        out.push((format!("C30:{}:deadlock:{}", sc.name, locks.join("+")), format!("deadlock: {d}"), json!("every live participant eventually enabled"), json!(d)));
        return out;
    }
    for (sig, what, detail) in &v.partial {
        out.push((format!("C30:{sig}"), format!("[{}] {what}", sc.name), json!("no read of a file whose writer has not finished"), detail.clone()));
    }
    if let Some(who) = &v.stalled {
        out.push((
            format!("C30:{}:stalled:{}", sc.name, v.race),
            format!("{who} stopped making progress in schedule [{}] (it never produced the output its client waits for, e.g. the diagnostics after the background analysis; first interfering operations {:?})", v.schedule_rle, v.race_ops),
            json!("the participant finishes as in its solo run"),
            json!({"stalled": who}),
        ));
        return out;
    }
    for b in &v.blocked {
        let f: Vec<&str> = b.split('|').collect();
        out.push((
            format!("C30:{}:ls-blocks-on-{}", sc.name, kind_of_path(f.get(1).unwrap_or(&""))),
            format!("{} is disabled at a blocking flock on {} held by participant {} in schedule [{}]", f.first().unwrap_or(&""), f.get(1).unwrap_or(&""), f.get(2).unwrap_or(&""), v.schedule_rle),
            json!("the language server never waits on a lock another process holds"),
            json!(b),
        ));
    }
    for (i, p) in v.outcome.parts.iter().enumerate() {
        if p.panicked || p.signal.is_some() {
            out.push((
                format!("C30:{}:panic:{}", sc.name, sc.parts[i].name),
                format!("{} panicked or was killed by a signal", sc.parts[i].name),
                json!("normal termination"),
                json!({"exit": p.exit, "signal": p.signal, "diagnostics": p.diags}),
            ));
        }
    }
    if !serial.contains(&v.outcome) {
        let parts_ok = serial.iter().any(|s| s.parts == v.outcome.parts);
        let mut diffs: Vec<String> = vec![];
        if let Some(s) = serial.iter().next() {
            for (t, st) in v.outcome.trees.iter().zip(&s.trees) {
                diffs.extend(tree_diff(st, t));
            }
        }
        let detail = if parts_ok {
            let kinds: BTreeSet<&str> = diffs.iter().map(|d| d.split(':').next().unwrap_or("")).collect();
            format!("outputs[{}]", kinds.into_iter().collect::<Vec<_>>().join(","))
        } else {
            let who: Vec<String> = (0..sc.parts.len())
                .filter(|&i| !serial.iter().any(|s| s.parts[i] == v.outcome.parts[i]))
                .map(|i| format!("{}:exit{}", sc.parts[i].name, v.outcome.parts[i].exit.map(|x| x.to_string()).unwrap_or("-".into())))
                .collect();
            format!("result[{}]", who.join(","))
        };
        let class = v.race.clone();
        out.push((
            format!("C30:{}:not-serializable:{class}", sc.name),
            format!(
                "the outcome of schedule [{}] equals no serial order of the participants ({detail}; first interfering operations {:?}; tree differences vs first serial order: {:?})",
                v.schedule_rle,
                v.race_ops,
                diffs.iter().take(6).collect::<Vec<_>>()
            ),
            json!(serial.iter().map(outcome_json).collect::<Vec<_>>()),
            outcome_json(&v.outcome),
        ));
    }
    for ((p, c), (po, pt)) in sc.projects.iter().zip(cleans).zip(&v.post) {
        if *po != c.obs || *pt != c.tree {
            let what = if po.panicked {
                "panic"
            } else if po.exit != c.obs.exit {
                "exit"
            } else if po.diags != c.obs.diags {
                "diagnostics"
            } else {
                "outputs"
            };
            out.push((
                format!("C30:{}:follow-up-build:{what}", sc.name),
                format!(
                    "after schedule [{}] a further `veryl build` of {p} differs from the clean build in {what} ({:?})",
                    v.schedule_rle,
                    tree_diff(&c.tree, pt).iter().take(6).collect::<Vec<_>>()
                ),
                json!({"exit": c.obs.exit, "diagnostics": c.obs.diags, "tree": c.tree}),
                json!({"exit": po.exit, "diagnostics": po.diags, "tree": pt}),
            ));
        }
    }
    out
}

struct ScenarioStats {
    json: Value,
    runs: u64,
    states: u64,
    transitions: u64,
    distinct_outcomes: usize,
    preempted_in_cs: u64,
    outcomes: BTreeSet<Outcome>,
    signatures: BTreeSet<String>,
}

/// The incremental-cache blobs are content addressed and their content is not reproducible from
/// run to run (so whether "the same" blob already exists, and under which name, varies): their
/// operations are kept out of the scheduling points. Both stores are only touched under the store lock.
fn unstable_paths() -> Vec<String> {
    vec!["/.build/cache/fragments/".to_string(), "/.build/cache-ls/fragments/".to_string()]
}

fn case_json(sc: &Scenario, schedule: &[u8], por: bool) -> Value {
    json!({
        "engine": "E5",
        "scenario": sc.name,
        "participants": sc.parts.iter().map(|p| format!("{} (cwd {}): veryl {}", p.name, p.cwd_rel, p.args.join(" "))).collect::<Vec<_>>(),
        "schedule": schedule,
        "schedule_rle": e5::rle(schedule),
        "por": por,
    })
}

fn solo_footprints(sc: &Scenario, root: &Path, rep: &mut Report) -> Option<(Vec<Footprint>, Vec<usize>)> {
    let mut fps = vec![];
    let mut counts = vec![];
    for (i, p) in sc.parts.iter().enumerate() {
        proj::restore(root, &sc.init);
        let odir = e5::out_dir_of(root);
        let r = e5::run_schedule(&e5::RunCfg {
            root,
            out_dir: &odir,
            parts: std::slice::from_ref(p),
            footprints: &[],
            prefix: &[],
            prefix_hashes: &[],
            prefix_labels: &[],
            por: true, // alone: nothing conflicts, the participant runs through
            unstable: &unstable_paths(),
        hang_ms: 60_000,
            stall_ms: 30_000,
            max_decisions: 1_000_000,
        });
        if let Some(e) = &r.error {
            rep.machinery(format!("{}: solo trace of participant {i} failed: {e}", sc.name));
            return None;
        }
        if r.parts[0].visible_tids > 1 && sc.allow_children {
            rep.notes.push(format!(
                "{}: participant {} performs visible operations in {} processes (git children, one after another); unordered concurrent operations inside a participant would show up as replay divergence",
                sc.name, p.name, r.parts[0].visible_tids
            ));
        } else if r.parts[0].visible_tids > 1 {
            rep.machinery(format!(
                "{}: participant {} performs visible operations on {} threads/processes; the serialisation assumes one (machinery limitation)",
                sc.name, p.name, r.parts[0].visible_tids
            ));
            return None;
        }
        if r.ops.is_empty() {
            rep.machinery(format!("{}: solo trace of {} is empty (ptrace decoding broken?)", sc.name, p.name));
            return None;
        }
        counts.push(r.ops.len());
        fps.push(e5::footprint_of(&r, 0));
    }
    Some((fps, counts))
}

fn run_scenario(ctx: &Ctx, sc: &Scenario, roots: &[PathBuf], max_bound: u32, deadline: f64, rep: &mut Report, with_post: bool, por: bool, sleep: bool) -> Option<ScenarioStats> {
    let root0 = &roots[0];
    // clean references
    let cleans: Vec<CleanRef> = sc.projects.iter().map(|p| clean_reference(root0, sc, p)).collect();
    for (p, c) in sc.projects.iter().zip(&cleans) {
        if c.obs.exit != Some(0) || c.tree.is_empty() {
            rep.machinery(format!("{}: clean build of {p} fails: exit {:?} diags {:?}", sc.name, c.obs.exit, c.obs.diags));
            return None;
        }
    }
    let (fps, solo_counts) = solo_footprints(sc, root0, rep)?;
    let init = sc.init.clone();
    let restore = move |r: &Path| proj::restore(r, &init);
    let oob = || ctx.elapsed() > deadline;
    let cfg = e5::ExploreCfg {
        parts: &sc.parts,
        roots,
        restore: &restore,
        footprints: &fps,
        por,
        sleep,
        max_bound,
        out_of_budget: &oob,
        unstable: &unstable_paths(),
        hang_ms: 60_000,
        stall_ms: 30_000,
        max_decisions: 100_000,
    };
    let ev = |root: &Path, r: &RunResult| evaluate(sc, root, r, with_post);
    let verbose = std::env::var("VMC_C30_VERBOSE").is_ok();
    if verbose {
        eprintln!("[{:.0}s] {}: solo ops {:?}, exploring (por {por}, pruning {sleep}, bound {max_bound})", ctx.elapsed(), sc.name, solo_counts);
    }
    let out = e5::explore(&cfg, &ev);
    if verbose {
        eprintln!("[{:.0}s] {}: {} schedules {:?}, pruned {}, completed {:?}, capped {}", ctx.elapsed(), sc.name, out.runs.len(), out.runs_per_bound, out.pruned_equivalent, out.bound_completed, out.capped);
    }
    for e in &out.errors {
        rep.machinery(format!("{}: {e}", sc.name));
    }
    // expected outcomes = the serial orders (cost 0)
    let serial: BTreeSet<Outcome> = out.runs.iter().filter(|r| r.cost == 0 && r.value.error.is_none() && r.value.deadlock.is_none() && r.value.stalled.is_none()).map(|r| r.value.outcome.clone()).collect();
    if serial.is_empty() {
        rep.machinery(format!("{}: no serial schedule finished", sc.name));
        return None;
    }
    let viols: Mutex<Vec<Violation>> = Mutex::new(vec![]);
    let mut seen_sig: BTreeSet<String> = BTreeSet::new();
    let mut distinct: BTreeSet<Outcome> = BTreeSet::new();
    let mut preempted = 0u64;
    let mut multi = BTreeSet::new();
    let mut sched_max = vec![0usize; sc.parts.len()];
    let mut runs_sorted: Vec<&e5::ExploredRun<Eval>> = out.runs.iter().collect();
    // minimal schedules first: fewer preemptions, then shorter
    runs_sorted.sort_by_key(|r| (r.cost, r.schedule.len(), r.schedule.clone()));
    for r in runs_sorted {
        let v = &r.value;
        if v.error.is_some() {
            continue;
        }
        for (i, n) in v.n_sched.iter().enumerate() {
            sched_max[i] = sched_max[i].max(*n);
        }
        for m in &v.multi_visible {
            multi.insert(m.clone());
        }
        distinct.insert(v.outcome.clone());
        if v.preempted_in_cs {
            preempted += 1;
        }
        for (sig, what, expected, observed) in violations_of(sc, v, &serial, &cleans) {
            if seen_sig.insert(sig.clone()) {
                viols.lock().unwrap().push(Violation { signature: sig, what, case: case_json(sc, &r.schedule, por), expected, observed });
            }
        }
    }
    // serial orders of build-only scenarios must give the clean build (a disagreement here is not
    // a concurrency matter; reported as a note so that it is visible)
    if sc.build_only {
        for s in &serial {
            for ((t, c), p) in s.trees.iter().zip(&cleans).zip(&sc.projects) {
                if *t != c.tree {
                    rep.notes.push(format!("{}: a SERIAL order leaves {p} different from the clean build: {:?}", sc.name, tree_diff(&c.tree, t)));
                }
            }
        }
    }
    if !multi.is_empty() {
        rep.machinery(format!("{}: concurrent visible operations inside one participant: {:?}", sc.name, multi.iter().take(3).collect::<Vec<_>>()));
    }
    // confirm every violation by replaying its schedule once more
    let mut confirmed = vec![];
    for v in viols.into_inner().unwrap() {
        let sched: Vec<u8> = v.case["schedule"].as_array().unwrap().iter().map(|x| x.as_u64().unwrap() as u8).collect();
        proj::restore(root0, &sc.init);
        let odir = e5::out_dir_of(root0);
        let r = e5::run_schedule(&e5::RunCfg {
            root: root0,
            out_dir: &odir,
            parts: &sc.parts,
            footprints: &fps,
            prefix: &sched,
            prefix_hashes: &[],
            prefix_labels: &[],
            por,
            unstable: &unstable_paths(),
        hang_ms: 60_000,
            stall_ms: 30_000,
            max_decisions: 100_000,
        });
        let e2 = evaluate(sc, root0, &r, with_post);
        let again = violations_of(sc, &e2, &serial, &cleans);
        // (the tail of a schedule may be a few decisions longer or shorter from run to run; the
        // forced prefix is what matters)
        if r.error.is_none() && again.iter().any(|x| x.0 == v.signature) {
            confirmed.push(v);
        } else {
            rep.machinery(format!("{}: violation {} did not reproduce when its schedule [{}] was replayed: {:?} / {:?}", sc.name, v.signature, e5::rle(&sched), r.error, again.iter().map(|x| x.0.clone()).collect::<Vec<_>>()));
        }
    }
    for v in confirmed {
        rep.violation(v);
    }
    let runs = out.runs.len() as u64;
    for r in out.runs.iter().filter(|r| r.cost > 0 && r.value.error.is_none()).take(2) {
        rep.sample(json!({
            "scenario": sc.name,
            "schedule_rle": r.value.schedule_rle,
            "preemptions": r.cost,
            "exit_codes": r.value.outcome.parts.iter().map(|p| p.exit).collect::<Vec<_>>(),
            "first_interfering_operations": r.value.race_ops,
        }));
    }
    let j = json!({
        "scenario": sc.name,
        "what": sc.what,
        "participants": sc.parts.iter().map(|p| p.name.clone()).collect::<Vec<_>>(),
        "solo_visible_operations": solo_counts,
        "scheduling_points": sched_max,
        "max_decisions_in_a_schedule": out.max_decisions_seen,
        "schedules_run": runs,
        "schedules_per_bound": out.runs_per_bound,
        "preemption_bound_requested": max_bound,
        "preemption_bound_completed": out.bound_completed,
        "schedules_not_run": out.not_run,
        "preemption_points_pruned_as_equivalent": out.pruned_equivalent,
        "capped_by_budget": out.capped,
        "distinct_final_outcomes": distinct.len(),
        "serial_outcomes": serial.len(),
        "schedules_preempting_inside_a_critical_section": preempted,
        "por": por,
        "equivalence_pruning": sleep,
    });
    Some(ScenarioStats { json: j, runs, states: out.states, transitions: out.transitions, distinct_outcomes: distinct.len(), preempted_in_cs: preempted, outcomes: distinct, signatures: seen_sig })
}

pub fn run(ctx: &Ctx) -> Report {
    let mut rep = Report::new(Level::ModelChecking);
    if let Err(e) = proj::ensure_canon() {
        rep.machinery(e);
        return rep;
    }
    let budget = ctx.budget(42.0, 1700.0);
    let nthreads = rayon::current_num_threads().max(1);
    let roots: Vec<PathBuf> = (0..nthreads).map(|i| ctx.scratch.join(format!("w{i}"))).collect();
    let only = std::env::var("VMC_C30_ONLY").unwrap_or_default();
    let scenarios = match make_scenarios(&roots[0], ctx.thorough(), &only) {
        Ok(s) => s,
        Err(e) => {
            rep.machinery(e);
            return rep;
        }
    };
    let max_bound: u32 = std::env::var("VMC_C30_BOUND").ok().and_then(|x| x.parse().ok()).unwrap_or(if ctx.thorough() { 2 } else { 1 });
    let with_post = std::env::var("VMC_C30_POST").map(|x| x != "0").unwrap_or(true);
    let sleep = std::env::var("VMC_C30_NOSLEEP").is_err();
    let xcheck = std::env::var("VMC_C30_XCHECK").map(|x| x != "0").unwrap_or(ctx.thorough());
    let mut reduced: Option<(BTreeSet<Outcome>, BTreeSet<String>, bool)> = None;
    let mut per = vec![];
    let (mut runs, mut states, mut transitions) = (0u64, 0u64, 0u64);
    let mut all_exhaustive = true;
    let mut min_bound: Option<u32> = Some(max_bound);
    let mut nontrivial = 0u64;
    let n = scenarios.len();
    let mut skipped: Vec<String> = vec![];
    for (i, sc) in scenarios.iter().enumerate() {
        if ctx.elapsed() > budget {
            skipped.push(sc.name.clone());
            all_exhaustive = false;
            min_bound = None;
            continue;
        }
        // budget share: remaining time split evenly over the remaining scenarios
        let remaining = (budget - ctx.elapsed()).max(1.0);
        let deadline = ctx.elapsed() + remaining / (n - i) as f64;
        match run_scenario(ctx, sc, &roots, max_bound, deadline, &mut rep, with_post, true, sleep) {
            Some(st) => {
                runs += st.runs;
                states += st.states;
                transitions += st.transitions;
                nontrivial += st.preempted_in_cs;
                let done = st.json["preemption_bound_completed"].as_u64().map(|x| x as u32);
                if sc.name == "P1c-clean" {
                    reduced = Some((st.outcomes.clone(), st.signatures.clone(), done.is_some_and(|d| d >= 1)));
                }
                if done != Some(max_bound) {
                    all_exhaustive = false;
                }
                min_bound = match (min_bound, done) {
                    (Some(a), Some(b)) => Some(a.min(b)),
                    _ => None,
                };
                per.push(st.json);
            }
            None => {
                all_exhaustive = false;
            }
        }
    }
    // cross-check of the reductions on the smallest scenario: without equivalence pruning and
    // without the partial-order reduction the same final outcomes and failures must be reached
    if xcheck {
        if let (Some(sc), Some((o_red, s_red, complete))) = (scenarios.iter().find(|s| s.name == "P1c-clean"), reduced) {
            let mut cmp = vec![];
            for (label, por, slp) in [("no-pruning", true, false), ("no-por", false, false)] {
                let deadline = ctx.elapsed() + (budget - ctx.elapsed()).max(30.0);
                if let Some(st) = run_scenario(ctx, sc, &roots, 1, deadline, &mut rep, with_post, por, slp) {
                    let full = st.json["preemption_bound_completed"].as_u64() == Some(1);
                    let same = st.outcomes == o_red && st.signatures == s_red;
                    cmp.push(json!({"configuration": label, "schedules": st.runs, "bound_1_completed": full, "same_outcomes_and_failures": same}));
                    runs += st.runs;
                    states += st.states;
                    transitions += st.transitions;
                    if full && complete && max_bound >= 1 && !same {
                        rep.machinery(format!("reduction cross-check ({label}) on P1c-clean reaches different outcomes/failures: {} vs {} outcomes, {:?} vs {:?}", st.outcomes.len(), o_red.len(), st.signatures, s_red));
                    }
                }
            }
            rep.set("reduction_cross_check", json!(cmp));
        }
    }
    rep.set("scenarios_skipped_by_budget", json!(skipped));
    rep.set("states", states);
    rep.set("transitions", transitions);
    rep.set("traces_validated_against_impl", runs);
    rep.set("scenarios", json!(per));
    rep.set("preemption_bound_requested", max_bound);
    rep.set("preemption_bound_completed_all_scenarios", json!(min_bound));
    rep.set("exhaustive", all_exhaustive);
    rep.set("schedules_preempting_inside_a_critical_section", nontrivial);
    rep.set("threads", nthreads as u64);
    rep.assume("execution is serialised at system-call granularity: interleavings inside one system call, and of memory-only steps, are not distinguished (they cannot be observed through the file system)");
    rep.assume("partial-order reduction: an operation is a scheduling point only if it conflicts (same path or directory entry, one side writing/locking) with an operation in another participant's solo trace or earlier in the same run");
    rep.assume("flock is modelled in the controller (a blocking request on a held lock disables the participant); the kernel still performs the real locking, a wrong model shows as a watchdog hang");
    rep.assume("operations on the content-addressed blob files of the incremental cache (.build/cache*/fragments/) are never scheduling points: blob contents, hence names and the exists-already test, are not reproducible between two runs of the same schedule; they are only touched under the store lock and stay subject to the partial-read oracle");
    if runs < 4 || transitions == 0 {
        rep.machinery("vacuity guard: fewer than 4 schedules explored");
    }
    if nontrivial == 0 && rep.machinery_errors.is_empty() {
        rep.machinery("vacuity guard: no schedule preempted a participant inside a critical section");
    }
    rep
}

pub fn replay(doc: &Value) -> i32 {
    let case = &doc["case"];
    let name = case["scenario"].as_str().unwrap_or("");
    let sched: Vec<u8> = case["schedule"].as_array().map(|a| a.iter().map(|x| x.as_u64().unwrap_or(0) as u8).collect()).unwrap_or_default();
    let por = case["por"].as_bool().unwrap_or(true);
    let ctx = Ctx::new("C30", Tier::Quick);
    if proj::ensure_canon().is_err() {
        return 2;
    }
    let root = ctx.scratch.join("w0");
    let scs = match make_scenarios(&root, true, name) {
        Ok(s) => s,
        Err(e) => {
            eprintln!("{e}");
            return 2;
        }
    };
    let Some(sc) = scs.iter().find(|s| s.name == name) else {
        eprintln!("unknown scenario {name}");
        return 2;
    };
    let mut rep = Report::new(Level::ModelChecking);
    let Some((fps, _)) = solo_footprints(sc, &root, &mut rep) else {
        eprintln!("{:?}", rep.machinery_errors);
        return 2;
    };
    proj::restore(&root, &sc.init);
    let odir = e5::out_dir_of(&root);
    let r = e5::run_schedule(&e5::RunCfg {
        root: &root,
        out_dir: &odir,
        parts: &sc.parts,
        footprints: &fps,
        prefix: &sched,
        prefix_hashes: &[],
        prefix_labels: &[],
        por,
        unstable: &unstable_paths(),
        hang_ms: 60_000,
        stall_ms: 30_000,
        max_decisions: 100_000,
    });
    if let Some(e) = &r.error {
        eprintln!("machinery: {e}");
        return 2;
    }
    let ev = evaluate(sc, &root, &r, true);
    println!("scenario {name}, schedule [{}] ({} decisions)", ev.schedule_rle, r.decisions.len());
    if std::env::var("VMC_C30_TRACE").is_ok() {
        for o in &r.ops {
            println!("  {}{} {} = {}", if o.sched { "*" } else { " " }, sc.parts[o.part].name, o.label(), o.ret);
        }
    }
    for (i, p) in ev.outcome.parts.iter().enumerate() {
        println!("  {}: exit {:?} signal {:?} panicked {} diagnostics {:?}", sc.parts[i].name, p.exit, p.signal, p.panicked, p.diags);
    }
    for (p, t) in sc.projects.iter().zip(&ev.outcome.trees) {
        println!("  tree {p}: {} files", t.len());
    }
    let mut bad = false;
    if let Some(d) = &ev.deadlock {
        println!("  DEADLOCK: {d}");
        bad = true;
    }
    for (sig, what, _) in &ev.partial {
        println!("  {sig}: {what}");
        bad = true;
    }
    let observed = outcome_json(&ev.outcome);
    if doc["observed"] == observed {
        println!("  outcome equals the recorded (violating) outcome");
        bad = true;
    }
    let cleans: Vec<CleanRef> = sc.projects.iter().map(|p| clean_reference(&root, sc, p)).collect();
    for ((p, c), (po, pt)) in sc.projects.iter().zip(&cleans).zip(&ev.post) {
        if *po != c.obs || *pt != c.tree {
            println!("  follow-up build of {p} differs from the clean build: {:?}", tree_diff(&c.tree, pt));
            bad = true;
        }
        if sc.build_only {
            let idx = sc.projects.iter().position(|x| x == p).unwrap();
            let d = tree_diff(&c.tree, &ev.outcome.trees[idx]);
            if !d.is_empty() {
                println!("  final tree of {p} differs from the clean build: {d:?}");
                bad = true;
            }
        }
    }
    if bad {
        println!("VIOLATION reproduced");
        1
    } else {
        println!("no violation on this tree");
        0
    }
}

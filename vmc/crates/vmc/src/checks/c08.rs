//! C08 — formatting is idempotent: fmt(fmt(x)) == fmt(x).
//!
//! Space: corpus (small catalogue + testcases/veryl + std sources), every file under layout
//! deviations (gen_fmt::layout_variants: every single gap x every letter of FMT_LETTERS, every
//! letter at all gaps at once, two deviations on adjacent gaps, all gap pairs in files <= 60
//! tokens) x [format] settings (gen_fmt::settings). Only variants the parser accepts count.
//! Path: exactly what `veryl fmt` does per file (crates/veryl/src/cmd_fmt.rs): Parser::parse,
//! Analyzer::new + analyze_pass1, Formatter::new + format — applied to x, then to fmt(x).
//! The library path is tied to the CLI by a conformance pass: the real `veryl fmt` binary formats
//! scratch projects holding corpus files and variants under several settings; its file contents
//! must equal the library result, and a second CLI run must leave every file untouched.
//!
//! Oracle: byte equality of the first and the second formatting.

use crate::checks::gen_fmt::*;
use crate::checks::gen_text::*;
use crate::core::*;
use serde_json::{Value, json};
use std::collections::{BTreeMap, BTreeSet};

#[derive(Clone)]
struct Case {
    file: usize,
    desc: String,
    text: String,
    setting: FmtSetting,
}

enum Out {
    Rejected,
    /// fmt(x) does not parse: C09's business (counted, visible in the evidence)
    SecondRejected,
    Idempotent { changed: bool, out_hash: u64 },
    NotIdempotent { f1: String, f2: String, class: String, detail: Value },
}

fn eval(c: &Case) -> Out {
    let Ok(f1) = fmt_here(&c.text, &c.setting) else {
        return Out::Rejected;
    };
    let Ok(f2) = fmt_here(&f1, &c.setting) else {
        return Out::SecondRejected;
    };
    if f1 == f2 {
        let h = blake3::hash(f1.as_bytes());
        Out::Idempotent {
            changed: f1 != c.text,
            out_hash: u64::from_le_bytes(h.as_bytes()[..8].try_into().unwrap()),
        }
    } else {
        let (class, detail) = diff_class(&c.text, &f1, &f2);
        Out::NotIdempotent { f1, f2, class, detail }
    }
}

/// Did the first formatting change the line structure of the input *near* line `l0` (0-based)
/// of its output? "Near" = the block of consecutive non-blank lines of `f1` around `l0`, one
/// more line on each side (alignment groups and blank-line decisions never reach further: both
/// are cut by a blank line). Line structure = for consecutive ordinary tokens, their line
/// distance clipped to {0, 1, 2+} — the only thing about the source layout the formatter's
/// grouping and blank-line logic look at. Tokens of `input` and `f1` are matched up ignoring
/// optional trailing commas. `None` if the token streams cannot be matched.
fn relined_near(input: &str, f1: &str, l0: usize) -> Option<bool> {
    // runs on the thread of the case (a batch thread or the confirmation thread)
    let tx = collect_tokens_here(input, true).ok()?;
    let ty = collect_tokens_here(f1, true).ok()?;
    let lines: Vec<&str> = f1.split('\n').collect();
    let blank = |i: usize| lines.get(i).map(|l| l.trim().is_empty()).unwrap_or(true);
    let mut lo = l0.min(lines.len().saturating_sub(1));
    // a difference on a blank line belongs to the blocks on both sides of it
    while lo > 0 && blank(lo) {
        lo -= 1;
    }
    while lo > 0 && !blank(lo - 1) {
        lo -= 1;
    }
    let mut hi = l0;
    while hi + 1 < lines.len() && blank(hi) {
        hi += 1;
    }
    while hi + 1 < lines.len() && !blank(hi + 1) {
        hi += 1;
    }
    // 1-based line window in f1, one line of margin beyond the blank separators
    let (wlo, whi) = (lo.saturating_sub(1) as u32, hi as u32 + 3);
    let closer = |t: &str| matches!(t, ")" | "}" | "]" | ">");
    let next_token = |v: &[Tok], i: usize| v[i + 1..].iter().find(|t| !t.comment).map(|t| t.text.clone());
    let optional = |v: &[Tok], i: usize| !v[i].comment && v[i].text == "," && next_token(v, i).map(|n| closer(&n)).unwrap_or(false);
    let same = |a: &Tok, b: &Tok| a.comment == b.comment && if a.comment { crate::checks::gen_fmt::canonical_comment(&a.text) == crate::checks::gen_fmt::canonical_comment(&b.text) } else { a.text == b.text };
    let (mut i, mut j) = (0usize, 0usize);
    let mut prev: Option<(u32, u32)> = None; // lines of the previous matched item in (input, f1)
    let mut last_y_line = 1u32;
    while i < tx.len() && j < ty.len() {
        if !same(&tx[i], &ty[j]) {
            // an optional trailing comma added or removed inside the window changes the block
            if optional(&tx, i) {
                if last_y_line >= wlo && last_y_line <= whi {
                    return Some(true);
                }
                i += 1;
                continue;
            }
            if optional(&ty, j) {
                if ty[j].line >= wlo && ty[j].line <= whi {
                    return Some(true);
                }
                j += 1;
                continue;
            }
            // a comment may move across an optional comma: give up
            return None;
        }
        if let Some((px, py)) = prev {
            if ty[j].line >= wlo && ty[j].line <= whi {
                // blank-line logic clips the distance of tokens at "more than one line"; comments
                // keep their number of leading newlines
                let cap = if ty[j].comment { 9 } else { 2 };
                let dx = tx[i].line.saturating_sub(px).min(cap);
                let dy = ty[j].line.saturating_sub(py).min(cap);
                if dx != dy {
                    return Some(true);
                }
            }
        }
        // the next distance is measured from the last line the item occupies
        prev = Some((tx[i].end_line.max(tx[i].line), ty[j].end_line.max(ty[j].line)));
        if tx[i].comment && tx[i].text.ends_with('\n') {
            // a line comment's end_line is the line behind it; it occupies its own line only
            prev = Some((tx[i].line, ty[j].line));
        }
        last_y_line = ty[j].line;
        i += 1;
        j += 1;
    }
    Some(false)
}

/// Class of a non-idempotent case.
///   what differs (first differing line pair of the two runs):
///     alignment         same non-blank characters on the line, different spacing inside it
///     alignment-rewrap  one line is a prefix of the other (blanks ignored) and the spacing inside the
///                       common part differs (padding appeared/vanished and moved a line break)
///     line-break        prefix relation with identical spacing (a break moved, nothing else)
///     blank-line / indent / newline-style / other
///   and whether the first run changed the line structure of the input in the block of lines
///   where the difference shows (`relined-block`, see `relined_near`) or not (`same-lines-block`).
fn diff_class(input: &str, f1: &str, f2: &str) -> (String, Value) {
    let a: Vec<&str> = f1.split('\n').collect();
    let b: Vec<&str> = f2.split('\n').collect();
    let n = a.len().min(b.len());
    let mut i = 0;
    while i < n && a[i] == b[i] {
        i += 1;
    }
    let la = a.get(i).copied().unwrap_or("<eof>");
    let lb = b.get(i).copied().unwrap_or("<eof>");
    let squeeze = |s: &str| s.chars().filter(|c| !c.is_whitespace()).collect::<String>();
    // prefix of the line holding its first `k` non-blank characters
    let upto = |s: &str, k: usize| -> String {
        let mut seen = 0;
        for (idx, ch) in s.char_indices() {
            if !ch.is_whitespace() {
                seen += 1;
                if seen == k {
                    return s[..idx + ch.len_utf8()].to_string();
                }
            }
        }
        s.to_string()
    };
    let (sa, sb) = (squeeze(la), squeeze(lb));
    let common = sa.chars().count().min(sb.chars().count());
    let kind = if la.trim_end_matches('\r') == lb.trim_end_matches('\r') {
        "newline-style"
    } else if la.trim().is_empty() || lb.trim().is_empty() {
        "blank-line"
    } else if sa == sb {
        if la.trim() == lb.trim() { "indent" } else { "alignment" }
    } else if common > 0 && (sa.starts_with(&sb) || sb.starts_with(&sa)) {
        if upto(la, common) == upto(lb, common) { "line-break" } else { "alignment-rewrap" }
    } else {
        "other"
    };
    // a blank-line difference right behind a line holding nothing but a trailing comma
    let prev_nonblank = a[..i.min(a.len())].iter().rev().find(|l| !l.trim().is_empty()).map(|l| l.trim());
    let kind = if kind == "blank-line" && prev_nonblank == Some(",") {
        "blank-line-after-lone-comma"
    } else {
        kind
    };
    let relined = match relined_near(input, f1, i) {
        Some(true) => "relined-block",
        Some(false) => "same-lines-block",
        None => "unmatched-tokens",
    };
    (
        format!("{kind}:{relined}"),
        json!({"line": i + 1, "first_run": clip(la, 160), "second_run": clip(lb, 160)}),
    )
}

pub fn run(ctx: &Ctx) -> Report {
    install_quiet_panic_hook();
    let mut rep = Report::new(Level::Exploration);
    let budget = ctx.budget(30.0, 1020.0);
    let cli_reserve = if ctx.thorough() { 120.0 } else { 10.0 };
    let mut corpus = catalogue_files();
    let mut rest = load_corpus(true, false);
    sort_smallest_first(&mut rest);
    if ctx.seed != 0 && !rest.is_empty() {
        let k = (ctx.seed as usize) % rest.len();
        rest.rotate_left(k); // shard order only
    }
    corpus.extend(rest);
    rep.set("corpus_files", corpus.len() as u64);
    rep.set("letters", FMT_LETTERS.len() as u64);
    rep.set("settings", settings(ctx.thorough()).len() as u64);
    rep.set(
        "rule",
        "a case is non-trivial if the parser accepts the variant and the first formatting changes it (fmt(x) != x); distinct = distinct fmt(x) outputs among those",
    );

    let mut outs: BTreeSet<u64> = BTreeSet::new();
    let mut by_sig: BTreeMap<String, (usize, Case, String, String, Value)> = BTreeMap::new();
    let mut phases_done: Vec<(&'static str, usize)> = vec![];
    let mut files_skipped = 0usize;
    let mut exhaustive = true;
    let mut panics = 0u64;

    let phases = phase_plan(ctx.thorough());
    let mut layouts: Vec<Option<Result<Layout, String>>> = corpus.iter().map(|_| None).collect();
    'phases: for phase in &phases {
    let sets = &phase.settings;
    let mut files_done = 0usize;
    for (fi, f) in corpus.iter().enumerate() {
        if ctx.elapsed() > budget - cli_reserve {
            exhaustive = false;
            break;
        }
        if layouts[fi].is_none() {
            layouts[fi] = Some(Layout::new(&f.text));
        }
        let lay = match layouts[fi].clone().unwrap() {
            Ok(l) => l,
            Err(e) => {
                if phase.name != "A" {
                    continue;
                }
                files_skipped += 1;
                if f.name.starts_with("cat/") {
                    rep.machinery(format!("catalogue text {} does not parse: {}", f.name, clip(&e, 200)));
                }
                rep.notes.push(format!("corpus file {} skipped: {}", f.name, clip(&e, 120)));
                continue;
            }
        };
        let small = lay.n_tokens() <= 60;
        let specs = phase_specs(&lay, phase);
        let mut seen = BTreeSet::new();
        let mut done = 0usize;
        while done < specs.len() {
            if ctx.elapsed() > budget - cli_reserve {
                break;
            }
            let end = (done + 128).min(specs.len());
            let mut cases: Vec<Case> = vec![];
            for v in render_chunk(&f.text, &lay, &FMT_LETTERS, &specs[done..end], &mut seen) {
                for s in sets.iter() {
                    cases.push(Case {
                        file: fi,
                        desc: v.desc.clone(),
                        text: v.text.clone(),
                        setting: *s,
                    });
                }
            }
            let rs = batch_isolated(STACK, 16, &cases, eval);
            for (c, r) in cases.iter().zip(rs) {
                rep.add("evaluations", 1);
                match r {
                    Err(p) => {
                        panics += 1;
                        if rep.notes.len() < 20 {
                            rep.notes.push(format!("panic on {} / {} / {:?}: {}", corpus[c.file].name, c.desc, c.setting, clip(&p, 200)));
                        }
                    }
                    Ok(Out::Rejected) => rep.add("variants_rejected_by_parser", 1),
                    Ok(Out::SecondRejected) => rep.add("first_output_rejected_by_parser_see_C09", 1),
                    Ok(Out::Idempotent { changed, out_hash }) => {
                        rep.add("idempotent", 1);
                        if changed {
                            rep.add("nontrivial_cases", 1);
                            outs.insert(out_hash);
                        }
                    }
                    Ok(Out::NotIdempotent { f1, f2, class, detail }) => {
                        rep.add("not_idempotent", 1);
                        let sig = format!("C08:{class}");
                        // a case becomes the witness of its signature only after it reproduced
                        // (same class) on a thread of its own
                        let candidate = match by_sig.get(&sig) {
                            None => true,
                            Some(e) => c.text.len() < e.1.text.len(),
                        };
                        if candidate {
                            let confirmed = match batch_isolated(STACK, 1, std::slice::from_ref(c), eval).pop() {
                                Some(Ok(Out::NotIdempotent { class: c2, .. })) => c2 == class,
                                _ => false,
                            };
                            if !confirmed {
                                rep.add("not_reproduced_in_isolation", 1);
                                continue;
                            }
                            let n = by_sig.get(&sig).map(|e| e.0).unwrap_or(0);
                            by_sig.insert(sig, (n + 1, c.clone(), f1, f2, detail));
                        } else if let Some(e) = by_sig.get_mut(&sig) {
                            e.0 += 1;
                        }
                    }
                }
            }
            done = end;
        }
        if done < specs.len() {
            exhaustive = false;
            rep.notes.push(format!("budget reached inside file {} ({} of {} variant specs)", f.name, done, specs.len()));
            break;
        }
        files_done += 1;
    }
    rep.set(&format!("phase_{}_files_fully_covered", phase.name), files_done as u64);
    rep.set(&format!("phase_{}_settings", phase.name), phase.settings.len() as u64);
    phases_done.push((phase.name, files_done));
    if !exhaustive {
        break 'phases;
    }
    }
    let files_done = phases_done.first().map(|x| x.1).unwrap_or(0);
    let all_phases_complete = phases_done.len() == phases.len() && phases_done.iter().all(|x| x.1 + files_skipped == corpus.len());

    // ---- conformance with the real binary
    let t_enum = ctx.elapsed();
    cli_conformance(ctx, &mut rep, &corpus, budget);
    rep.set("seconds_enumeration", (t_enum * 10.0).round() / 10.0);
    rep.set("seconds_cli_pass", ((ctx.elapsed() - t_enum) * 10.0).round() / 10.0);

    rep.set("files_fully_covered", files_done as u64);
    rep.set("files_skipped_not_tokenisable", files_skipped as u64);
    rep.set("exhaustive", exhaustive && all_phases_complete);
    rep.set(
        "bound",
        "per file: unchanged + every single-gap deviation x 15 letters + uniform deviations + adjacent-gap pairs x 8 letter pairs (+ all gap pairs in files <= 60 tokens in thorough), x settings (quick: default + 2 alternates covering every option value; thorough: all 24); files smallest first until the budget",
    );
    rep.set("distinct_nontrivial", outs.len() as u64);
    rep.set("panics", panics);
    if panics > 0 {
        rep.machinery(format!("{panics} panics in the fmt pipeline (C11's business); see notes"));
    }
    if rep.get_u64("not_reproduced_in_isolation") > 0 {
        rep.machinery("some non-idempotent results did not reproduce on a fresh thread (state leaking between files?)");
    }
    let evals = rep.get_u64("evaluations");
    let rejected = rep.get_u64("variants_rejected_by_parser");
    if evals < 100 || outs.len() < 2 {
        rep.machinery("vacuous run: too few cases or fewer than 2 distinct non-trivial outputs");
    }
    if evals > 0 && rejected * 2 > evals {
        rep.machinery(format!("generator problem: {rejected} of {evals} variants rejected"));
    }
    for (sig, (count, c, f1, f2, detail)) in by_sig {
        rep.sample(json!({"signature": sig, "cases": count, "first_difference": detail}));
        rep.violation(Violation {
            signature: sig,
            what: "the second formatting differs from the first".to_string(),
            case: json!({"input": c.text, "derivation": c.desc, "corpus_file": corpus[c.file].name, "format": c.setting.json(), "cases_in_run": count}),
            expected: json!({"second_run": "equal to first run", "first_run": f1}),
            observed: json!({"first_difference": detail, "second_run": f2}),
        });
    }
    if rep.coverage.get("samples").is_none() {
        rep.sample(json!({"result": "every accepted variant reached a fixed point after one formatting"}));
    }
    rep
}

/// Runs the real `veryl fmt` on scratch projects; compares with the library path and checks that
/// a second run changes nothing.
fn cli_conformance(ctx: &Ctx, rep: &mut Report, corpus: &[CorpusFile], budget: f64) {
    use crate::proj::Sandbox;
    let sets = if ctx.thorough() { settings(true) } else { settings(false)[..2].to_vec() };
    // files of each project: every corpus file unchanged + 4 uniform variants of the smaller ones
    let mut texts: Vec<(String, String)> = vec![];
    for (i, f) in corpus.iter().enumerate() {
        if f.text.len() > 1500 && !ctx.thorough() {
            continue;
        }
        texts.push((format!("f{i:03}.veryl"), f.text.clone()));
        if f.name.starts_with("cat/") || (ctx.thorough() && f.text.len() <= 4000) {
            if let Ok(lay) = Layout::new(&f.text) {
                for (k, l) in [" // c\n", "\n\n\n", " /* c */ ", "\r\n"].iter().enumerate() {
                    texts.push((format!("f{i:03}_u{k}.veryl"), lay.uniform(l)));
                }
            }
        }
    }
    // only files the parser accepts (one rejected file aborts `veryl fmt`)
    let keep = batch_isolated(BIG_STACK, 16, &texts, |t: &(String, String)| collect_tokens_here(&t.1, false).is_ok());
    let texts: Vec<(String, String)> = texts.into_iter().zip(keep).filter(|(_, k)| matches!(k, Ok(true))).map(|(t, _)| t).collect();
    rep.set("cli_files_per_project", texts.len() as u64);
    if std::env::var("VMC_TRACE").is_ok() {
        eprintln!("cli pass: files prepared at {:.1}s", ctx.elapsed());
    }

    let results: Vec<(FmtSetting, Result<(u64, u64, Vec<String>), String>)> = par_map(&sets, |s| {
        if ctx.elapsed() > budget + 15.0 {
            return (*s, Err("skipped: budget".to_string()));
        }
        let name = format!("cli_{}_{}_{}_{}", s.indent_width, s.max_width, s.vertical_align, s.newline_name());
        let sb = Sandbox::new(&ctx.dir(&name));
        std::fs::write(
            sb.proj().join("Veryl.toml"),
            format!("[project]\nname = \"prj\"\nversion = \"0.1.0\"\n[build]\nsources = [\"src\"]\ntarget = {{type = \"directory\", path = \"target\"}}\n{}", s.to_toml()),
        )
        .unwrap();
        std::fs::create_dir_all(sb.proj().join("src")).unwrap();
        for (n, t) in &texts {
            std::fs::write(sb.proj().join("src").join(n), t).unwrap();
        }
        if std::env::var("VMC_TRACE").is_ok() {
            eprintln!("cli pass: project written at {:.1}s", ctx.elapsed());
        }
        let r1 = sb.veryl(&["fmt"]);
        if r1.code != 0 {
            return (*s, Err(format!("veryl fmt exit {} stderr {}", r1.code, clip(&r1.stderr, 400))));
        }
        let after1: Vec<String> = texts.iter().map(|(n, _)| std::fs::read_to_string(sb.proj().join("src").join(n)).unwrap_or_default()).collect();
        let r2 = sb.veryl(&["fmt"]);
        if r2.code != 0 {
            return (*s, Err(format!("second veryl fmt exit {} stderr {}", r2.code, clip(&r2.stderr, 400))));
        }
        let after2: Vec<String> = texts.iter().map(|(n, _)| std::fs::read_to_string(sb.proj().join("src").join(n)).unwrap_or_default()).collect();
        if std::env::var("VMC_TRACE").is_ok() {
            eprintln!("cli pass: two CLI runs done at {:.1}s", ctx.elapsed());
        }
        // library path per file, each on a fresh thread: first and second formatting
        let cases: Vec<(String, FmtSetting)> = texts.iter().map(|(_, t)| (t.clone(), *s)).collect();
        let lib = batch_isolated(STACK, 8, &cases, |c: &(String, FmtSetting)| {
            let f1 = fmt_here(&c.0, &c.1)?;
            let f2 = fmt_here(&f1, &c.1)?;
            Ok::<(String, String), String>((f1, f2))
        });
        let mut lib_mismatch = 0u64;
        let mut second_changed = 0u64;
        let mut ex = vec![];
        for (i, (n, t)) in texts.iter().enumerate() {
            match &lib[i] {
                Ok(Ok((f1, f2))) => {
                    if *f1 != after1[i] || *f2 != after2[i] {
                        lib_mismatch += 1;
                        if ex.len() < 3 {
                            let (x, y) = if *f1 != after1[i] { (f1, &after1[i]) } else { (f2, &after2[i]) };
                            let d = x.lines().zip(y.lines()).enumerate().find(|(_, (a, b))| a != b).map(|(k, (a, b))| format!("line {}: lib {:?} cli {:?}", k + 1, a, b));
                            ex.push(format!("lib!=cli {n} (first run equal: {}, second run equal: {}): {:?}; input {:?}", *f1 == after1[i], *f2 == after2[i], d, clip(t, 200)));
                        }
                    }
                }
                _ => {
                    lib_mismatch += 1;
                    if ex.len() < 3 {
                        ex.push(format!("library path failed on {n}"));
                    }
                }
            }
            if after1[i] != after2[i] {
                second_changed += 1;
            }
        }
        (*s, Ok((lib_mismatch, second_changed, ex)))
    });
    let mut runs = 0u64;
    for (s, r) in results {
        match r {
            Err(e) if e.starts_with("skipped") => rep.add("cli_settings_skipped_budget", 1),
            Err(e) => rep.machinery(format!("CLI conformance ({:?}): {e}", s)),
            Ok((lib_mismatch, second_changed, ex)) => {
                runs += 1;
                rep.add("cli_files_formatted", texts.len() as u64);
                if lib_mismatch > 0 {
                    rep.machinery(format!("library path and `veryl fmt` disagree on {lib_mismatch} file(s) under {:?}: {:?}", s, ex));
                }
                // non-idempotence itself is reported (with a class) by the enumeration above, which
                // contains these very files; here the CLI only has to behave like the library
                rep.add("cli_files_changed_by_second_run_as_the_library_predicts", second_changed);
            }
        }
    }
    rep.set("cli_settings_run", runs);
    if runs == 0 {
        rep.machinery("CLI conformance pass did not run");
    }
}

pub fn replay(doc: &Value) -> i32 {
    install_quiet_panic_hook();
    let Some(input) = doc["case"]["input"].as_str() else {
        eprintln!("replay file has no case.input");
        return 2;
    };
    let c = Case {
        file: 0,
        desc: String::new(),
        text: input.to_string(),
        setting: FmtSetting::from_json(&doc["case"]["format"]),
    };
    if let Some(n) = std::env::var("VMC_BENCH").ok().and_then(|x| x.parse::<usize>().ok()) {
        let cs: Vec<Case> = (0..n).map(|_| c.clone()).collect();
        let t = std::time::Instant::now();
        let _ = batch_isolated(STACK, n, &cs, eval);
        println!("eval x{n} on one thread: {:.3} ms each", t.elapsed().as_secs_f64() * 1000.0 / n as f64);
        let t = std::time::Instant::now();
        let _ = batch_isolated(STACK, 1, &cs, eval);
        println!("eval x{n} one thread each (parallel): {:.3} ms each", t.elapsed().as_secs_f64() * 1000.0 / n as f64);
        let t = std::time::Instant::now();
        let _ = batch_isolated(STACK, n, &cs, |c: &Case| metadata_with(&c.setting).format.indent_width);
        println!("metadata_with x{n}: {:.3} ms each", t.elapsed().as_secs_f64() * 1000.0 / n as f64);
        let t = std::time::Instant::now();
        let _ = batch_isolated(STACK, n, &cs, |c: &Case| collect_tokens_here(&c.text, false).is_ok());
        println!("parse x{n}: {:.3} ms each", t.elapsed().as_secs_f64() * 1000.0 / n as f64);
        let t = std::time::Instant::now();
        let _ = batch_isolated(STACK, n, &cs, |c: &Case| {
            let m = metadata_with(&c.setting);
            let _a = veryl_analyzer::Analyzer::new(&m);
        });
        println!("Analyzer::new x{n}: {:.3} ms each", t.elapsed().as_secs_f64() * 1000.0 / n as f64);
        let t = std::time::Instant::now();
        let _ = batch_isolated(STACK, n, &cs, |c: &Case| {
            let m = metadata_with(&c.setting);
            let p = veryl_parser::Parser::parse(&c.text, &fresh_path()).unwrap();
            let mut f = veryl_formatter::Formatter::new(&m);
            f.format(&p.veryl, &c.text);
        });
        println!("parse+format (no analyzer) x{n}: {:.3} ms each", t.elapsed().as_secs_f64() * 1000.0 / n as f64);
        return 0;
    }
    match batch_isolated(STACK, 1, &[c], eval).pop() {
        Some(Ok(Out::NotIdempotent { f1, f2, class, detail })) => {
            println!("C08:{class} {detail}");
            println!("--- first run\n{f1}\n--- second run\n{f2}");
            1
        }
        Some(Ok(Out::Idempotent { .. })) => {
            println!("idempotent");
            0
        }
        Some(Ok(Out::Rejected)) => {
            println!("input rejected by the parser");
            2
        }
        Some(Ok(Out::SecondRejected)) => {
            println!("first output rejected by the parser (C09)");
            2
        }
        Some(Err(p)) => {
            println!("panic: {p}");
            2
        }
        None => 2,
    }
}

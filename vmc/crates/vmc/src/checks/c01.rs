//! C01 — Emitted SystemVerilog behaves like the Veryl design.
//!
//! Engine E2 (lock-step product explorer). For every member of the generated design family
//! (`checks/df.rs`) and every `[build] clock_type x reset_type` configuration:
//!
//! * the Veryl text is analysed by the real analyzer, emitted by the real `veryl_emitter::Emitter`
//!   (metadata carrying the configuration) and lowered by the real `veryl_simulator::build_ir`
//!   with the `Config` that `cmd_test.rs` derives from the same `[build]` section;
//! * the emitted text is elaborated by the reference model R2 (`vmc_refmodels::svref`), which
//!   stands in for "a standard SystemVerilog simulator";
//! * both machines are driven in lock step by a driver written from the *documented* meaning of
//!   the clock/reset types: explicit-state BFS over the product state space (key = all variables
//!   of both machines + last input letter) over ALL input letters, every output compared before
//!   the active clock edge, after it, and (SV side) after the inactive edge. The veryl simulator
//!   cannot be snapshotted, so it is re-executed from reset along the BFS path;
//! * independently, all input sequences up to a small length are run with no deduplication.

use super::df::{self, ClkKind, DesignCase, RstKind};
use crate::core::*;
use serde_json::{Value, json};
use std::collections::{BTreeMap, HashSet, VecDeque};
use std::sync::Mutex;
use veryl_metadata::{ClockType, Metadata, ResetType};
use vmc_refmodels::bits::V;
use vmc_refmodels::svref::{self, SvError};

/// Pseudo input letter: run the reset phase again (inputs 0, assert, one active edge, de-assert).
pub const RESET_LETTER: u32 = 1 << 16;

pub const CLOCKS: [ClockType; 2] = [ClockType::PosEdge, ClockType::NegEdge];
pub const RESETS: [ResetType; 4] = [ResetType::AsyncLow, ResetType::AsyncHigh, ResetType::SyncLow, ResetType::SyncHigh];

pub fn cfg_name(c: ClockType, r: ResetType) -> String {
    let c = match c {
        ClockType::PosEdge => "posedge",
        ClockType::NegEdge => "negedge",
    };
    let r = match r {
        ResetType::AsyncLow => "async_low",
        ResetType::AsyncHigh => "async_high",
        ResetType::SyncLow => "sync_low",
        ResetType::SyncHigh => "sync_high",
    };
    format!("{c}/{r}")
}

pub fn cfg_parse(s: &str) -> Option<(ClockType, ResetType)> {
    for c in CLOCKS {
        for r in RESETS {
            if cfg_name(c, r) == s {
                return Some((c, r));
            }
        }
    }
    None
}

// ------------------------------------------------------------------------------------------------
// the real pipeline: analyze, emit, build simulator IR

pub enum BuildError {
    /// the generator produced something veryl does not accept (generator bug, counted)
    Rejected(String),
    /// build_ir refused the design
    SimUnsupported(String),
}

/// Result of the real front end for one (design, config): emitted text + analyzer IR, from which
/// any number of fresh simulators can be built.
pub struct Analyzed {
    pub sv: String,
    pub warnings: Vec<String>,
    ir: veryl_analyzer::ir::Ir,
    config: veryl_simulator::Config,
}

impl Analyzed {
    pub fn new_sim(&self) -> Result<veryl_simulator::Simulator, BuildError> {
        let sir = veryl_simulator::ir::build_ir(&self.ir, "Top".into(), &self.config).map_err(|e| BuildError::SimUnsupported(format!("build_ir: {e}")))?;
        Ok(veryl_simulator::Simulator::new(sir, None))
    }
}

/// Must run on a fresh thread (analyzer tables are thread-local).
pub fn analyze_emit(src: &str, clock: ClockType, reset: ResetType, use_jit: bool) -> Result<Analyzed, BuildError> {
    use veryl_analyzer::{Analyzer, Context, attribute_table, ir as air, symbol_table};
    use veryl_parser::Parser;

    symbol_table::clear();
    attribute_table::clear();
    let mut metadata = Metadata::create_default("prj").map_err(|e| BuildError::Rejected(format!("metadata: {e}")))?;
    metadata.build.clock_type = clock;
    metadata.build.reset_type = reset;

    let parser = Parser::parse(src, &"top.veryl").map_err(|e| BuildError::Rejected(format!("parse: {e}")))?;
    let analyzer = Analyzer::new(&metadata);
    let mut context = Context::default();
    let mut ir = air::Ir::default();
    let mut errors = vec![];
    errors.append(&mut analyzer.analyze_pass1("prj", &parser.veryl));
    errors.append(&mut Analyzer::analyze_post_pass1());
    errors.append(&mut analyzer.analyze_pass2(&parser.veryl, &mut context, Some(&mut ir)));
    errors.append(&mut Analyzer::analyze_post_pass2(&ir));
    let mut warnings = vec![];
    let mut hard = vec![];
    for e in &errors {
        use miette::Diagnostic;
        let code = e.code().map(|c| c.to_string()).unwrap_or_else(|| "?".into());
        if e.is_error() {
            hard.push(format!("{code}: {e}"));
        } else {
            warnings.push(code);
        }
    }
    if !hard.is_empty() {
        return Err(BuildError::Rejected(format!("analyzer: {}", hard.join("; "))));
    }

    let mut emitter = veryl_emitter::Emitter::new(
        &metadata,
        "prj",
        &std::path::PathBuf::from("top.veryl"),
        &std::path::PathBuf::from("top.sv"),
        &std::path::PathBuf::from("top.sv.map"),
    );
    emitter.emit(&parser.veryl, src);
    let sv = emitter.as_str().to_string();

    // exactly the derivation of crates/veryl/src/cmd_test.rs (lines 329-336)
    let config = veryl_simulator::Config {
        use_jit,
        abstract_reset_active_high: matches!(metadata.build.reset_type, ResetType::AsyncHigh | ResetType::SyncHigh),
        abstract_reset_sync: matches!(metadata.build.reset_type, ResetType::SyncHigh | ResetType::SyncLow),
        ..veryl_simulator::Config::default()
    };
    Ok(Analyzed { sv, warnings, ir, config })
}

// ------------------------------------------------------------------------------------------------
// machines

/// Output observation: one string of 0/1/x/z per output port (MSB first).
type Obs = Vec<String>;

struct VSim {
    sim: veryl_simulator::Simulator,
    clk: Option<veryl_simulator::ir::Event>,
    rst: Option<veryl_simulator::ir::Event>,
    ins: Vec<(String, usize)>,
    outs: Vec<(String, usize)>,
}

fn value_bits(v: &veryl_simulator::ir::Value, w: usize) -> String {
    let p = v.payload_u128();
    let m = v.mask_xz_u128();
    (0..w)
        .rev()
        .map(|i| {
            let pb = (p >> i) & 1;
            let mb = (m >> i) & 1;
            match (mb, pb) {
                (0, 0) => '0',
                (0, 1) => '1',
                (1, 0) => 'x',
                _ => 'z',
            }
        })
        .collect()
}

impl VSim {
    fn new(sim: veryl_simulator::Simulator, d: &DesignCase) -> Result<VSim, String> {
        let clk = match &d.clock {
            Some((n, _)) => Some(sim.get_clock(n).ok_or_else(|| format!("veryl simulator has no clock port {n}"))?),
            None => None,
        };
        let rst = match &d.reset {
            Some((n, _)) => Some(sim.get_reset(n).ok_or_else(|| format!("veryl simulator has no reset port {n}"))?),
            None => None,
        };
        Ok(VSim {
            sim,
            clk,
            rst,
            ins: d.inputs.iter().map(|p| (p.name.clone(), p.width)).collect(),
            outs: d.outputs.iter().map(|p| (p.name.clone(), p.width)).collect(),
        })
    }
    fn drive(&mut self, letter: u32) {
        let mut sh = 0;
        for (n, w) in &self.ins {
            let v = (letter >> sh) & ((1u32 << w) - 1);
            sh += w;
            self.sim.set(n, veryl_simulator::ir::Value::new(v as u64, *w, false));
        }
    }
    fn reset(&mut self) {
        self.drive(0);
        match (&self.clk, &self.rst) {
            (Some(c), Some(r)) => self.sim.step_reset(c, r),
            (Some(c), None) => self.sim.step(c),
            _ => {}
        }
    }
    fn observe(&mut self) -> Result<Obs, String> {
        let mut o = vec![];
        for (n, w) in &self.outs {
            let v = self.sim.get(n).ok_or_else(|| format!("veryl simulator has no port {n}"))?;
            o.push(value_bits(&v, *w));
        }
        Ok(o)
    }
    /// one cycle: inputs, observation before the edge, one clock step, observation after
    fn cycle(&mut self, letter: u32) -> Result<(Obs, Option<Obs>), String> {
        if letter == RESET_LETTER {
            self.drive(0);
            let pre = self.observe()?;
            self.reset();
            return Ok((pre, Some(self.observe()?)));
        }
        self.drive(letter);
        let pre = self.observe()?;
        if let Some(c) = &self.clk {
            self.sim.step(c);
            Ok((pre, Some(self.observe()?)))
        } else {
            Ok((pre, None))
        }
    }
    /// all declared variables of the whole hierarchy
    fn key(&mut self) -> Vec<u8> {
        self.sim.ensure_comb_updated();
        let mut out = vec![];
        fn walk(m: &veryl_simulator::ir::ModuleVariables, four: bool, prefix: &str, out: &mut Vec<(String, String)>) {
            for var in m.variables.values() {
                let mut s = String::new();
                for &ptr in &var.current_values {
                    let v = unsafe { veryl_simulator::ir::read_native_value(ptr, var.native_bytes, four, var.width as u32, false) };
                    if var.width <= 128 {
                        s.push_str(&value_bits(&v, var.width));
                    } else {
                        s.push_str(&format!("{:x}", v));
                    }
                    s.push('|');
                }
                out.push((format!("{prefix}{}", var.path), s));
            }
            for (i, c) in m.children.iter().enumerate() {
                walk(c, four, &format!("{prefix}{}#{i}.", c.name), out);
            }
        }
        let mut vars = vec![];
        walk(&self.sim.ir.module_variables, self.sim.ir.use_4state, "", &mut vars);
        vars.sort();
        for (n, v) in vars {
            out.extend_from_slice(n.as_bytes());
            out.push(b'=');
            out.extend_from_slice(v.as_bytes());
            out.push(b';');
        }
        out
    }
}

struct RSim {
    d: svref::Design,
    /// clock port and "active edge is the rising one"
    clk: Option<(String, bool)>,
    /// reset port, active-high
    rst: Option<(String, bool)>,
    ins: Vec<(String, usize)>,
    outs: Vec<(String, usize)>,
}

fn bit1(b: bool) -> V {
    V::from_u128(b as u128, 1, false)
}

impl RSim {
    fn new(sv: &str, top: &str, d: &DesignCase, clock: ClockType, reset: ResetType) -> Result<RSim, SvError> {
        let mut m = svref::Design::elaborate(&[sv.to_string()], top)?;
        m.paranoid = true;
        let clk = d.clock.as_ref().map(|(n, k)| {
            let rising = match k {
                ClkKind::Default => clock == ClockType::PosEdge,
                ClkKind::Pos => true,
                ClkKind::Neg => false,
            };
            (n.clone(), rising)
        });
        let rst = d.reset.as_ref().map(|(n, k)| {
            let high = match k {
                RstKind::Default => matches!(reset, ResetType::AsyncHigh | ResetType::SyncHigh),
                RstKind::AsyncHigh | RstKind::SyncHigh => true,
                RstKind::AsyncLow | RstKind::SyncLow => false,
            };
            (n.clone(), high)
        });
        // port check: the emitted top must expose exactly the declared ports
        for p in d.inputs.iter().chain(d.outputs.iter()) {
            let Some(pi) = m.ports().iter().find(|x| x.name == p.name) else {
                return Err(SvError::Elab(format!("emitted top has no port {}", p.name)));
            };
            if pi.width != p.width {
                return Err(SvError::Elab(format!("emitted port {} is {} bits, design says {}", p.name, pi.width, p.width)));
            }
        }
        Ok(RSim {
            d: m,
            clk,
            rst,
            ins: d.inputs.iter().map(|p| (p.name.clone(), p.width)).collect(),
            outs: d.outputs.iter().map(|p| (p.name.clone(), p.width)).collect(),
        })
    }
    fn drive(&mut self, letter: u32) -> Result<(), SvError> {
        let mut sh = 0;
        for (n, w) in &self.ins {
            let v = (letter >> sh) & ((1u32 << w) - 1);
            sh += w;
            self.d.set(n, &V::from_u128(v as u128, *w, false))?;
        }
        Ok(())
    }
    fn clock_level(&mut self, active: bool) -> Result<(), SvError> {
        if let Some((n, rising)) = &self.clk {
            // after the active edge the clock sits at the level the edge leads to
            let level = if active { *rising } else { !*rising };
            self.d.set(n, &bit1(level))?;
        }
        Ok(())
    }
    fn reset_level(&mut self, asserted: bool) -> Result<(), SvError> {
        if let Some((n, high)) = &self.rst {
            self.d.set(n, &bit1(asserted == *high))?;
        }
        Ok(())
    }
    /// time 0: clock idle, reset de-asserted, inputs 0
    fn init(&mut self) -> Result<(), SvError> {
        self.clock_level(false)?;
        self.reset_level(false)?;
        self.drive(0)?;
        self.d.settle()
    }
    /// Reset phase: the reset is asserted in the same time step as one active clock edge, then the
    /// clock returns to idle and the reset is de-asserted. (Assertion and edge coincide because that
    /// is the meaning of `Simulator::step_reset` / `rst.assert()`: "one clock edge with reset
    /// asserted around it", the assertion edge firing in the same step. Asserting strictly before
    /// the edge would differ only for registers WITHOUT a reset value that read a reset register,
    /// i.e. in what the unspecified part of the state looks like after reset.)
    fn reset(&mut self) -> Result<(), SvError> {
        self.drive(0)?;
        self.reset_level(true)?;
        self.clock_level(true)?;
        self.d.settle()?;
        self.clock_level(false)?;
        self.d.settle()?;
        self.reset_level(false)?;
        self.d.settle()
    }
    fn observe(&self) -> Result<Obs, SvError> {
        let mut o = vec![];
        for (n, _) in &self.outs {
            o.push(self.d.get(n)?.to_string_msb());
        }
        Ok(o)
    }
    /// (before the edge, after the active edge, after the inactive edge)
    fn cycle(&mut self, letter: u32) -> Result<(Obs, Option<(Obs, Obs)>), SvError> {
        if letter == RESET_LETTER {
            self.drive(0)?;
            self.d.settle()?;
            let pre = self.observe()?;
            self.reset()?;
            let post = self.observe()?;
            return Ok((pre, Some((post.clone(), post))));
        }
        self.drive(letter)?;
        self.d.settle()?;
        let pre = self.observe()?;
        if self.clk.is_some() {
            self.clock_level(true)?;
            self.d.settle()?;
            let post = self.observe()?;
            self.clock_level(false)?;
            self.d.settle()?;
            let idle = self.observe()?;
            Ok((pre, Some((post, idle))))
        } else {
            Ok((pre, None))
        }
    }
}

// ------------------------------------------------------------------------------------------------
// comparison

/// Index of the first output whose bits differ where the SV side is 0/1; `masked` counts x/z bits
/// on the SV side (no 2-state value can be compared with them).
fn first_diff(sv: &Obs, ve: &Obs, masked: &mut u64) -> Option<usize> {
    let mut first = None;
    for (i, (a, b)) in sv.iter().zip(ve.iter()).enumerate() {
        if a.len() != b.len() {
            return Some(i);
        }
        for (x, y) in a.chars().zip(b.chars()) {
            if x == 'x' || x == 'z' {
                *masked += 1;
                continue;
            }
            if x != y && first.is_none() {
                first = Some(i);
            }
        }
    }
    first
}

fn exact_diff(a: &Obs, b: &Obs) -> Option<usize> {
    a.iter().zip(b.iter()).position(|(x, y)| x != y)
}

// ------------------------------------------------------------------------------------------------
// one (design, config) case

#[derive(Default, Clone)]
pub struct CaseStats {
    pub states: u64,
    pub transitions: u64,
    pub max_depth: u64,
    pub flat_sequences: u64,
    pub distinct_outputs: u64,
    pub x_masked_bits: u64,
    pub observations: u64,
    pub state_capped: bool,
    pub rebuild_mode: bool,
    pub rebuilds: u64,
    pub t_front: f64,
    pub t_r2_elab: f64,
    pub t_explore: f64,
    pub warnings: Vec<String>,
}

pub enum CaseOutcome {
    Done(CaseStats),
    Skipped(String),
    Machinery(String),
}

pub struct CaseResult {
    pub outcome: CaseOutcome,
    pub violations: Vec<Violation>,
    pub sv: Option<String>,
}

pub struct Bounds {
    pub max_states: usize,
    pub flat_len: usize,
    pub use_jit: bool,
    /// report every mismatching port of every observation (replay), not one per signature
    pub verbose: bool,
}

fn stem(port: &str) -> String {
    // y_add_6 -> add ; q -> q
    let p = port.strip_prefix("y_").unwrap_or(port);
    let t = p.trim_end_matches(|c: char| c.is_ascii_digit());
    let t = t.trim_end_matches('_');
    if t.is_empty() { p.to_string() } else { t.to_string() }
}

fn case_json(d: &DesignCase, cfg: &str, path: &[u32]) -> Value {
    json!({
        "design": serde_json::to_value(d).unwrap(),
        "config": cfg,
        "letters_after_reset": path,
        "letter_encoding": "data inputs packed LSB-first in declaration order; 65536 = run the reset phase again",
    })
}

/// Runs the whole exploration for one (design, config). Must be called on a fresh thread.
pub fn run_case(d: &DesignCase, clock: ClockType, reset: ResetType, b: &Bounds) -> CaseResult {
    let cfg = cfg_name(clock, reset);
    let mut violations: Vec<Violation> = vec![];
    let t0 = std::time::Instant::now();
    let an = match analyze_emit(&d.src, clock, reset, b.use_jit) {
        Ok(a) => a,
        Err(BuildError::Rejected(s)) => return CaseResult { outcome: CaseOutcome::Skipped(format!("generator: veryl rejects the design: {s}")), violations, sv: None },
        Err(BuildError::SimUnsupported(s)) => return CaseResult { outcome: CaseOutcome::Skipped(format!("veryl simulator: {s}")), violations, sv: None },
    };
    let sim = match an.new_sim() {
        Ok(s) => s,
        Err(BuildError::SimUnsupported(s)) | Err(BuildError::Rejected(s)) => return CaseResult { outcome: CaseOutcome::Skipped(format!("veryl simulator: {s}")), violations, sv: Some(an.sv.clone()) },
    };
    let sv = an.sv.clone();
    let warnings = an.warnings.clone();
    let t1 = t0.elapsed().as_secs_f64();
    let mut r = match RSim::new(&sv, "prj_Top", d, clock, reset) {
        Ok(r) => r,
        Err(SvError::Unsupported(s)) => return CaseResult { outcome: CaseOutcome::Skipped(format!("R2 unsupported: {s}")), violations, sv: Some(sv) },
        Err(e) => return CaseResult { outcome: CaseOutcome::Machinery(format!("R2 cannot elaborate the emitted text of {} [{cfg}]: {e}", d.id)), violations, sv: Some(sv) },
    };
    let mut v = match VSim::new(sim, d) {
        Ok(v) => v,
        Err(e) => return CaseResult { outcome: CaseOutcome::Machinery(format!("{} [{cfg}]: {e}", d.id)), violations, sv: Some(sv) },
    };
    let mut st = CaseStats { warnings, ..Default::default() };
    let t2 = t0.elapsed().as_secs_f64();
    let res = explore(d, &cfg, &an, b, &mut v, &mut r, &mut st, &mut violations);
    st.t_front = t1;
    st.t_r2_elab = t2 - t1;
    st.t_explore = t0.elapsed().as_secs_f64() - t2;
    let outcome = match res {
        Ok(()) => CaseOutcome::Done(st),
        Err(Stop::Sv(SvError::Unsupported(s))) => CaseOutcome::Skipped(format!("R2 unsupported: {s}")),
        Err(Stop::Sv(e)) => CaseOutcome::Machinery(format!("R2 on {} [{cfg}]: {e}", d.id)),
        Err(Stop::Msg(e)) => CaseOutcome::Machinery(format!("{} [{cfg}]: {e}", d.id)),
    };
    CaseResult { outcome, violations, sv: Some(sv) }
}

enum Stop {
    Sv(SvError),
    Msg(String),
}
impl From<SvError> for Stop {
    fn from(e: SvError) -> Stop {
        Stop::Sv(e)
    }
}
impl From<String> for Stop {
    fn from(e: String) -> Stop {
        Stop::Msg(e)
    }
}

struct Cmp<'a> {
    d: &'a DesignCase,
    cfg: &'a str,
    violations: &'a mut Vec<Violation>,
    seen_sigs: HashSet<String>,
    verbose: bool,
    masked: u64,
    observations: u64,
    outputs_seen: HashSet<[u8; 32]>,
}

impl Cmp<'_> {
    fn note(&mut self, o: &Obs) {
        let mut h = blake3::Hasher::new();
        for s in o {
            h.update(s.as_bytes());
            h.update(b",");
        }
        self.outputs_seen.insert(*h.finalize().as_bytes());
    }
    fn report(&mut self, phase: &str, port_idx: usize, path: &[u32], expected: &Obs, observed: &Obs, what: &str) {
        let port = &self.d.outputs[port_idx].name;
        // the phase is part of the signature only for the SV-only failure class; a wrong value after
        // an edge and the same wrong value before the next one are one finding
        let sig = if phase == "inactive-edge" { format!("C01:{}:{}:inactive-edge", self.d.class, stem(port)) } else { format!("C01:{}:{}", self.d.class, stem(port)) };
        if self.verbose {
            if self.violations.len() >= 200 {
                return;
            }
        } else if !self.seen_sigs.insert(sig.clone()) {
            return;
        }
        let names: Vec<&String> = self.d.outputs.iter().map(|p| &p.name).collect();
        self.violations.push(Violation {
            signature: sig,
            what: format!("{what}: design {} [{}] port {port} after letters {:?} ({phase})", self.d.id, self.cfg, path),
            case: case_json(self.d, self.cfg, path),
            expected: json!({"side": "R2 on the emitted SystemVerilog", "ports": names, "values": expected}),
            observed: json!({"side": "veryl_simulator::Simulator", "ports": names, "values": observed}),
        });
    }
    /// a known (state, letter) edge led somewhere else the second time: some state outside the key
    fn hidden_state(&mut self, path: &[u32]) {
        let sig = format!("C01:{}:hidden-state", self.d.class);
        if !self.seen_sigs.insert(sig.clone()) {
            return;
        }
        self.violations.push(Violation {
            signature: sig,
            what: format!("design {} [{}]: the same (all variables of both machines, input letter) pair led to two different successor states; history since the last fresh start {:?}", self.d.id, self.cfg, path),
            case: case_json(self.d, self.cfg, path),
            expected: json!("deterministic successor"),
            observed: json!("different successor on the second visit"),
        });
    }
    /// compares one cycle's observations of both machines
    fn cycle(&mut self, path: &[u32], ro: &(Obs, Option<(Obs, Obs)>), vo: &(Obs, Option<Obs>)) {
        self.observations += 1;
        self.note(&ro.0);
        if let Some(i) = first_diff(&ro.0, &vo.0, &mut self.masked) {
            self.report("comb", i, path, &ro.0, &vo.0, "outputs differ before the clock edge");
        }
        match (&ro.1, &vo.1) {
            (Some((post, idle)), Some(vpost)) => {
                self.observations += 1;
                self.note(post);
                if let Some(i) = first_diff(post, vpost, &mut self.masked) {
                    self.report("edge", i, path, post, vpost, "outputs differ after the active clock edge");
                }
                if let Some(i) = exact_diff(post, idle) {
                    // the veryl side has no inactive edge: its value stays `vpost`
                    self.report("inactive-edge", i, path, idle, vpost, "emitted SV changes outputs on the inactive clock edge");
                }
            }
            (None, None) => {}
            _ => {}
        }
    }
}

#[allow(clippy::too_many_arguments)]
fn explore(d: &DesignCase, cfg: &str, an: &Analyzed, b: &Bounds, v: &mut VSim, r: &mut RSim, st: &mut CaseStats, violations: &mut Vec<Violation>) -> Result<(), Stop> {
    let nbits: usize = d.inputs.iter().map(|p| p.width).sum();
    if nbits > 6 {
        return Err(Stop::Msg(format!("design has {nbits} data input bits (> 6)")));
    }
    let mut letters: Vec<u32> = (0..(1u32 << nbits)).collect();
    let data_letters = letters.clone();
    if d.reset.is_some() && d.clock.is_some() {
        letters.push(RESET_LETTER);
    }
    let mut cmp = Cmp { d, cfg, violations, seen_sigs: HashSet::new(), verbose: b.verbose, masked: 0, observations: 0, outputs_seen: HashSet::new() };

    // reset phase
    r.init()?;
    r.reset()?;
    v.reset();
    let ro = r.observe()?;
    let vo = v.observe()?;
    cmp.observations += 1;
    cmp.note(&ro);
    if let Some(i) = first_diff(&ro, &vo, &mut cmp.masked) {
        cmp.report("reset", i, &[], &ro, &vo, "outputs differ right after reset");
    }
    let vkey0 = v.key();
    let rsnap0 = r.d.snapshot();
    let rkey0 = r.d.state_key();

    // does a second reset bring the veryl simulator back to the same state? (it does when every FF is reset)
    // If not, histories are re-executed on a freshly built simulator instead.
    let mut fresh: Option<Box<dyn FnMut() -> Result<VSim, String> + '_>> = None;
    {
        let _ = v.cycle(*data_letters.last().unwrap())?;
        let _ = v.cycle(data_letters[data_letters.len() / 2])?;
        v.reset();
        if v.key() != vkey0 {
            st.rebuild_mode = true;
            fresh = Some(Box::new(move || {
                let sim = an.new_sim().map_err(|_| "rebuild failed".to_string())?;
                let mut nv = VSim::new(sim, d)?;
                nv.reset();
                Ok(nv)
            }));
        }
    }
    let max_states = b.max_states;

    let hash_key = |vk: &[u8], rk: &[u8], last: u32| -> [u8; 32] {
        let mut h = blake3::Hasher::new();
        h.update(&(vk.len() as u64).to_le_bytes());
        h.update(vk);
        h.update(rk);
        h.update(&last.to_le_bytes());
        *h.finalize().as_bytes()
    };
    if let Some(fresh) = &mut fresh {
        // Live walk (used when a reset does not restore the simulator's whole state, so that every
        // re-execution would need a freshly built simulator): the veryl machine stays where it is
        // and is steered through the already known part of the product graph to the nearest state
        // that still has an unexplored letter; a fresh simulator is built only when no such state
        // is reachable from the current one. Covers the same (state, letter) pairs as the BFS.
        struct Node {
            snap: svref::sim::Snapshot,
            next: Vec<Option<usize>>,
            depth: u64,
        }
        let nl = letters.len();
        let mut ids: std::collections::HashMap<[u8; 32], usize> = std::collections::HashMap::new();
        let mut nodes: Vec<Node> = vec![Node { snap: rsnap0.clone(), next: vec![None; nl], depth: 0 }];
        ids.insert(hash_key(&vkey0, &rkey0, u32::MAX), 0);
        *v = fresh()?;
        let mut cur = 0usize;
        let mut history: Vec<u32> = vec![];
        let mut unexplored_total = nl;
        st.states = 1;
        let mut rebuilds = 0u64;
        'walk: while unexplored_total > 0 {
            // nearest node (over known edges) with an unexplored letter
            let mut prev: Vec<Option<(usize, usize)>> = vec![None; nodes.len()];
            let mut visited = vec![false; nodes.len()];
            let mut q = VecDeque::new();
            visited[cur] = true;
            q.push_back(cur);
            let mut target = None;
            while let Some(n) = q.pop_front() {
                if nodes[n].next.iter().any(|x| x.is_none()) {
                    target = Some(n);
                    break;
                }
                for (li, nx) in nodes[n].next.iter().enumerate() {
                    let nx = nx.unwrap();
                    if !visited[nx] {
                        visited[nx] = true;
                        prev[nx] = Some((n, li));
                        q.push_back(nx);
                    }
                }
            }
            let Some(target) = target else {
                // trapped: start again from reset on a fresh simulator
                *v = fresh()?;
                rebuilds += 1;
                cur = 0;
                history.clear();
                if rebuilds > 4 * max_states as u64 {
                    return Err(Stop::Msg("live walk needs too many rebuilds".into()));
                }
                continue 'walk;
            };
            // walk to the target along known edges (re-validating them)
            let mut route = vec![];
            let mut n = target;
            while let Some((p, li)) = prev[n] {
                route.push((p, li));
                n = p;
            }
            route.reverse();
            for (p, li) in route {
                r.d.restore(&nodes[p].snap);
                let ro = r.cycle(letters[li])?;
                let vo = v.cycle(letters[li])?;
                history.push(letters[li]);
                cmp.cycle(&history, &ro, &vo);
                st.transitions += 1;
                let k = hash_key(&v.key(), &r.d.state_key(), letters[li]);
                let expect = nodes[p].next[li].unwrap();
                if ids.get(&k) != Some(&expect) {
                    cmp.hidden_state(&history);
                    // continue from wherever the machines really are
                    match ids.get(&k) {
                        Some(&n) => cur = n,
                        None => {
                            *v = fresh()?;
                            rebuilds += 1;
                            cur = 0;
                            history.clear();
                        }
                    }
                    continue 'walk;
                }
                cur = expect;
            }
            // take one unexplored letter
            let li = nodes[cur].next.iter().position(|x| x.is_none()).unwrap();
            r.d.restore(&nodes[cur].snap);
            let ro = r.cycle(letters[li])?;
            let vo = v.cycle(letters[li])?;
            history.push(letters[li]);
            cmp.cycle(&history, &ro, &vo);
            st.transitions += 1;
            unexplored_total -= 1;
            let k = hash_key(&v.key(), &r.d.state_key(), letters[li]);
            let nid = match ids.get(&k) {
                Some(&n) => n,
                None => {
                    let depth = nodes[cur].depth + 1;
                    st.max_depth = st.max_depth.max(depth);
                    nodes.push(Node { snap: r.d.snapshot(), next: vec![None; nl], depth });
                    ids.insert(k, nodes.len() - 1);
                    st.states += 1;
                    unexplored_total += nl;
                    if nodes.len() >= max_states {
                        st.state_capped = true;
                        nodes[cur].next[li] = Some(nodes.len() - 1);
                        break 'walk;
                    }
                    nodes.len() - 1
                }
            };
            nodes[cur].next[li] = Some(nid);
            cur = nid;
        }
        st.rebuilds = rebuilds;
    } else {
        // product BFS; the veryl side is re-executed from reset along the path
        let mut seen: HashSet<[u8; 32]> = HashSet::new();
        seen.insert(hash_key(&vkey0, &rkey0, u32::MAX));
        let mut queue: VecDeque<(Vec<u32>, svref::sim::Snapshot)> = VecDeque::new();
        queue.push_back((vec![], rsnap0.clone()));
        st.states = 1;
        'bfs: while let Some((path, rsnap)) = queue.pop_front() {
            for &l in &letters {
                v.reset();
                for &p in &path {
                    v.cycle(p)?;
                }
                r.d.restore(&rsnap);
                let ro = r.cycle(l)?;
                let vo = v.cycle(l)?;
                let mut np = path.clone();
                np.push(l);
                cmp.cycle(&np, &ro, &vo);
                st.transitions += 1;
                let k = hash_key(&v.key(), &r.d.state_key(), l);
                if seen.insert(k) {
                    st.states += 1;
                    st.max_depth = st.max_depth.max(np.len() as u64);
                    if st.states as usize >= max_states {
                        st.state_capped = true;
                        break 'bfs;
                    }
                    queue.push_back((np, r.d.snapshot()));
                }
            }
        }
    }

    // all sequences of length flat_len, no deduplication
    if d.clock.is_some() && b.flat_len > 0 && !st.rebuild_mode {
        let flat_len = if nbits >= 4 { b.flat_len } else { b.flat_len + 1 };
        let mut stack: Vec<(Vec<u32>, svref::sim::Snapshot, Vec<(Obs, Option<(Obs, Obs)>)>)> = vec![(vec![], rsnap0, vec![])];
        while let Some((path, rsnap, robs)) = stack.pop() {
            if path.len() == flat_len {
                v.reset();
                for (i, &p) in path.iter().enumerate() {
                    let vo = v.cycle(p)?;
                    cmp.cycle(&path[..=i], &robs[i], &vo);
                }
                st.flat_sequences += 1;
                continue;
            }
            for &l in letters.iter().rev() {
                r.d.restore(&rsnap);
                let ro = r.cycle(l)?;
                let mut np = path.clone();
                np.push(l);
                let mut no = robs.clone();
                no.push(ro);
                stack.push((np, r.d.snapshot(), no));
            }
        }
    }
    st.x_masked_bits = cmp.masked;
    st.observations = cmp.observations;
    st.distinct_outputs = cmp.outputs_seen.len() as u64;
    Ok(())
}


// ------------------------------------------------------------------------------------------------
// CLI leg: the `[build]` -> simulator `Config` derivation of `veryl test` (crates/veryl/src/cmd_test.rs)
// is not reached by the library-level machines above. For every configuration a project with
// sequential family members and generated native testbenches is run through the real `veryl test
// --format json`; the printed trace must equal R2's trace of the SV the same run emitted.

/// de Bruijn sequence of order 2 over `k` letters (every ordered pair of letters occurs once, cyclically)
fn de_bruijn2(k: u32) -> Vec<u32> {
    // standard construction by concatenating Lyndon words whose length divides 2
    let mut seq = vec![];
    for a in 0..k {
        seq.push(a);
        for b in (a + 1)..k {
            seq.push(a);
            seq.push(b);
        }
    }
    seq
}

fn cli_sequence(d: &DesignCase) -> Vec<u32> {
    let nbits: usize = d.inputs.iter().map(|p| p.width).sum();
    let k = 1u32 << nbits;
    let mut s = de_bruijn2(k);
    s.push(s[0]);
    // two resets in mid-run (reset from a non-initial state)
    let n = s.len();
    s.insert(2 * n / 3, RESET_LETTER);
    s.insert(n / 3, RESET_LETTER);
    s
}

fn cli_testbench(d: &DesignCase, k: usize, seq: &[u32]) -> String {
    let mut t = String::new();
    let module_src = d.src.replace("module Top (", &format!("module Dut{k} ("));
    t.push_str(&module_src);
    t.push_str(&format!("\n#[test(tb_d{k})]\nmodule tb_d{k} {{\n    inst clk: $tb::clock_gen;\n    inst rst: $tb::reset_gen ( clk );\n"));
    for p in d.inputs.iter().chain(d.outputs.iter()) {
        let ty = if p.width == 1 { "logic".to_string() } else { format!("logic<{}>", p.width) };
        t.push_str(&format!("    var {}: {}{};\n", p.name, if p.signed { "signed " } else { "" }, ty));
    }
    t.push_str(&format!("    inst dut: Dut{k} (\n        clk: clk,\n        rst: rst,\n"));
    for p in d.inputs.iter().chain(d.outputs.iter()) {
        t.push_str(&format!("        {0}: {0},\n", p.name));
    }
    t.push_str("    );\n    initial {\n");
    let fmt: Vec<&str> = d.outputs.iter().map(|_| "%b").collect();
    let args: Vec<String> = d.outputs.iter().map(|p| p.name.clone()).collect();
    let display = format!("        $display(\"{}\", {});\n", fmt.join(" "), args.join(", "));
    let drive = |t: &mut String, letter: u32| {
        let mut sh = 0;
        for p in &d.inputs {
            let v = (letter >> sh) & ((1u32 << p.width) - 1);
            sh += p.width;
            t.push_str(&format!("        {} = {}'d{};\n", p.name, p.width, v));
        }
    };
    drive(&mut t, 0);
    t.push_str("        rst.assert();\n");
    t.push_str(&display);
    for &l in seq {
        if l == RESET_LETTER {
            drive(&mut t, 0);
            t.push_str("        rst.assert();\n");
        } else {
            drive(&mut t, l);
            t.push_str("        clk.next(1);\n");
        }
        t.push_str(&display);
    }
    t.push_str("        $finish();\n    }\n}\n");
    t
}

#[derive(Default)]
struct CliOutcome {
    projects: u64,
    timed_out: u64,
    tests_run: u64,
    cycles_compared: u64,
    x_masked_bits: u64,
    skipped: BTreeMap<String, u64>,
    violations: Vec<Violation>,
    machinery: Vec<String>,
    sample: Option<Value>,
}

fn cli_project(root: &std::path::Path, designs: &[DesignCase], clock: ClockType, reset: ResetType, timeout_s: f64) -> CliOutcome {
    let mut out = CliOutcome::default();
    let cfg = cfg_name(clock, reset);
    let (cn, rn) = cfg.split_once('/').unwrap();
    let dir = root.join(cfg.replace('/', "_"));
    let _ = std::fs::create_dir_all(dir.join("src"));
    let toml = format!("[project]\nname    = \"prj\"\nversion = \"0.1.0\"\n\n[build]\nclock_type = \"{cn}\"\nreset_type = \"{rn}\"\nsources    = [\"src\"]\ntarget     = {{type = \"directory\", path = \"target\"}}\n");
    if std::fs::write(dir.join("Veryl.toml"), toml).is_err() {
        out.machinery.push(format!("cli leg [{cfg}]: cannot write project"));
        return out;
    }
    let seqs: Vec<Vec<u32>> = designs.iter().map(cli_sequence).collect();
    for (k, d) in designs.iter().enumerate() {
        let _ = std::fs::write(dir.join("src").join(format!("d{k}.veryl")), cli_testbench(d, k, &seqs[k]));
    }
    let exe = bin_dir().join("veryl");
    let home = dir.join("home");
    let _ = std::fs::create_dir_all(&home);
    let (so, se) = (dir.join("stdout.txt"), dir.join("stderr.txt"));
    let child = std::process::Command::new(&exe)
        .args(["test", "--format", "json", "--backend", "cranelift"])
        .current_dir(&dir)
        .env("HOME", &home)
        .env("XDG_CACHE_HOME", home.join(".cache"))
        .env_remove("RUST_LOG")
        .stdin(std::process::Stdio::null())
        .stdout(std::fs::File::create(&so).map(std::process::Stdio::from).unwrap_or_else(|_| std::process::Stdio::null()))
        .stderr(std::fs::File::create(&se).map(std::process::Stdio::from).unwrap_or_else(|_| std::process::Stdio::null()))
        .spawn();
    let mut child = match child {
        Ok(c) => c,
        Err(e) => {
            out.machinery.push(format!("cli leg [{cfg}]: cannot run {}: {e}", exe.display()));
            return out;
        }
    };
    let start = std::time::Instant::now();
    loop {
        match child.try_wait() {
            Ok(Some(_)) => break,
            Ok(None) if start.elapsed().as_secs_f64() > timeout_s => {
                let _ = child.kill();
                let _ = child.wait();
                out.timed_out = 1;
                return out;
            }
            Ok(None) => std::thread::sleep(std::time::Duration::from_millis(50)),
            Err(e) => {
                out.machinery.push(format!("cli leg [{cfg}]: wait: {e}"));
                return out;
            }
        }
    }
    let stdout = std::fs::read_to_string(&so).unwrap_or_default();
    let stderr = std::fs::read_to_string(&se).unwrap_or_default();
    out.projects = 1;
    let json_text = stdout.find("\n{").map(|i| &stdout[i + 1..]).or_else(|| if stdout.starts_with('{') { Some(&stdout[..]) } else { None });
    let doc: Option<Value> = json_text.and_then(|t| serde_json::from_str(t).ok());
    let Some(doc) = doc else {
        let tail: String = stderr.lines().filter(|l| l.contains("Error") || l.contains("error")).take(3).collect::<Vec<_>>().join(" | ");
        *out.skipped.entry(format!("cli leg: `veryl test` produced no JSON report ({})", tail.chars().take(120).collect::<String>())).or_default() += designs.len() as u64;
        return out;
    };
    for (k, d) in designs.iter().enumerate() {
        let name = format!("tb_d{k}");
        let Some(t) = doc["tests"].as_array().and_then(|a| a.iter().find(|t| t["name"] == name.as_str())) else {
            *out.skipped.entry("cli leg: test missing from the JSON report".to_string()).or_default() += 1;
            continue;
        };
        if t["status"] != "pass" {
            *out.skipped.entry(format!("cli leg: test status {}", t["status"])).or_default() += 1;
            continue;
        }
        let lines: Vec<Vec<String>> = t["output"].as_str().unwrap_or("").lines().map(|l| l.split_whitespace().map(|x| x.to_string()).collect()).collect();
        let sv = match std::fs::read_to_string(dir.join("target").join(format!("d{k}.sv"))) {
            Ok(s) => s,
            Err(_) => {
                out.machinery.push(format!("cli leg [{cfg}]: emitted d{k}.sv not found"));
                continue;
            }
        };
        let top = format!("prj_Dut{k}");
        let run = || -> Result<Vec<Obs>, SvError> {
            let mut r = RSim::new(&sv, &top, d, clock, reset)?;
            r.init()?;
            r.reset()?;
            let mut exp = vec![r.observe()?];
            for &l in &seqs[k] {
                let o = r.cycle(l)?;
                exp.push(o.1.map(|x| x.1).unwrap_or(o.0));
            }
            Ok(exp)
        };
        let exp = match run() {
            Ok(e) => e,
            Err(SvError::Unsupported(s)) => {
                *out.skipped.entry(format!("cli leg: R2 unsupported: {s}")).or_default() += 1;
                continue;
            }
            Err(e) => {
                out.machinery.push(format!("cli leg [{cfg}] {}: R2: {e}", d.id));
                continue;
            }
        };
        out.tests_run += 1;
        if lines.len() != exp.len() {
            out.machinery.push(format!("cli leg [{cfg}] {}: {} printed lines, {} expected", d.id, lines.len(), exp.len()));
            continue;
        }
        for (i, (e, o)) in exp.iter().zip(lines.iter()).enumerate() {
            out.cycles_compared += 1;
            if let Some(pi) = first_diff(e, o, &mut out.x_masked_bits) {
                let port = &d.outputs[pi].name;
                let names: Vec<&String> = d.outputs.iter().map(|p| &p.name).collect();
                out.violations.push(Violation {
                    signature: format!("C01:{}:{}", d.class, stem(port)),
                    what: format!("CLI leg: `veryl test` trace differs from the emitted SV: design {} [{cfg}] port {port} at printed line {i}", d.id),
                    case: json!({"design": serde_json::to_value(d).unwrap(), "config": cfg, "testbench": cli_testbench(d, k, &seqs[k]), "letters_after_reset": seqs[k][..i.min(seqs[k].len())].to_vec(),
                        "how": "project with Veryl.toml [build] clock_type/reset_type = config, `veryl test --format json --backend cranelift`"}),
                    expected: json!({"side": "R2 on target/*.sv emitted by the same run", "ports": names, "values": e}),
                    observed: json!({"side": "veryl test output", "ports": names, "values": o}),
                });
                break;
            }
        }
        if out.sample.is_none() {
            out.sample = Some(json!({"cli_leg": cfg, "design": d.id, "cycles": exp.len(), "first_lines": lines.iter().take(3).collect::<Vec<_>>()}));
        }
    }
    out
}

fn cli_leg(root: std::path::PathBuf, family: &[DesignCase], thorough: bool, timeout_s: f64) -> CliOutcome {
    let pick_quick = ["seq.reg", "seq.fsm", "seq.pair", "seq.gated", "seq.reg.clock_negedge.reset_sync_high", "seq.reg.clock_posedge.reset_async_low"];
    let designs: Vec<DesignCase> = family
        .iter()
        .filter(|d| d.clock.is_some() && d.reset.is_some() && !d.src.contains("\n\nmodule Top") && d.class != "seq.local" && d.class != "seq.noreset")
        .filter(|d| thorough || pick_quick.contains(&d.id.as_str()))
        .cloned()
        .collect();
    let mut total = CliOutcome::default();
    if designs.is_empty() {
        return total;
    }
    // quick: one configuration per reset type, both clock types; thorough: all 8.
    // Every project has its own HOME (the bundled std library is expanded per project), all run in parallel.
    let cfgs: Vec<(ClockType, ResetType)> = if thorough {
        CLOCKS.iter().flat_map(|c| RESETS.iter().map(move |r| (*c, *r))).collect()
    } else {
        vec![(ClockType::PosEdge, ResetType::AsyncLow), (ClockType::NegEdge, ResetType::SyncHigh), (ClockType::PosEdge, ResetType::SyncLow), (ClockType::NegEdge, ResetType::AsyncHigh)]
    };
    let outs: Vec<CliOutcome> = std::thread::scope(|s| {
        let hs: Vec<_> = cfgs.iter().map(|(c, r)| { let (root, designs) = (&root, &designs); s.spawn(move || cli_project(root, designs, *c, *r, timeout_s)) }).collect();
        hs.into_iter().map(|h| h.join().unwrap_or_else(|_| { let mut o = CliOutcome::default(); o.machinery.push("cli leg thread panicked".into()); o })).collect()
    });
    for o in outs {
        total.projects += o.projects;
        total.timed_out += o.timed_out;
        total.tests_run += o.tests_run;
        total.cycles_compared += o.cycles_compared;
        total.x_masked_bits += o.x_masked_bits;
        for (k, v) in o.skipped {
            *total.skipped.entry(k).or_default() += v;
        }
        total.violations.extend(o.violations);
        total.machinery.extend(o.machinery);
        if total.sample.is_none() {
            total.sample = o.sample;
        }
    }
    total
}

fn explore_all(ctx: &Ctx, work: &[(usize, ClockType, ResetType)], family: &[DesignCase], bounds: &Bounds, budget: f64, capped: &Mutex<u64>) -> Vec<Option<CaseResult>> {
    par_map(work, |(i, c, r)| {
        if ctx.elapsed() > budget {
            *capped.lock().unwrap() += 1;
            return None;
        }
        let d = family[*i].clone();
        let (c, r) = (*c, *r);
        let b = Bounds { max_states: bounds.max_states, flat_len: bounds.flat_len, use_jit: bounds.use_jit, verbose: false };
        let id = d.id.clone();
        match run_isolated(64 << 20, move || {
            let mut res = run_case(&d, c, r, &b);
            // triage aid: does the tree-walking interpreter engine show the same finding?
            if !res.violations.is_empty() && b.use_jit {
                let b2 = Bounds { max_states: b.max_states, flat_len: b.flat_len, use_jit: false, verbose: false };
                let other: HashSet<String> = run_case(&d, c, r, &b2).violations.into_iter().map(|v| v.signature).collect();
                for v in res.violations.iter_mut() {
                    v.what.push_str(if other.contains(&v.signature) { " [interpreter engine: same finding]" } else { " [interpreter engine: agrees with the SV; JIT only]" });
                }
            }
            // everything veryl-side lives on this thread; make the result Send by construction
            (res.outcome, res.violations, res.sv)
        }) {
            Ok((outcome, violations, sv)) => Some(CaseResult { outcome, violations, sv }),
            Err(p) => Some(CaseResult {
                outcome: CaseOutcome::Machinery(format!("panic while checking {id} [{}]: {p} at {:?}", cfg_name(c, r), take_panic_loc())),
                violations: vec![],
                sv: None,
            }),
        }
    })
}

// ------------------------------------------------------------------------------------------------
// the check

pub fn run(ctx: &Ctx) -> Report {
    install_quiet_panic_hook();
    let mut rep = Report::new(Level::ModelChecking);
    let budget = ctx.budget(45.0, 780.0);
    let thorough = ctx.thorough();
    let mut family = df::family(thorough);
    // development aid: VMC_C01_ONLY=<substring> restricts the family (never set by the registered runs)
    let only = std::env::var("VMC_C01_ONLY").ok();
    if let Some(f) = &only {
        family.retain(|d| d.id.contains(f.as_str()));
    }
    let bounds = Bounds { max_states: if thorough { 8192 } else { 2048 }, flat_len: if thorough { 3 } else { 2 }, use_jit: std::env::var("VMC_C01_INTERP").is_err(), verbose: false };

    // work list: (design index, clock, reset); sequential designs first (they are the expensive ones)
    let mut work: Vec<(usize, ClockType, ResetType)> = vec![];
    for (i, d) in family.iter().enumerate() {
        for c in CLOCKS {
            for r in RESETS {
                // purely combinational designs have no clock or reset port: the emitted text does
                // not depend on the configuration; quick runs them under two configurations
                // (likewise the explicit clock/reset type sub-family, whose plain twins run under all 8)
                if !thorough && (d.clock.is_none() || d.class.ends_with(".explicit")) && !((c == ClockType::PosEdge && r == ResetType::AsyncLow) || (c == ClockType::NegEdge && r == ResetType::SyncHigh)) {
                    continue;
                }
                work.push((i, c, r));
            }
        }
    }
    work.sort_by_key(|(i, _, _)| (family[*i].clock.is_none(), *i));
    if ctx.seed != 0 {
        let n = work.len();
        work.rotate_left((ctx.seed as usize) % n.max(1));
    }

    let cli_root = ctx.dir("cli");
    let run_cli = std::env::var("VMC_C01_NO_CLI").is_err() && only.is_none();
    if std::env::var("VMC_C01_CLI_ONLY").is_ok() {
        work.clear(); // development aid
    }
    let capped = Mutex::new(0u64);
    let (results, cli): (Vec<Option<CaseResult>>, CliOutcome) = std::thread::scope(|sc| {
        let fam = &family;
        let h = sc.spawn(move || if run_cli { cli_leg(cli_root, fam, thorough, budget.max(50.0)) } else { CliOutcome::default() });
        let results = explore_all(ctx, &work, &family, &bounds, budget, &capped);
        (results, h.join().unwrap_or_else(|_| { let mut o = CliOutcome::default(); o.machinery.push("cli leg panicked".into()); o }))
    });

    let mut skipped: BTreeMap<String, u64> = BTreeMap::new();
    let mut skipped_examples: BTreeMap<String, String> = BTreeMap::new();
    let mut warn_codes: BTreeMap<String, u64> = BTreeMap::new();
    let (mut cases_done, mut nontrivial, mut seq_cases, mut state_capped, mut rebuild) = (0u64, 0u64, 0u64, 0u64, 0u64);
    let mut designs_done: HashSet<usize> = HashSet::new();
    let mut configs_done: HashSet<String> = HashSet::new();
    let mut classes: BTreeMap<String, u64> = BTreeMap::new();
    let (mut states, mut transitions, mut flat, mut distinct, mut masked, mut observations, mut max_depth) = (0u64, 0u64, 0u64, 0u64, 0u64, 0u64, 0u64);
    let mut machinery: Vec<String> = vec![];
    let mut sampled: HashSet<String> = HashSet::new();
    if let Some(sm) = &cli.sample {
        rep.sample(sm.clone());
    }
    for ((i, c, r), res) in work.iter().zip(results) {
        let Some(res) = res else { continue };
        let d = &family[*i];
        for v in res.violations {
            rep.violation(v);
        }
        match res.outcome {
            CaseOutcome::Done(s) => {
                if only.is_some() {
                    eprintln!("CASE {} [{}]: states={} transitions={} depth={} flat={} distinct={} masked={} capped={} rebuild={} t_front={:.3} t_r2={:.3} t_explore={:.3}", d.id, cfg_name(*c, *r), s.states, s.transitions, s.max_depth, s.flat_sequences, s.distinct_outputs, s.x_masked_bits, s.state_capped, s.rebuild_mode, s.t_front, s.t_r2_elab, s.t_explore);
                }
                cases_done += 1;
                designs_done.insert(*i);
                configs_done.insert(cfg_name(*c, *r));
                *classes.entry(d.class.clone()).or_default() += 1;
                states += s.states;
                transitions += s.transitions;
                flat += s.flat_sequences;
                distinct += s.distinct_outputs;
                masked += s.x_masked_bits;
                observations += s.observations;
                max_depth = max_depth.max(s.max_depth);
                if s.distinct_outputs >= 2 && s.states >= 2 {
                    nontrivial += 1;
                }
                if d.clock.is_some() {
                    seq_cases += 1;
                }
                if s.state_capped {
                    state_capped += 1;
                }
                if s.rebuild_mode {
                    rebuild += 1;
                }
                for w in s.warnings {
                    *warn_codes.entry(w).or_default() += 1;
                }
                if !sampled.contains(&d.class) && (d.clock.is_some() || sampled.len() < 3) {
                    sampled.insert(d.class.clone());
                    rep.sample(json!({"design": d.id, "config": cfg_name(*c, *r), "states": s.states, "transitions": s.transitions,
                        "max_depth": s.max_depth, "flat_sequences": s.flat_sequences, "distinct_output_vectors": s.distinct_outputs, "x_bits_masked": s.x_masked_bits}));
                }
            }
            CaseOutcome::Skipped(reason) => {
                if only.is_some() {
                    eprintln!("SKIP {} [{}]: {reason}\n{}", d.id, cfg_name(*c, *r), res.sv.clone().unwrap_or_default());
                }
                // group by the reason without design-specific detail
                let key: String = reason.chars().take(90).collect();
                *skipped.entry(key.clone()).or_default() += 1;
                skipped_examples.entry(key).or_insert_with(|| format!("{} [{}]", d.id, cfg_name(*c, *r)));
            }
            CaseOutcome::Machinery(m) => machinery.push(m),
        }
    }
    let capped = *capped.lock().unwrap();
    // CLI leg results
    for v in cli.violations {
        rep.violation(v);
    }
    for (k, n) in &cli.skipped {
        *skipped.entry(k.clone()).or_default() += n;
    }
    machinery.extend(cli.machinery);
    rep.set("cli_projects", cli.projects);
    rep.set("cli_tests_run", cli.tests_run);
    rep.set("cli_cycles_compared", cli.cycles_compared);
    masked += cli.x_masked_bits;
    rep.set("cli_projects_not_run_budget", cli.timed_out);
    if run_cli && cli.tests_run == 0 && cli.timed_out == 0 {
        machinery.push("vacuity guard: the CLI leg compared no test".into());
    }
    let skipped_total: u64 = skipped.values().sum();
    rep.set("family_designs", family.len() as u64);
    rep.set("designs", designs_done.len() as u64);
    rep.set("configs", configs_done.len() as u64);
    rep.set("cases_planned", work.len() as u64);
    rep.set("cases_completed", cases_done);
    rep.set("cases_sequential", seq_cases);
    rep.set("cases_not_run_budget", capped);
    rep.set("cases_state_capped", state_capped);
    rep.set("cases_rebuild_mode", rebuild);
    rep.set("skipped", skipped_total);
    rep.set("skipped_reasons", json!(skipped));
    rep.set("skipped_examples", json!(skipped_examples));
    rep.set("states", states);
    rep.set("transitions", transitions);
    rep.set("flat_sequences_no_dedup", flat);
    rep.set("traces_validated_against_impl", transitions + flat + cli.tests_run);
    rep.set("observations_compared", observations);
    rep.set("max_bfs_depth", max_depth);
    rep.set("distinct_output_vectors", distinct);
    rep.set("nontrivial_cases", nontrivial);
    rep.set("x_bits_masked", masked);
    rep.set("classes", json!(classes));
    rep.set("analyzer_warning_codes", json!(warn_codes));
    rep.set("max_states_per_case", bounds.max_states as u64);
    rep.set("flat_len", bounds.flat_len as u64);
    rep.set("exhaustive", capped == 0 && state_capped == 0 && skipped_total == 0 && cli.timed_out == 0);
    rep.set("budget_s", budget);
    rep.assume("R2 (vmc_refmodels::svref, IEEE 1800 semantics written independently) stands in for a standard SystemVerilog simulator, which the sandbox does not have");
    rep.assume("veryl side: veryl_simulator::Simulator with the Cranelift JIT (Config.use_jit), 2-state; the CLI default `cc` backend is compared against it by C02");
    rep.assume("bits that are x/z on the SV side (division by zero, out-of-range select) have no 2-state counterpart and are not compared (count: x_bits_masked)");
    rep.assume("stimulus: reset phase (assert, one active edge, de-assert), then all input letters at every reachable product state; data inputs total <= 4 bits");
    for m in machinery.iter().take(10) {
        rep.machinery(m.clone());
    }
    if machinery.len() > 10 {
        rep.machinery(format!("... and {} more machinery errors", machinery.len() - 10));
    }
    if cases_done == 0 {
        rep.machinery("vacuity guard: no case completed");
    } else {
        if nontrivial * 2 < cases_done {
            rep.machinery(format!("vacuity guard: only {nontrivial} of {cases_done} cases are non-trivial (>= 2 distinct output vectors and >= 2 states)"));
        }
        if skipped_total * 20 > work.len() as u64 {
            rep.machinery(format!("vacuity guard: {skipped_total} of {} cases skipped (> 5 %)", work.len()));
        }
        if seq_cases == 0 {
            rep.machinery("vacuity guard: no sequential design completed");
        }
    }
    rep
}

pub fn replay(doc: &Value) -> i32 {
    install_quiet_panic_hook();
    let case = &doc["case"];
    let Ok(d) = serde_json::from_value::<DesignCase>(case["design"].clone()) else {
        eprintln!("replay: cannot read case.design");
        return 2;
    };
    let Some((c, r)) = cfg_parse(case["config"].as_str().unwrap_or("")) else {
        eprintln!("replay: bad config");
        return 2;
    };
    let res = run_isolated(64 << 20, move || {
        let res = run_case(&d, c, r, &Bounds { max_states: 8192, flat_len: 2, use_jit: std::env::var("VMC_C01_INTERP").is_err(), verbose: true });
        let txt = match &res.outcome {
            CaseOutcome::Done(s) => format!("done states={} transitions={}", s.states, s.transitions),
            CaseOutcome::Skipped(s) => format!("skipped: {s}"),
            CaseOutcome::Machinery(s) => format!("machinery: {s}"),
        };
        (txt, res.violations, res.sv)
    });
    match res {
        Ok((txt, vs, sv)) => {
            println!("replay: {txt}");
            if let Some(sv) = sv {
                println!("--- emitted SystemVerilog ---\n{sv}");
            }
            for v in &vs {
                println!("MISMATCH {} :: {}", v.signature, v.what);
                let (e, o) = (&v.expected, &v.observed);
                if let (Some(ps), Some(ev), Some(ov)) = (e["ports"].as_array(), e["values"].as_array(), o["values"].as_array()) {
                    for ((p, a), b) in ps.iter().zip(ev).zip(ov) {
                        if a != b {
                            println!("    {} sv={} veryl={}", p.as_str().unwrap_or("?"), a.as_str().unwrap_or("?"), b.as_str().unwrap_or("?"));
                        }
                    }
                }
            }
            if vs.is_empty() { 0 } else { 1 }
        }
        Err(p) => {
            eprintln!("replay panicked: {p}");
            2
        }
    }
}

//! C10 — the parser terminates without crashing on every input.
//!
//! Engine E1 (finite families, exhaustively enumerated), every parse in a worker subprocess
//! (`vmc worker parse`) on a fresh thread with the CLI's 8 MiB stack and a wall cap; the tree
//! (or the error) is dropped inside the guarded thread.
//!
//! Families
//!  (a) every string of <= 3 lexemes over a hostile alphabet (joined with "" and with " "), and
//!      every string of 4 lexemes over a core alphabet; a metamorphic sub-family re-parses every
//!      string of <= 2 lexemes behind a multi-byte comment and demands the same outcome with the
//!      span shifted by the comment's *byte* length,
//!  (b) every prefix (char boundary) and every single-char deletion of every corpus file
//!      (quick: prefixes at lexical-class boundaries only),
//!  (c) nesting ladders for ~24 nesting constructs: closed and unclosed forms at depths
//!      1,2,4..131072, plus every depth in a window around the depth where the parser's answer
//!      flips from Ok to an error (found by bisection) — the deepest accepted tree is the one
//!      that stresses parse and drop recursion most; thorough adds every depth 1..=1300,
//!  (d) long flat runs (1e5 tokens; quick 2e4) of list-like constructs.
//!
//! Oracle: the worker returns; the result is Ok or Err(ParserError); every labelled span of the
//! error lies in [0, len(text)+1] and on char boundaries of the newline-terminated text; no
//! panic, no abort, no stack overflow, no timeout. A stack overflow seen in this (opt-level 1)
//! build is a violation only if it reproduces in a parser-only binary built on demand with the
//! repository's release profile; otherwise it is recorded as an observation.

use super::robust_worker::*;
use crate::core::*;
use serde_json::{Value, json};
use std::collections::{BTreeMap, BTreeSet};
use std::path::{Path, PathBuf};
use std::sync::Mutex;

// ------------------------------------------------------------------------------------- worker

fn parse_facts(text: &str, render: bool) -> Value {
    use miette::Diagnostic;
    use veryl_parser::{Parser, ParserError};
    let r = Parser::parse(text, &"c10.veryl");
    match r {
        Ok(p) => {
            drop(p);
            json!({"o":"ok"})
        }
        Err(e) => {
            let kind = match &e {
                ParserError::SyntaxError(_) => "syntax".to_string(),
                ParserError::ParserError(x) => {
                    let d = format!("{x:?}");
                    format!("parser.{}", d.split(|c: char| !c.is_alphanumeric()).next().unwrap_or(""))
                }
                ParserError::LexerError(x) => {
                    let d = format!("{x:?}");
                    format!("lexer.{}", d.split(|c: char| !c.is_alphanumeric()).next().unwrap_or(""))
                }
                ParserError::UserError(_) => "user".to_string(),
            };
            let mut spans: Vec<(usize, usize)> = vec![];
            if let Some(ls) = e.labels() {
                for l in ls {
                    spans.push((l.offset(), l.len()));
                }
            }
            let msg = e.to_string();
            let mut rendered = 0usize;
            if render {
                // what the CLI does with the error: a graphical miette report
                let mut s = String::new();
                let h = miette::GraphicalReportHandler::new_themed(miette::GraphicalTheme::none());
                let _ = h.render_report(&mut s, &e as &dyn Diagnostic);
                rendered = s.len();
            }
            drop(e);
            json!({"o":"err","k":kind,"s":spans,"m":clip(&msg, 80),"r":rendered})
        }
    }
}

pub fn worker_fn(input: &str, opts: &Value) -> Value {
    let render = opts["render"].as_bool().unwrap_or(false);
    if let Some(n) = opts["bench"].as_u64() {
        let t = std::time::Instant::now();
        for _ in 0..n {
            let _ = parse_facts(input, render);
        }
        return json!({"o":"bench","us_per_parse": t.elapsed().as_micros() as f64 / n as f64});
    }
    if let Some(k) = opts["shift"].as_u64() {
        // metamorphic pair: the text without and with the first `k` bytes (a comment)
        let k = k as usize;
        let a = parse_facts(&input[k..], render);
        let b = parse_facts(input, render);
        return json!({"o":"pair","a":a,"b":b});
    }
    parse_facts(input, render)
}

// ----------------------------------------------------------------------------------- families

/// Hostile lexeme alphabet. The first `CORE` entries form the core alphabet for length 4.
const ALPHABET: &[&str] = &[
    // ---- core (25)
    "{", "}", "(", ")", "[", "]", "<", ">", "::<", ":", ";", ",", "=", "a", "module", "if",
    "1", "'", "\"", "/*", "*/", "//", "\\", "#[", "embed",
    // ---- identifiers / keywords
    "r#", "r#module", "$a", "$", "_", "else", "case", "let", "u32", "inside", "function",
    "import", "as", "for", "in", "default", "inst",
    // ---- numbers
    "8'hx", "'1", "1e", "0x", "1.5", "1.5e+1", "'s", "8'", "1_", "'h",
    // ---- punctuation / operators (one per class)
    "::", ".", "..", "..=", "#", "?", "'{", "\\{", "\\}", "{{{", "}}}", "*", "**", "+", "-",
    "/", "<<<=", "==?", "&&", "|", "~^", "!", "->", "<-", "+:", "<>", "<:", "&",
    // ---- lexer-hostile
    "é", "漢", "\0", "\r", "\n", "\"a\"", "\u{feff}", "\t",
];
const CORE: usize = 25;

const SHIFT_COMMENT: &str = "/*漢é*/ ";

fn lex_string(alpha: &[&str], len: usize, mut idx: usize, joiner: &str) -> String {
    let n = alpha.len();
    let mut parts = Vec::with_capacity(len);
    for _ in 0..len {
        parts.push(alpha[idx % n]);
        idx /= n;
    }
    parts.reverse();
    parts.join(joiner)
}

/// index -> string of exactly `len` lexemes; `count(len) = n^len`
fn pow(n: usize, e: usize) -> usize {
    (0..e).fold(1usize, |a, _| a * n)
}

struct Family {
    name: String,
    n: usize,
    generate: Box<dyn Fn(usize) -> String + Sync + Send>,
    batch: usize,
    cap_s: f64,
    opts: Value,
    /// label used in signatures (construct name for ladders)
    class: Box<dyn Fn(usize) -> String + Sync + Send>,
    /// optional side channel for adaptive families (index, "ok" / error kind / "died")
    observe: Option<Box<dyn Fn(usize, &str) + Sync + Send>>,
}

fn lex_family(name: &str, alpha: &'static [&'static str], max_len: usize, min_len: usize, joiner: &'static str, shift: bool) -> Family {
    let n = alpha.len();
    let mut offs = vec![];
    let mut total = 0usize;
    for l in min_len..=max_len {
        offs.push((l, total));
        total += pow(n, l);
    }
    let offs2 = offs.clone();
    let nm = name.to_string();
    Family {
        name: name.to_string(),
        n: total,
        generate: Box::new(move |i| {
            let (l, base) = *offs2.iter().rev().find(|(_, b)| *b <= i).unwrap();
            let s = lex_string(alpha, l, i - base, joiner);
            if shift { format!("{SHIFT_COMMENT}{s}") } else { s }
        }),
        batch: 4000,
        cap_s: 20.0,
        opts: if shift { json!({"shift": SHIFT_COMMENT.len(), "render": false}) } else { json!({"render": true}) },
        class: Box::new(move |_| nm.clone()),
        observe: None,
    }
}

fn lex_class(b: u8) -> u8 {
    if b.is_ascii_alphanumeric() || b == b'_' || b == b'$' || b >= 0x80 {
        0
    } else if b.is_ascii_whitespace() {
        1
    } else {
        2
    }
}

fn corpus_files() -> Vec<(String, String)> {
    let dir = repo_root().join("testcases").join("veryl");
    let mut v = vec![];
    if let Ok(rd) = std::fs::read_dir(&dir) {
        for e in rd.flatten() {
            let p = e.path();
            if p.extension().and_then(|x| x.to_str()) == Some("veryl") {
                if let Ok(t) = std::fs::read_to_string(&p) {
                    v.push((p.file_name().unwrap().to_string_lossy().to_string(), t));
                }
            }
        }
    }
    v.sort();
    v
}

/// (file index, cut byte offset) for every prefix to test.
fn prefix_points(files: &[(String, String)], all: bool) -> Vec<(u32, u32)> {
    let mut v = vec![];
    for (fi, (_, t)) in files.iter().enumerate() {
        let b = t.as_bytes();
        for p in 0..b.len() {
            // prefix t[..p], p < len (the full file is the corpus itself, covered separately)
            if !t.is_char_boundary(p) {
                continue;
            }
            let keep = all
                || p == 0
                || lex_class(b[p - 1]) != lex_class(b[p])
                || (lex_class(b[p]) == 2)
                || (lex_class(b[p - 1]) == 2);
            if keep {
                v.push((fi as u32, p as u32));
            }
        }
        v.push((fi as u32, b.len() as u32));
    }
    v
}

struct Nest {
    name: &'static str,
    prefix: &'static str,
    open: &'static str,
    core: &'static str,
    close: &'static str,
    suffix: &'static str,
}

const NESTS: &[Nest] = &[
    Nest { name: "paren", prefix: "module M { let a: u32 = ", open: "(", core: "1", close: ")", suffix: "; }" },
    Nest { name: "concat", prefix: "module M { let a: u32 = ", open: "{", core: "1", close: "}", suffix: "; }" },
    Nest { name: "index", prefix: "module M { let a: u32 = ", open: "b[", core: "0", close: "]", suffix: "; }" },
    Nest { name: "call", prefix: "module M { let a: u32 = ", open: "f(", core: "1", close: ")", suffix: "; }" },
    Nest { name: "unary_not", prefix: "module M { let a: u32 = ", open: "~", core: "b", close: "", suffix: "; }" },
    Nest { name: "unary_minus", prefix: "module M { let a: u32 = ", open: "- ", core: "b", close: "", suffix: "; }" },
    Nest { name: "array_literal", prefix: "module M { let a: u32 = ", open: "'{", core: "1", close: "}", suffix: "; }" },
    Nest { name: "struct_ctor", prefix: "module M { let a: u32 = ", open: "S'{x: ", core: "1", close: "}", suffix: "; }" },
    Nest { name: "inside", prefix: "module M { let a: u32 = ", open: "inside 1 {", core: "0", close: "}", suffix: "; }" },
    Nest { name: "if_expr_then", prefix: "module M { let a: u32 = ", open: "if x ? ", core: "1", close: " : 0", suffix: "; }" },
    Nest { name: "if_expr_else", prefix: "module M { let a: u32 = ", open: "if x ? 1 : ", core: "0", close: "", suffix: "; }" },
    Nest { name: "case_expr", prefix: "module M { let a: u32 = ", open: "case x { 0: ", core: "1", close: ", default: 0 }", suffix: "; }" },
    Nest { name: "switch_expr", prefix: "module M { let a: u32 = ", open: "switch { x: ", core: "1", close: ", default: 0 }", suffix: "; }" },
    Nest { name: "generic_arg", prefix: "module M { inst u: ", open: "A::<", core: "1", close: ">", suffix: "; }" },
    Nest { name: "type_width", prefix: "module M { var v: ", open: "logic<$bits(", core: "logic", close: ")>", suffix: "; }" },
    Nest { name: "if_stmt", prefix: "module M { always_comb { ", open: "if x { ", core: "y = 1;", close: " }", suffix: " } }" },
    Nest { name: "if_else_stmt", prefix: "module M { always_comb { ", open: "if x { y = 1; } else { ", core: "y = 1;", close: " }", suffix: " } }" },
    Nest { name: "case_stmt", prefix: "module M { always_comb { ", open: "case x { 0: ", core: "y = 1;", close: " }", suffix: " } }" },
    Nest { name: "case_block_stmt", prefix: "module M { always_comb { ", open: "case x { 0: { ", core: "y = 1;", close: " } }", suffix: " } }" },
    Nest { name: "for_stmt", prefix: "module M { always_comb { ", open: "for i in 0..1 { ", core: "y = 1;", close: " }", suffix: " } }" },
    Nest { name: "block_stmt", prefix: "module M { always_comb { ", open: "block { ", core: "y = 1;", close: " }", suffix: " } }" },
    Nest { name: "gen_if", prefix: "module M { ", open: "if x :g { ", core: "var v: logic;", close: " }", suffix: " }" },
    Nest { name: "gen_for", prefix: "module M { ", open: "for i in 0..1 :g { ", core: "var v: logic;", close: " }", suffix: " }" },
    Nest { name: "gen_block", prefix: "module M { ", open: ":g { ", core: "var v: logic;", close: " }", suffix: " }" },
    Nest { name: "attr_group", prefix: "", open: "#[ifdef(A)] { ", core: "module M {}", close: " }", suffix: "" },
    Nest { name: "embed_brace", prefix: "embed (inline) sv{{{ ", open: "{", core: "x", close: "}", suffix: " }}}" },
    Nest { name: "embed_brace_escape", prefix: "embed (inline) sv{{{ ", open: "{ \\{ a::<1> \\} ", core: "x", close: "}", suffix: " }}}" },
    Nest { name: "lex_generic_open", prefix: "module M { inst u: A", open: "::<", core: "1", close: "", suffix: "" },
    Nest { name: "lex_attr_open", prefix: "", open: "#[", core: "a", close: "", suffix: "" },
];

fn nest_text(n: &Nest, depth: usize, closed: bool) -> String {
    let mut s = String::with_capacity(
        n.prefix.len() + n.suffix.len() + n.core.len() + depth * (n.open.len() + n.close.len()),
    );
    s.push_str(n.prefix);
    for _ in 0..depth {
        s.push_str(n.open);
    }
    s.push_str(n.core);
    if closed {
        for _ in 0..depth {
            s.push_str(n.close);
        }
        s.push_str(n.suffix);
    }
    s
}

struct Flat {
    name: &'static str,
    prefix: &'static str,
    item: &'static str,
    suffix: &'static str,
    tokens_per_item: usize,
}

const FLATS: &[Flat] = &[
    Flat { name: "add_chain", prefix: "module M { let a: u32 = 1", item: " + 1", suffix: "; }", tokens_per_item: 2 },
    Flat { name: "mixed_op_chain", prefix: "module M { let a: u32 = 1", item: " * 1 + 1 << 1 & 1 | 1 == 1", suffix: "; }", tokens_per_item: 12 },
    Flat { name: "unary_chain", prefix: "module M { let a: u32 = ", item: "~", suffix: "b; }", tokens_per_item: 4 },
    Flat { name: "if_expr_else_chain", prefix: "module M { let a: u32 = ", item: "if x ? 1 : ", suffix: "0; }", tokens_per_item: 20 },
    Flat { name: "concat_items", prefix: "module M { let a: u32 = {1", item: ", 1", suffix: "}; }", tokens_per_item: 2 },
    Flat { name: "call_args", prefix: "module M { let a: u32 = f(1", item: ", 1", suffix: "); }", tokens_per_item: 2 },
    Flat { name: "array_items", prefix: "module M { let a: u32 = '{1", item: ", 1", suffix: "}; }", tokens_per_item: 2 },
    Flat { name: "index_chain", prefix: "module M { let a: u32 = b", item: "[0]", suffix: "; }", tokens_per_item: 3 },
    Flat { name: "member_chain", prefix: "module M { let a: u32 = b", item: ".b", suffix: "; }", tokens_per_item: 2 },
    Flat { name: "scope_chain", prefix: "module M { let a: u32 = b", item: "::b", suffix: "; }", tokens_per_item: 2 },
    Flat { name: "range_items", prefix: "module M { let a: u32 = inside b {1", item: ", 1..=2", suffix: "}; }", tokens_per_item: 4 },
    Flat { name: "statements", prefix: "module M { always_comb { ", item: "y = 1; ", suffix: "} }", tokens_per_item: 4 },
    Flat { name: "else_if_chain", prefix: "module M { always_comb { if x { y = 1; }", item: " else if x { y = 1; }", suffix: " } }", tokens_per_item: 9 },
    Flat { name: "case_arms", prefix: "module M { always_comb { case x { ", item: "0: y = 1; ", suffix: "} } }", tokens_per_item: 6 },
    Flat { name: "case_arm_items", prefix: "module M { always_comb { case x { 0", item: ", 0", suffix: ": y = 1; } } }", tokens_per_item: 2 },
    Flat { name: "module_items", prefix: "module M { ", item: "var v: logic; ", suffix: "}", tokens_per_item: 5 },
    Flat { name: "modules", prefix: "", item: "module M {} ", suffix: "", tokens_per_item: 4 },
    Flat { name: "ports", prefix: "module M (a: input logic", item: ", a: input logic", suffix: ") {}", tokens_per_item: 5 },
    Flat { name: "enum_members", prefix: "module M { enum E { A", item: ", A", suffix: "} }", tokens_per_item: 2 },
    Flat { name: "attributes", prefix: "", item: "#[allow(a)] ", suffix: "module M {}", tokens_per_item: 6 },
    Flat { name: "array_dims", prefix: "module M { var v: logic<1", item: ", 1", suffix: "> [1, 1]; }", tokens_per_item: 2 },
    Flat { name: "line_comments", prefix: "", item: "// c\n", suffix: "module M {}", tokens_per_item: 1 },
    Flat { name: "block_comments", prefix: "", item: "/* c */", suffix: "module M {}", tokens_per_item: 1 },
    Flat { name: "long_identifier", prefix: "module M", item: "a", suffix: " {}", tokens_per_item: 1 },
    Flat { name: "long_number", prefix: "module M { let a: u32 = 1", item: "_1", suffix: "; }", tokens_per_item: 1 },
    Flat { name: "long_string", prefix: "module M { let a: string = \"", item: "é", suffix: "\"; }", tokens_per_item: 1 },
    Flat { name: "long_open_comment", prefix: "/*", item: " *", suffix: "", tokens_per_item: 1 },
    Flat { name: "long_garbage", prefix: "", item: "\\ ", suffix: "", tokens_per_item: 1 },
    Flat { name: "open_parens_only", prefix: "module M { let a: u32 = ", item: "(", suffix: "", tokens_per_item: 1 },
    Flat { name: "close_braces_only", prefix: "module M {}", item: " }", suffix: "", tokens_per_item: 1 },
    Flat { name: "embed_body", prefix: "embed (inline) sv{{{", item: " x {} ", suffix: "}}}", tokens_per_item: 3 },
];

fn flat_text(f: &Flat, tokens: usize) -> String {
    let n = tokens / f.tokens_per_item;
    let mut s = String::with_capacity(f.prefix.len() + f.suffix.len() + n * f.item.len());
    s.push_str(f.prefix);
    for _ in 0..n {
        s.push_str(f.item);
    }
    s.push_str(f.suffix);
    s
}

// ---------------------------------------------------------------------------- oracle / summary

#[derive(Default)]
struct Acc {
    evaluations: u64,
    ok: u64,
    err_kinds: BTreeMap<String, u64>,
    messages: BTreeSet<String>,
    per_family: BTreeMap<String, (u64, u64, u64)>, // evaluated, ok, err
    violations: Vec<Violation>,
    sigs: BTreeSet<String>,
    sig_counts: BTreeMap<String, u64>,
    overflow_candidates: Vec<(String, String, String)>, // class, input, stderr
    machinery: Vec<String>,
    samples: Vec<Value>,
    shift_pairs: u64,
    shift_pairs_with_span: u64,
    rendered: u64,
}

fn text_nl(input: &str) -> String {
    let mut t = input.to_string();
    if !t.ends_with('\n') {
        t.push('\n');
    }
    t
}

fn show(input: &str) -> Value {
    if input.len() <= 2_000_000 {
        json!(input)
    } else {
        let mut a = 200;
        while !input.is_char_boundary(a) {
            a += 1;
        }
        json!(format!("{}… [{} bytes, blake3 {}]", &input[..a], input.len(), hash_hex(input.as_bytes())))
    }
}

impl Acc {
    fn viol(&mut self, sig: String, what: String, case: Value, expected: Value, observed: Value) {
        *self.sig_counts.entry(sig.clone()).or_default() += 1;
        // keep the first (simplest-first order inside a batch; batches arrive unordered, so keep
        // the shortest case per signature for a stable, minimal replay)
        let size = case["input_len"].as_u64().unwrap_or(u64::MAX);
        if let Some(v) = self.violations.iter_mut().find(|v| v.signature == sig) {
            let old = v.case["input_len"].as_u64().unwrap_or(u64::MAX);
            if size < old {
                *v = Violation { signature: sig, what, case, expected, observed };
            }
            return;
        }
        self.sigs.insert(sig.clone());
        self.violations.push(Violation { signature: sig, what, case, expected, observed });
    }

    /// Checks the facts of one parse; returns Some((ok, kind, spans)) for metamorphic use.
    fn judge_facts(&mut self, fam: &str, class: &str, input: &str, v: &Value, case_extra: &Value) {
        let case = |input: &str| {
            let mut c = json!({"family": fam, "class": class, "input": show(input), "input_len": input.len()});
            if let (Some(o), Some(e)) = (c.as_object_mut(), case_extra.as_object()) {
                for (k, x) in e {
                    o.insert(k.clone(), x.clone());
                }
            }
            c
        };
        match v["o"].as_str().unwrap_or("") {
            "ok" => {
                self.ok += 1;
            }
            "err" => {
                let k = v["k"].as_str().unwrap_or("?").to_string();
                *self.err_kinds.entry(k.clone()).or_default() += 1;
                if self.messages.len() < 4000 {
                    self.messages.insert(v["m"].as_str().unwrap_or("").to_string());
                }
                if v["r"].as_u64().unwrap_or(0) > 0 {
                    self.rendered += 1;
                }
                let t = text_nl(input);
                for s in v["s"].as_array().cloned().unwrap_or_default() {
                    let off = s[0].as_u64().unwrap_or(0) as usize;
                    let len = s[1].as_u64().unwrap_or(0) as usize;
                    let end = off.saturating_add(len);
                    let bound = input.len() + 1;
                    if end > bound || off > bound {
                        self.viol(
                            format!("C10:span.out_of_range:{k}"),
                            format!("{k} diagnostic span [{off},{end}) lies outside [0, len+1] (input length {})", input.len()),
                            case(input),
                            json!({"span_within": [0, bound]}),
                            json!({"span": [off, len], "message": v["m"]}),
                        );
                    } else if !(off >= t.len() || t.is_char_boundary(off)) || !(end >= t.len() || t.is_char_boundary(end)) {
                        self.viol(
                            format!("C10:span.splits_char:{k}"),
                            format!("{k} diagnostic span [{off},{end}) does not lie on character boundaries of the input"),
                            case(input),
                            json!("span start and end on UTF-8 character boundaries"),
                            json!({"span": [off, len], "message": v["m"]}),
                        );
                    }
                }
            }
            "panic" => {
                let loc = norm_loc(v["loc"].as_str().unwrap_or("?"));
                self.viol(
                    format!("C10:panic:{loc}"),
                    format!("Parser::parse panicked at {loc}: {}", v["msg"].as_str().unwrap_or("")),
                    case(input),
                    json!("Ok(tree) or Err(ParserError)"),
                    v.clone(),
                );
            }
            other => self.machinery.push(format!("worker returned unknown outcome {other:?} in {fam}")),
        }
    }

    fn judge(&mut self, fam: &str, class: &str, input: &str, r: &Res, shift: Option<usize>) {
        self.evaluations += 1;
        let e = self.per_family.entry(fam.to_string()).or_default();
        e.0 += 1;
        match r {
            Res::Done(v) => {
                if v["o"] == "pair" {
                    let k = shift.unwrap_or(0);
                    let (a, b) = (&v["a"], &v["b"]);
                    self.shift_pairs += 1;
                    self.judge_facts(fam, class, &input[k..], a, &json!({}));
                    self.judge_facts(fam, class, input, b, &json!({}));
                    // same outcome, same kind, spans shifted by k bytes
                    let shifted: Vec<Value> = a["s"]
                        .as_array()
                        .cloned()
                        .unwrap_or_default()
                        .iter()
                        .map(|s| json!([s[0].as_u64().unwrap_or(0) + k as u64, s[1]]))
                        .collect();
                    if !shifted.is_empty() {
                        self.shift_pairs_with_span += 1;
                    }
                    let same = a["o"] == b["o"]
                        && a["k"] == b["k"]
                        && json!(shifted) == b["s"].as_array().cloned().map(Value::Array).unwrap_or(json!([]));
                    if !same {
                        let k1 = a["k"].as_str().unwrap_or(a["o"].as_str().unwrap_or("?"));
                        self.viol(
                            format!("C10:span.not_byte_offset:{k1}"),
                            "putting a multi-byte comment in front of the text changes the parse outcome or moves the diagnostic span by something other than the comment's byte length".to_string(),
                            json!({"family": fam, "class": class, "input": show(input), "input_len": input.len(), "comment_bytes": k}),
                            json!({"outcome": a["o"], "kind": a["k"], "spans": shifted}),
                            json!({"outcome": b["o"], "kind": b["k"], "spans": b["s"], "message": b["m"]}),
                        );
                    }
                    let e = self.per_family.entry(fam.to_string()).or_default();
                    if b["o"] == "ok" { e.1 += 1 } else { e.2 += 1 }
                } else {
                    self.judge_facts(fam, class, input, v, &json!({}));
                    let e = self.per_family.entry(fam.to_string()).or_default();
                    if v["o"] == "ok" { e.1 += 1 } else { e.2 += 1 }
                }
            }
            Res::Died { signal, code, stack_overflow, stderr_tail, confirmed_alone } => {
                if signal.is_none() && !*stack_overflow {
                    self.machinery.push(format!(
                        "worker exited with code {code:?} without a result in {fam} (len {}): {stderr_tail}",
                        input.len()
                    ));
                } else if !*confirmed_alone && stderr_tail.contains("flaky death") {
                    self.machinery.push(format!(
                        "worker death (signal {signal:?}) in {fam} not reproducible: {stderr_tail}"
                    ));
                } else if *stack_overflow {
                    self.overflow_candidates.push((class.to_string(), input.to_string(), stderr_tail.clone()));
                } else {
                    self.viol(
                        format!("C10:abort:signal{}:{class}", signal.unwrap_or(0)),
                        format!("the process parsing this input was killed by signal {signal:?}"),
                        json!({"family": fam, "class": class, "input": show(input), "input_len": input.len()}),
                        json!("Ok(tree) or Err(ParserError)"),
                        json!({"signal": signal, "stderr": stderr_tail, "reproduced_alone": confirmed_alone}),
                    );
                }
            }
            Res::Timeout { cap_s, confirmed_alone } => {
                if *confirmed_alone {
                    self.viol(
                        format!("C10:timeout:{class}"),
                        format!("parsing did not finish within the {cap_s} s wall cap"),
                        json!({"family": fam, "class": class, "input": show(input), "input_len": input.len()}),
                        json!("parse finishes"),
                        json!({"cap_s": cap_s}),
                    );
                } else {
                    self.machinery.push(format!("timeout in {fam} not reproducible alone (machine load?)"));
                }
            }
        }
    }
}

// ------------------------------------------------------------------ release-profile confirmation

const CONFIRM_MAIN: &str = r#"
fn main() {
    let path = std::env::args().nth(1).expect("file");
    let text = std::fs::read_to_string(&path).expect("read");
    let h = std::thread::Builder::new().stack_size(8 * 1024 * 1024).spawn(move || {
        let r = veryl_parser::Parser::parse(&text, &"confirm.veryl");
        let ok = r.is_ok();
        drop(r);
        ok
    }).unwrap();
    match h.join() {
        Ok(true) => println!("ok"),
        Ok(false) => println!("err"),
        Err(_) => { println!("panic"); std::process::exit(3); }
    }
}
"#;

/// Builds (or reuses) a parser-only binary with the repository's release profile.
fn confirm_binary() -> Result<PathBuf, String> {
    let repo = repo_root();
    // key: parser sources + profile text
    let mut h = blake3::Hasher::new();
    for e in walkdir::WalkDir::new(repo.join("crates/parser")).sort_by_file_name().into_iter().flatten() {
        if e.file_type().is_file() && !e.path().components().any(|c| c.as_os_str() == "target") {
            if let Ok(d) = std::fs::read(e.path()) {
                h.update(e.path().to_string_lossy().as_bytes());
                h.update(&d);
            }
        }
    }
    let root_toml = std::fs::read_to_string(repo.join("Cargo.toml")).map_err(|e| e.to_string())?;
    let key = h.finalize().to_hex()[..16].to_string();
    let cache = bin_dir().join("c10-confirm").join(&key);
    let bin = cache.join("c10-parse-confirm");
    if bin.is_file() {
        return Ok(bin);
    }
    // the repository's [profile.release] section, copied verbatim
    let mut prof = String::new();
    let mut on = false;
    for l in root_toml.lines() {
        if l.starts_with('[') {
            on = l.trim() == "[profile.release]" || l.trim() == "[profile.release.build-override]";
        }
        if on {
            prof.push_str(l);
            prof.push('\n');
        }
    }
    let work = bin_dir().join("c10-confirm").join(format!("build-{key}"));
    let _ = std::fs::remove_dir_all(&work);
    std::fs::create_dir_all(work.join("src")).map_err(|e| e.to_string())?;
    std::fs::write(work.join("src/main.rs"), CONFIRM_MAIN).map_err(|e| e.to_string())?;
    std::fs::write(
        work.join("Cargo.toml"),
        format!(
            "[package]\nname = \"c10-parse-confirm\"\nversion = \"0.0.0\"\nedition = \"2024\"\n\n[dependencies]\nveryl-parser = {{path = \"{}\"}}\n\n[workspace]\n\n{prof}",
            repo.join("crates/parser").display()
        ),
    )
    .map_err(|e| e.to_string())?;
    let _ = std::fs::copy(repo.join("Cargo.lock"), work.join("Cargo.lock"));
    let out = std::process::Command::new("cargo")
        .args(["build", "--release", "--offline"])
        .current_dir(&work)
        .env("CARGO_TARGET_DIR", work.join("target"))
        .env_remove("RUSTFLAGS")
        .output()
        .map_err(|e| format!("cargo: {e}"))?;
    if !out.status.success() {
        let e = String::from_utf8_lossy(&out.stderr).to_string();
        let _ = std::fs::remove_dir_all(&work);
        return Err(format!("release confirm build failed: {}", clip(&e[e.len().saturating_sub(800)..], 800)));
    }
    std::fs::create_dir_all(&cache).map_err(|e| e.to_string())?;
    std::fs::copy(work.join("target/release/c10-parse-confirm"), &bin).map_err(|e| e.to_string())?;
    let _ = std::fs::remove_dir_all(&work);
    Ok(bin)
}

/// true = the release-profile parser also dies on this input
fn confirm_overflow(bin: &Path, dir: &Path, input: &str) -> (bool, String) {
    let p = dir.join(format!("confirm-{}.veryl", hash_hex(input.as_bytes())));
    let _ = std::fs::write(&p, input);
    let out = std::process::Command::new(bin).arg(&p).output();
    let _ = std::fs::remove_file(&p);
    match out {
        Ok(o) => {
            use std::os::unix::process::ExitStatusExt;
            let died = o.status.signal().is_some();
            (
                died,
                format!(
                    "release-profile parser: signal {:?} code {:?} stdout {:?} stderr {:?}",
                    o.status.signal(),
                    o.status.code(),
                    String::from_utf8_lossy(&o.stdout).trim(),
                    clip(&String::from_utf8_lossy(&o.stderr), 200)
                ),
            )
        }
        Err(e) => (false, format!("cannot run confirm binary: {e}")),
    }
}

// -------------------------------------------------------------------------------------- driver

fn run_family(ctx: &Ctx, dir: &Path, fam: &Family, acc: &Mutex<Acc>, deadline: f64) -> (usize, bool) {
    let cfg = Cfg { kind: "parse", cap_s: fam.cap_s, stack: CLI_STACK, batch: fam.batch, fresh_thread: false, mem_limit: 0, opts: fam.opts.clone() };
    let shift = fam.opts["shift"].as_u64().map(|x| x as usize);
    let done = run_all(
        dir,
        &cfg,
        fam.n,
        &|i| (fam.generate)(i),
        &|i, input, r| {
            let mut a = acc.lock().unwrap();
            let class = (fam.class)(i);
            a.judge(&fam.name, &class, input, r, shift);
            if let Some(o) = &fam.observe {
                let tag = match r {
                    Res::Done(v) if v["o"] == "ok" => "ok".to_string(),
                    Res::Done(v) => v["k"].as_str().unwrap_or("other").to_string(),
                    _ => "died".to_string(),
                };
                o(i, &tag);
            }
        },
        &|| ctx.elapsed() > deadline,
    );
    (done, done == fam.n)
}

type LadderItem = (usize, usize, bool); // (construct, depth, closed)

/// Ladders go to depth 2^17 = 131072: with the production-depth cap in place the deep members are
/// rejected after ~1153 productions (cheap); without it the opt-level 1 build overflows the
/// 8 MiB stack between 8192 and 32768 levels, so the ladder must reach well past that.
const MAX_DEPTH_LOG2: usize = 17;

/// Constructs that the grammar parses as flat lists (push productions): accepted at any depth,
/// no recursion, but parse time grows quadratically with the chain length, so their ladder stops
/// at 4096 (long flat runs are family (d)'s job).
const LIST_LIKE: &[&str] = &["unary_not", "unary_minus", "if_expr_else"];

fn ladder_family(name: &str, items: Vec<LadderItem>, seen: std::sync::Arc<Mutex<BTreeMap<LadderItem, String>>>) -> Family {
    let items = std::sync::Arc::new(items);
    let (i1, i2, i3) = (items.clone(), items.clone(), items.clone());
    Family {
        name: name.to_string(),
        n: items.len(),
        generate: Box::new(move |i| {
            let (c, d, closed) = i1[i];
            nest_text(&NESTS[c], d, closed)
        }),
        batch: 8,
        cap_s: 120.0,
        opts: json!({"render": true}),
        class: Box::new(move |i| {
            let (c, _, closed) = i2[i];
            format!("nest.{}{}", NESTS[c].name, if closed { "" } else { ".unclosed" })
        }),
        observe: Some(Box::new(move |i, tag| {
            seen.lock().unwrap().insert(i3[i], tag.to_string());
        })),
    }
}

/// For one construct: (deepest accepted depth, shallowest rejected depth above it) among the
/// closed forms evaluated so far.
fn bracket(seen: &BTreeMap<LadderItem, String>, c: usize) -> (Option<usize>, Option<usize>) {
    let mut lo = None;
    for ((cc, d, closed), tag) in seen.iter() {
        if *cc == c && *closed && tag == "ok" {
            lo = Some(lo.map_or(*d, |x: usize| x.max(*d)));
        }
    }
    let mut hi = None;
    for ((cc, d, closed), tag) in seen.iter() {
        if *cc == c && *closed && tag != "ok" && lo.is_some_and(|l| *d > l) {
            hi = Some(hi.map_or(*d, |x: usize| x.min(*d)));
        }
    }
    (lo, hi)
}

pub fn run(ctx: &Ctx) -> Report {
    let mut rep = Report::new(Level::Exploration);
    let thorough = ctx.thorough();
    let budget = ctx.budget(38.0, 20.0 * 60.0);
    let dir = ctx.dir("w");
    let acc = Mutex::new(Acc::default());
    let mut exhaustive = true;
    let mut fam_report: Vec<Value> = vec![];

    // ---- (c) ladders first: cheap, and the most likely place for a crash
    let files = corpus_files();
    if files.len() < 50 {
        rep.machinery(format!("corpus not found: {} files under testcases/veryl", files.len()));
        return rep;
    }
    // ---- (a) small lexeme families first: cheap and never to be starved by a budget cap
    let fam_a_shift = lex_family("a.shift_behind_multibyte_comment.len<=2", ALPHABET, 2, 0, " ", true);
    let fam_a2_sp = lex_family("a.lexemes<=2.joined_by_space", ALPHABET, 2, 0, " ", false);
    let fam_a2_cat = lex_family("a.lexemes=2.concatenated", ALPHABET, 2, 2, "", false);
    let mut shift_complete = false;
    for fam in [&fam_a_shift, &fam_a2_sp, &fam_a2_cat] {
        let t0 = ctx.elapsed();
        let (done, complete) = run_family(ctx, &dir, fam, &acc, budget * 0.25);
        exhaustive &= complete;
        if fam.name.starts_with("a.shift") {
            shift_complete = complete;
        }
        fam_report.push(json!({"family": fam.name, "size": fam.n, "completed": done, "complete": complete,
            "wall_s": ((ctx.elapsed() - t0) * 10.0).round() / 10.0}));
    }

    let seen: std::sync::Arc<Mutex<BTreeMap<LadderItem, String>>> = Default::default();
    let mut first: Vec<LadderItem> = vec![];
    for c in 0..NESTS.len() {
        let top = if LIST_LIKE.contains(&NESTS[c].name) { 12 } else { MAX_DEPTH_LOG2 };
        let mut ds: BTreeSet<usize> = (0..=top).map(|k| 1usize << k).collect();
        if thorough {
            ds.extend(1..=1300);
        }
        for d in ds {
            first.push((c, d, true));
            if d <= 4096 {
                // beyond the cap both forms stop at the same early point; the unclosed form adds
                // nothing there
                first.push((c, d, false));
            }
        }
    }
    // deepest first: the deep members are the point of the ladder and must not be the ones a
    // budget cap drops (the smallest failing input per class is selected afterwards anyway)
    first.sort_by_key(|(c, d, closed)| (std::cmp::Reverse(*d), *c, !*closed));
    let fam_c = ladder_family("c.nesting_ladders.round0", first, seen.clone());
    let mut ladder_complete = false;
    {
        let t0 = ctx.elapsed();
        let (done, complete) = run_family(ctx, &dir, &fam_c, &acc, budget * 0.35);
        ladder_complete = complete;
        exhaustive &= complete;
        fam_report.push(json!({"family": fam_c.name, "size": fam_c.n, "completed": done, "complete": complete,
            "wall_s": ((ctx.elapsed() - t0) * 10.0).round() / 10.0}));
    }
    // refinement rounds: narrow the bracket around the depth where the answer flips from Ok to
    // an error (15 interior points per round, every interior depth once the bracket is <= 16)
    for round in 1..=4 {
        let snapshot = seen.lock().unwrap().clone();
        let mut items: Vec<LadderItem> = vec![];
        for c in 0..NESTS.len() {
            let (Some(lo), Some(hi)) = bracket(&snapshot, c) else { continue };
            let w = hi - lo;
            let mut ds: BTreeSet<usize> = BTreeSet::new();
            if w <= 16 {
                ds.extend(lo + 1..hi);
                ds.extend([hi + 1, hi + 2]);
            } else {
                for k in 1..16 {
                    ds.insert(lo + w * k / 16);
                }
            }
            for d in ds {
                if d <= (1usize << MAX_DEPTH_LOG2) && !snapshot.contains_key(&(c, d, true)) {
                    items.push((c, d, true));
                    items.push((c, d, false));
                }
            }
        }
        if items.is_empty() {
            break;
        }
        let fam = ladder_family(&format!("c.nesting_ladders.round{round}"), items, seen.clone());
        let t0 = ctx.elapsed();
        let (done, complete) = run_family(ctx, &dir, &fam, &acc, budget * 0.45);
        exhaustive &= complete;
        fam_report.push(json!({"family": fam.name, "size": fam.n, "completed": done, "complete": complete,
            "wall_s": ((ctx.elapsed() - t0) * 10.0).round() / 10.0}));
    }
    let mut flip_json = serde_json::Map::new();
    let mut nests_accepted = 0usize;
    let mut nests_bracketed_tight = 0usize;
    {
        let snapshot = seen.lock().unwrap().clone();
        for c in 0..NESTS.len() {
            let (lo, hi) = bracket(&snapshot, c);
            if lo.is_some() {
                nests_accepted += 1;
            }
            if let (Some(l), Some(h)) = (lo, hi) {
                if h == l + 1 {
                    nests_bracketed_tight += 1;
                }
            }
            flip_json.insert(NESTS[c].name.to_string(), json!({"deepest_accepted": lo, "first_rejected": hi}));
        }
    }

    // ---- (d) flat runs
    let flat_tokens: Vec<usize> = if thorough { vec![1000, 100_000] } else { vec![1000, 20_000] };
    let ft = flat_tokens.clone();
    let flat_seen: std::sync::Arc<Mutex<BTreeMap<String, String>>> = Default::default();
    let (fs2, ft2) = (flat_seen.clone(), flat_tokens.clone());
    let fam_d = Family {
        name: "d.flat_runs".into(),
        n: FLATS.len() * flat_tokens.len(),
        generate: Box::new(move |i| flat_text(&FLATS[i % FLATS.len()], ft[i / FLATS.len()])),
        batch: 1,
        cap_s: 120.0,
        opts: json!({"render": true}),
        class: Box::new(|i| format!("flat.{}", FLATS[i % FLATS.len()].name)),
        observe: Some(Box::new(move |i, tag| {
            fs2.lock().unwrap().insert(format!("{}@{}", FLATS[i % FLATS.len()].name, ft2[i / FLATS.len()]), tag.to_string());
        })),
    };

    // ---- (a) lexeme strings
    let mut fam_a_sp = lex_family("a.lexemes=3.joined_by_space", ALPHABET, 3, 3, " ", false);
    let mut fam_a_cat = lex_family("a.lexemes=3.concatenated", ALPHABET, 3, 3, "", false);
    fam_a_sp.opts = json!({"render": false});
    fam_a_cat.opts = json!({"render": false});
    let core: &'static [&'static str] = &ALPHABET[..CORE];
    let mut fam_a4_sp = lex_family("a.core4.joined_by_space", core, 4, 4, " ", false);
    let mut fam_a4_cat = lex_family("a.core4.concatenated", core, 4, 4, "", false);
    fam_a4_sp.opts = json!({"render": false});
    fam_a4_cat.opts = json!({"render": false});

    // ---- (b) corpus prefixes / deletions
    let files = std::sync::Arc::new(files);
    let pts = std::sync::Arc::new(prefix_points(&files, thorough));
    let (f1, p1) = (files.clone(), pts.clone());
    let (f1c, p1c) = (files.clone(), pts.clone());
    let fam_b = Family {
        name: if thorough { "b.corpus_prefixes.every_char".into() } else { "b.corpus_prefixes.class_boundaries".into() },
        n: pts.len(),
        generate: Box::new(move |i| {
            let (fi, p) = p1[i];
            f1[fi as usize].1[..p as usize].to_string()
        }),
        batch: 400,
        cap_s: 30.0,
        opts: json!({"render": true}),
        class: Box::new(move |i| format!("prefix.{}", f1c[p1c[i].0 as usize].0)),
        observe: None,
    };
    // deletions: thorough only — every single-char deletion of every file
    let del_pts: Vec<(u32, u32)> = if thorough {
        let mut v = vec![];
        for (fi, (_, t)) in files.iter().enumerate() {
            for (p, _) in t.char_indices() {
                v.push((fi as u32, p as u32));
            }
        }
        v
    } else {
        vec![]
    };
    let del_pts = std::sync::Arc::new(del_pts);
    let (f2, d2) = (files.clone(), del_pts.clone());
    let (f2c, d2c) = (files.clone(), del_pts.clone());
    let fam_b_del = Family {
        name: "b.corpus_single_char_deletions".into(),
        n: del_pts.len(),
        generate: Box::new(move |i| {
            let (fi, p) = d2[i];
            let t = &f2[fi as usize].1;
            let p = p as usize;
            let l = t[p..].chars().next().map(|c| c.len_utf8()).unwrap_or(0);
            format!("{}{}", &t[..p], &t[p + l..])
        }),
        batch: 400,
        cap_s: 30.0,
        opts: json!({"render": false}),
        class: Box::new(move |i| format!("deletion.{}", f2c[d2c[i].0 as usize].0)),
        observe: None,
    };

    // (family, cumulative share of the budget after which it stops being scheduled)
    let mut fams: Vec<(&Family, f64)> = if thorough {
        vec![(&fam_d, 0.40), (&fam_b, 0.52), (&fam_a_sp, 0.62), (&fam_a_cat, 0.72)]
    } else {
        vec![(&fam_d, 0.55), (&fam_b, 0.70), (&fam_a_sp, 0.85), (&fam_a_cat, 1.0)]
    };
    if thorough {
        fams.push((&fam_a4_sp, 0.80));
        fams.push((&fam_a4_cat, 0.88));
        fams.push((&fam_b_del, 1.0));
    }
    for (fam, share) in fams {
        let t0 = ctx.elapsed();
        let (done, complete) = run_family(ctx, &dir, fam, &acc, budget * share);
        if !complete {
            exhaustive = false;
        }
        fam_report.push(json!({
            "family": fam.name, "size": fam.n, "completed": done, "complete": complete,
            "wall_s": ((ctx.elapsed() - t0) * 10.0).round() / 10.0,
        }));
    }

    let mut a = acc.into_inner().unwrap();

    // ---- stack-overflow candidates: release-profile confirmation
    let mut overflow_obs: Vec<Value> = vec![];
    if !a.overflow_candidates.is_empty() {
        // smallest and largest input per class (release frames are smaller: the smallest input
        // that kills the opt-level 1 build may pass there while a deeper one does not)
        let mut per: BTreeMap<String, Vec<(String, String)>> = BTreeMap::new();
        for (c, i, e) in std::mem::take(&mut a.overflow_candidates) {
            per.entry(c).or_default().push((i, e));
        }
        match confirm_binary() {
            Ok(bin) => {
                for (c, mut list) in per {
                    list.sort_by_key(|(i, _)| i.len());
                    let n_cands = list.len();
                    let mut tries: Vec<(String, String)> = vec![list[0].clone()];
                    if list.len() > 1 {
                        tries.push(list[list.len() - 1].clone());
                    }
                    let mut confirmed = false;
                    let mut last_how = String::new();
                    for (input, e) in &tries {
                        let (died, how) = confirm_overflow(&bin, &dir, input);
                        last_how = how.clone();
                        if died {
                            a.viol(
                                "C10:stack_overflow:deep_nesting".to_string(),
                                "the parser overflows the CLI's 8 MiB stack (also with the repository's release profile)".into(),
                                json!({"class": c, "input": show(input), "input_len": input.len()}),
                                json!("Ok(tree) or Err(ParserError)"),
                                json!({"harness_build": e, "release_build": how, "overflowing_inputs_in_class": n_cands}),
                            );
                            confirmed = true;
                            break;
                        }
                    }
                    if !confirmed {
                        overflow_obs.push(json!({"class": c, "candidates": n_cands, "smallest_input_len": tries[0].0.len(),
                            "largest_input_len": tries[tries.len() - 1].0.len(), "harness_build": clip(&tries[0].1, 160), "release_build": last_how}));
                    }
                }
            }
            Err(e) => {
                a.machinery.push(format!("stack overflow candidate(s) found but the release-profile confirm binary could not be built: {e}"));
            }
        }
    }

    // ---- evidence
    let distinct_kinds = a.err_kinds.len() as u64 + if a.ok > 0 { 1 } else { 0 };
    rep.set("evaluations", a.evaluations);
    rep.set("parses_ok", a.ok);
    rep.set("parses_err", a.err_kinds.values().sum::<u64>());
    rep.set("err_kinds", json!(a.err_kinds));
    rep.set("distinct_error_messages", a.messages.len() as u64);
    rep.set("distinct_nontrivial", a.messages.len() as u64 + if a.ok > 0 { 1 } else { 0 });
    rep.set("distinct_outcome_kinds", distinct_kinds);
    rep.set("diagnostics_rendered_with_miette", a.rendered);
    rep.set("shift_pairs", a.shift_pairs);
    rep.set("shift_pairs_with_span", a.shift_pairs_with_span);
    rep.set("alphabet_size", ALPHABET.len() as u64);
    rep.set("core_alphabet_size", CORE as u64);
    rep.set("nest_constructs", NESTS.len() as u64);
    rep.set("nest_constructs_accepted_at_depth_1", nests_accepted as u64);
    rep.set("nest_flip_depth", Value::Object(flip_json));
    rep.set("nest_constructs_with_exact_flip_depth", nests_bracketed_tight as u64);
    rep.set("flat_constructs", FLATS.len() as u64);
    rep.set("flat_tokens", json!(flat_tokens));
    rep.set("flat_outcomes", json!(*flat_seen.lock().unwrap()));
    rep.set("corpus_files", files.len() as u64);
    rep.set("families", json!(fam_report));
    rep.set("per_family_eval_ok_err", json!(a.per_family));
    rep.set("stack_overflow_only_in_harness_build", json!(overflow_obs));
    rep.set("violation_cases_by_signature", json!(a.sig_counts));
    rep.set("exhaustive", exhaustive);
    rep.set("budget_s", budget);
    rep.set("worker_stack_bytes", CLI_STACK as u64);
    rep.set(
        "rule",
        "a case is non-trivial if it yields a distinct outcome (Ok, or a distinct diagnostic message); every case is a real Parser::parse call in a subprocess worker on an 8 MiB thread, tree/error dropped inside",
    );
    for (i, m) in a.messages.iter().enumerate() {
        if i % (a.messages.len() / 6).max(1) == 0 {
            rep.sample(json!({"diagnostic": m}));
        }
    }
    rep.assume("worker thread stack = 8 MiB (CLI main thread default); the language server's 16 MiB thread is strictly more permissive");
    rep.assume("stack overflows are confirmed against a parser-only binary built with the repository's [profile.release]; overflows seen only in the opt-level=1 harness build are observations");
    rep.assume("inputs are valid UTF-8 (Parser::parse takes &str)");
    if !thorough {
        rep.assume("quick: corpus prefixes at lexical-class boundaries only; no deletions; length-4 strings and dense ladders are thorough-only");
    }
    for m in a.machinery.drain(..) {
        rep.machinery(m);
    }
    // guards apply only to what a budget cap did not cut (a cap shrinks coverage, never the verdict)
    if a.ok < 100
        || a.messages.len() < 4
        || (shift_complete && (a.shift_pairs_with_span < 100 || a.messages.len() < 20))
        || (ladder_complete && nests_accepted + 2 < NESTS.len())
    {
        rep.machinery(format!(
            "vacuity guard: ok={} distinct messages={} shift pairs with span={} nest constructs accepted={}",
            a.ok, a.messages.len(), a.shift_pairs_with_span, nests_accepted
        ));
    }
    for v in a.violations.drain(..) {
        rep.violation(v);
    }
    rep
}

pub fn replay(doc: &Value) -> i32 {
    let Some(input) = doc["case"]["input"].as_str() else {
        eprintln!("no input in replay file");
        return 2;
    };
    if input.contains("… [") && doc["case"]["input_len"].as_u64().unwrap_or(0) as usize != input.len() {
        eprintln!("input was too long to store; regenerate it from case.class");
        return 2;
    }
    let ctx = Ctx::new("C10-replay", Tier::Quick);
    let dir = ctx.dir("w");
    let cfg = Cfg { kind: "parse", cap_s: 60.0, stack: CLI_STACK, batch: 1, fresh_thread: false, mem_limit: 0, opts: json!({"render": true}) };
    let r = run_batch(&dir, &cfg, &[input]);
    println!("{:?}", r[0]);
    match &r[0] {
        Res::Done(v) if v["o"] == "ok" || v["o"] == "err" => {
            let acc = Mutex::new(Acc::default());
            acc.lock().unwrap().judge("replay", "replay", input, &r[0], None);
            let a = acc.into_inner().unwrap();
            if a.violations.is_empty() { 0 } else { 1 }
        }
        _ => 1,
    }
}

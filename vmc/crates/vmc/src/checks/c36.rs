//! C36 — value encodings at external boundaries are lossless and standard.
//!
//! Part 1 (E6): `Value <-> Vec<SvLogicVecVal>` (crates/analyzer/src/value.rs) against the
//! IEEE 1800 Annex H table (0 = a0/b0, 1 = a1/b0, Z = a0/b1, X = a1/b1), bit by bit, both
//! directions and the round trip: ALL 4-state values for widths 1..=N, walking-state patterns at
//! every bit position plus the corner alphabet at the 32-bit word-boundary widths; and the same
//! conversions in their `veryl-cosim` use (`cosim_set`/`cosim_get` bodies) around a real
//! `Simulator` running pass-through designs.
//!
//! Part 2 (E1/E6): waveform dumps. A family of small designs is run on the real
//! `veryl_simulator::Simulator` with the real `WaveDumper` (VCD) over ALL input sequences of a
//! small alphabet to depth d; the produced VCD is parsed with the `vcd` crate and every dumped
//! variable at every dumped time must equal `Simulator::get_var` / `get` at that step (and, for
//! input ports, the value the harness drove).

use crate::checks::gen_sim;
use crate::checks::gen_values::*;
use crate::core::*;
use serde_json::{Value as J, json};
use std::collections::{BTreeMap, BTreeSet};
use std::sync::{Arc, Mutex};
use veryl_analyzer::value::{SvLogicVecVal, Value};
use veryl_simulator::wave_dumper::{SharedVec, WaveDumper};
use veryl_simulator::{Config, Simulator};
use vmc_refmodels::bits::{Bit, V};

// ================================================================== part 1: svLogicVecVal

/// IEEE 1800-2017 Annex H.10.1.2 (svLogicVecVal): (aval, bval) per 4-state value.
fn annex_h(b: Bit) -> (u32, u32) {
    match b {
        Bit::Zero => (0, 0),
        Bit::One => (1, 0),
        Bit::Z => (0, 1),
        Bit::X => (1, 1),
    }
}

fn annex_h_decode(a: u32, b: u32) -> Bit {
    match (a, b) {
        (0, 0) => Bit::Zero,
        (1, 0) => Bit::One,
        (0, 1) => Bit::Z,
        _ => Bit::X,
    }
}

/// Harness-side encoder (independent of veryl): bits -> words, unused high bits 0.
fn encode_words(bits: &[Bit], nwords: usize) -> Vec<SvLogicVecVal> {
    let mut out = vec![SvLogicVecVal { aval: 0, bval: 0 }; nwords];
    for (i, bit) in bits.iter().enumerate() {
        let (a, b) = annex_h(*bit);
        out[i / 32].aval |= a << (i % 32);
        out[i / 32].bval |= b << (i % 32);
    }
    out
}

fn words_text(w: &[SvLogicVecVal]) -> String {
    w.iter().map(|x| format!("{{a:{:08x},b:{:08x}}}", x.aval, x.bval)).collect::<Vec<_>>().join(",")
}

fn width_class(w: usize) -> &'static str {
    if w % 32 == 0 {
        "w%32==0"
    } else if w < 32 {
        "w<32"
    } else if w <= 64 {
        "32<w<64"
    } else {
        "w>64,w%32!=0"
    }
}

/// walking patterns: one position holds each of the four states over a background of 0s / 1s
fn walking(w: usize) -> Vec<Vec<Bit>> {
    let mut out = vec![];
    for i in 0..w {
        for st in [Bit::Zero, Bit::One, Bit::X, Bit::Z] {
            for bg in [Bit::Zero, Bit::One] {
                let v: Vec<Bit> = (0..w).map(|k| if k == i { st } else { bg }).collect();
                out.push(v);
            }
        }
    }
    out
}

#[derive(Default)]
struct Acc {
    evals: u64,
    nontrivial: u64,
    viol: BTreeMap<String, (u64, Violation)>,
    notes: BTreeSet<String>,
}

impl Acc {
    fn merge(&mut self, o: Acc) {
        self.evals += o.evals;
        self.nontrivial += o.nontrivial;
        for (k, (n, v)) in o.viol {
            self.viol.entry(k).or_insert((0, v)).0 += n;
        }
        self.notes.extend(o.notes);
    }
    fn violation(&mut self, sig: String, what: String, case: J, expected: J, observed: J) {
        let e = self.viol.entry(sig.clone()).or_insert_with(|| {
            (0, Violation { signature: sig, what, case, expected, observed })
        });
        e.0 += 1;
    }
}

fn guarded<R>(f: impl FnOnce() -> R) -> Result<R, String> {
    std::panic::catch_unwind(std::panic::AssertUnwindSafe(f))
        .map_err(|p| format!("{} at {}", panic_message(p), take_panic_loc().unwrap_or_else(|| "?".into())))
}

/// Value -> words -> Value for one value
fn check_sv_value(acc: &mut Acc, v: &V) {
    acc.evals += 1;
    let w = v.width();
    if w % 64 != 0 || v.has_xz() {
        acc.nontrivial += 1;
    }
    let x = v_to_value(v);
    // waveform encodings of the same value: Value::to_fst_bits (MSB-first ASCII) and the
    // IntoIterator<Item = vcd::Value> used by vcd::Writer::change_vector (MSB first)
    {
        let exp = v.to_string_msb();
        let fst = guarded(|| String::from_utf8_lossy(&x.to_fst_bits()).to_string());
        let vcdv = guarded(|| (&x).into_iter().map(vcd_bit).collect::<String>());
        for (name, got) in [("to_fst_bits", fst), ("vcd-iter", vcdv)] {
            if got.as_deref() != Ok(exp.as_str()) {
                let lost = match &got {
                    Ok(g) => exp.chars().zip(g.chars()).find(|(p, q)| p != q).map(|(p, _)| p).unwrap_or('w'),
                    Err(_) => '!',
                };
                acc.violation(
                    format!("C36:{name}:{}:{lost}", width_class(w)),
                    format!("{} renders as {:?} through Value::{name}", v_text(v), got),
                    json!({"direction": name, "value": v_text(v)}),
                    json!(exp),
                    json!(format!("{got:?}")),
                );
            }
        }
    }
    let case = json!({"direction":"to_sv+back","value": v_text(v)});
    let nwords = w.div_ceil(32);
    let exp_words = encode_words(&v.bits, nwords);
    let words = match guarded(|| Vec::<SvLogicVecVal>::from(&x)) {
        Ok(ws) => ws,
        Err(p) => {
            acc.violation(format!("C36:to_sv:{}:panic", width_class(w)), format!("Value -> svLogicVecVal panicked: {p}"), case, json!(words_text(&exp_words)), json!(p));
            return;
        }
    };
    if words.len() != nwords {
        acc.violation(
            format!("C36:to_sv:{}:word-count", width_class(w)),
            format!("{} converts to {} words, expected {nwords}", v_text(v), words.len()),
            case,
            json!(words_text(&exp_words)),
            json!(words_text(&words)),
        );
        return;
    }
    // table, bit by bit
    for (i, bit) in v.bits.iter().enumerate() {
        let a = (words[i / 32].aval >> (i % 32)) & 1;
        let b = (words[i / 32].bval >> (i % 32)) & 1;
        if (a, b) != annex_h(*bit) {
            acc.violation(
                format!("C36:to_sv:{}:table-{}", width_class(w), bit.to_char()),
                format!(
                    "bit {i} of {} ({}) is encoded aval={a} bval={b}; Annex H: aval={} bval={}",
                    v_text(v), bit.to_char(), annex_h(*bit).0, annex_h(*bit).1
                ),
                case,
                json!(words_text(&exp_words)),
                json!(words_text(&words)),
            );
            return;
        }
    }
    // bits above the width inside the last word: the SV side declares the full word range
    if words != exp_words {
        acc.violation(
            format!("C36:to_sv:{}:padding", width_class(w)),
            format!("{}: bits above the width are not zero in the last word", v_text(v)),
            case,
            json!(words_text(&exp_words)),
            json!(words_text(&words)),
        );
        return;
    }
    // round trip
    let back = match guarded(|| Value::from(words.as_slice())) {
        Ok(b) => b,
        Err(p) => {
            acc.violation(format!("C36:from_sv:{}:panic", width_class(w)), format!("svLogicVecVal -> Value panicked: {p}"), case, json!(v_text(v)), json!(p));
            return;
        }
    };
    let exp_back = V::new(v.bits.clone(), false).resize(nwords * 32);
    match value_to_v(&back) {
        Ok(b) if b.bits == exp_back.bits && is_u64_repr(&back) == (b.width() <= 64) => {}
        _ => {
            let lost = match value_to_v(&back) {
                Ok(b) => v
                    .bits
                    .iter()
                    .zip(b.bits.iter())
                    .find(|(p, q)| p != q)
                    .map(|(p, _)| p.to_char())
                    .unwrap_or('w'),
                Err(_) => '?',
            };
            acc.violation(
                format!("C36:roundtrip:{}:{}", width_class(w), lost),
                format!("{} -> svLogicVecVal -> Value gives {}", v_text(v), value_text(&back)),
                case,
                json!(v_text(&exp_back)),
                json!(value_text(&back)),
            );
        }
    }
}

/// words -> Value for one word vector (given as the bits it encodes)
fn check_sv_words(acc: &mut Acc, bits: &[Bit]) {
    acc.evals += 1;
    let w = bits.len();
    debug_assert!(w % 32 == 0);
    let words = encode_words(bits, w / 32);
    let v = V::new(bits.to_vec(), false);
    if v.has_xz() {
        acc.nontrivial += 1;
    }
    let case = json!({"direction":"from_sv","words": words_text(&words)});
    match guarded(|| Value::from(words.as_slice())) {
        Err(p) => acc.violation(format!("C36:from_sv:{}:panic", width_class(w)), format!("svLogicVecVal -> Value panicked: {p}"), case, json!(v_text(&v)), json!(p)),
        Ok(x) => {
            let ok = match value_to_v(&x) {
                Ok(g) => g.bits == v.bits && !g.signed && is_u64_repr(&x) == (w <= 64),
                Err(_) => false,
            };
            if !ok {
                let st = match value_to_v(&x) {
                    Ok(g) => v.bits.iter().zip(g.bits.iter()).find(|(p, q)| p != q).map(|(p, _)| p.to_char()).unwrap_or('w'),
                    Err(_) => '?',
                };
                acc.violation(
                    format!("C36:from_sv:words={}:table-{}", w / 32, st),
                    format!("words {} decode to {}; Annex H: {}", words_text(&words), value_text(&x), v_text(&v)),
                    case,
                    json!(v_text(&v)),
                    json!(value_text(&x)),
                );
            }
        }
    }
}

const SV_BOUNDARY_WIDTHS: [usize; 12] = [31, 32, 33, 63, 64, 65, 95, 96, 97, 127, 128, 129];

#[derive(Clone, Debug)]
enum Sv {
    AllValues(usize, usize, usize), // width, shard, nshards
    Boundary(usize),
    Words(usize),
}

fn run_sv(item: &Sv) -> Acc {
    let mut acc = Acc::default();
    match item {
        Sv::AllValues(w, shard, n) => {
            for (k, bits) in all_values(*w).into_iter().enumerate() {
                if k % n != *shard {
                    continue;
                }
                for signed in [false, true] {
                    check_sv_value(&mut acc, &V::new(bits.clone(), signed));
                }
            }
        }
        Sv::Boundary(w) => {
            let mut vals = corner_alphabet(*w, true);
            vals.extend(walking(*w));
            for bits in vals {
                for signed in [false, true] {
                    check_sv_value(&mut acc, &V::new(bits.clone(), signed));
                }
            }
        }
        Sv::Words(n) => {
            let w = n * 32;
            let mut vals = corner_alphabet(w, true);
            vals.extend(walking(w));
            // exhaustive 4-state nibble at the bottom of every word, zeros elsewhere
            for word in 0..*n {
                for nib in all_values(4) {
                    let mut v = vec![Bit::Zero; w];
                    v[word * 32..word * 32 + 4].copy_from_slice(&nib);
                    vals.push(v.clone());
                    let mut v2 = vec![Bit::One; w];
                    v2[word * 32 + 28..word * 32 + 32].copy_from_slice(&nib);
                    vals.push(v2);
                }
            }
            for bits in vals {
                check_sv_words(&mut acc, &bits);
            }
        }
    }
    acc
}

/// Part 1b: the conversions as `veryl-cosim` uses them (bodies of `cosim_set` / `cosim_get`,
/// crates/cosim/src/lib.rs) around a real simulator running `assign o = i`.
fn run_cosim_boundary(w: usize) -> Result<Acc, String> {
    let code = format!("module Top (\n    i: input  logic<{w}>,\n    o: output logic<{w}>,\n) {{\n    assign o = i;\n}}\n");
    let air = gen_sim::analyze(&code)?;
    let mut acc = Acc::default();
    for use_4state in [true, false] {
        for use_jit in [false, true] {
            let config = Config { use_4state, use_jit, ..Default::default() };
            let ir = gen_sim::build(&air, "Top", &config)?;
            let mut sim = Simulator::new(ir, None);
            let mut vals = corner_alphabet(w, use_4state);
            if w <= 4 {
                vals = if use_4state { all_values(w) } else { all_values_2state(w) };
            } else {
                vals.extend(walking(w).into_iter().filter(|v| use_4state || !v.iter().any(|b| b.is_xz())));
            }
            for bits in vals {
                acc.evals += 1;
                let v = V::new(bits.clone(), false);
                if v.has_xz() || w % 64 != 0 {
                    acc.nontrivial += 1;
                }
                // cosim_set: &[SvLogicVecVal; 4] -> Value -> Simulator::set
                let arr = encode_words(&bits, 4);
                let value: Value = arr.as_slice().into();
                sim.set("i", value);
                // cosim_get: Simulator::get -> Vec<SvLogicVecVal> -> [SvLogicVecVal; 4]
                let ret = sim.get("o").ok_or("port o not found")?;
                let ret: Vec<SvLogicVecVal> = (&ret).into();
                let mut out = [SvLogicVecVal { aval: 0, bval: 0 }; 4];
                for (k, slot) in out.iter_mut().enumerate() {
                    if let Some(x) = ret.get(k) {
                        *slot = *x;
                    }
                }
                if out.as_slice() != arr.as_slice() {
                    let st = (0..w)
                        .find(|i| {
                            let a = (out[i / 32].aval >> (i % 32)) & 1;
                            let b = (out[i / 32].bval >> (i % 32)) & 1;
                            (a, b) != annex_h(bits[*i])
                        })
                        .map(|i| bits[i].to_char())
                        .unwrap_or('p');
                    acc.violation(
                        format!("C36:cosim-passthrough:{}:{}:{}", width_class(w), if use_4state { "4state" } else { "2state" }, st),
                        format!(
                            "logic<{w}> pass-through ({}): drove {} through cosim_set, cosim_get returned {}",
                            gen_sim::config_name(&config), words_text(&arr), words_text(&out)
                        ),
                        json!({"design": code, "config": gen_sim::config_name(&config), "value": v_text(&v)}),
                        json!(words_text(&arr)),
                        json!(words_text(&out)),
                    );
                }
            }
        }
    }
    Ok(acc)
}

// ================================================================== part 2: waveform dumps

#[derive(Clone)]
struct Design {
    name: &'static str,
    code: String,
    /// data inputs (name, width)
    inputs: Vec<(&'static str, usize)>,
    /// VCD variable (path relative to Top) -> output port that mirrors it (array elements)
    aliases: Vec<(&'static str, &'static str)>,
    has_clk: bool,
}

fn designs() -> Vec<Design> {
    let mut v = vec![];
    let mut add = |name: &'static str, inputs: Vec<(&'static str, usize)>, aliases: Vec<(&'static str, &'static str)>, has_clk: bool, code: &str| {
        v.push(Design { name, code: code.to_string(), inputs, aliases, has_clk });
    };
    add("counter_en", vec![("en", 1), ("d", 2)], vec![], true, r#"
module Top (
    clk: input  clock   ,
    rst: input  reset   ,
    en : input  logic   ,
    d  : input  logic<2>,
    q  : output logic<4>,
    s  : output logic<3>,
) {
    assign s = d + {1'b0, en};
    always_ff {
        if_reset {
            q = 0;
        } else if en {
            q = q + d + 1;
        }
    }
}
"#);
    add("shift65", vec![("d", 1), ("e", 1)], vec![], true, r#"
module Top (
    clk: input  clock    ,
    rst: input  reset    ,
    d  : input  logic    ,
    e  : input  logic    ,
    q  : output logic<65>,
    m  : output logic<33>,
) {
    assign m = {q[64], q[31:0]};
    always_ff {
        if_reset {
            q = 65'h1_8000_0000_7fff_fff1;
        } else {
            q = {q[63:0], d ^ e};
        }
    }
}
"#);
    add("acc129", vec![("d", 2)], vec![], true, r#"
module Top (
    clk: input  clock     ,
    rst: input  reset     ,
    d  : input  logic<2>  ,
    q  : output logic<129>,
    w  : output logic<200>,
) {
    assign w = {q[70:0], q};
    always_ff {
        if_reset {
            q = 129'h1_ffff_ffff_ffff_fffe_0000_0000_ffff_fffd;
        } else {
            q = q * 3 + {d, 64'hffff_ffff_ffff_ffff, d};
        }
    }
}
"#);
    add("reg_array", vec![("a", 2), ("d", 2)], vec![("mem[0]", "m0"), ("mem[1]", "m1"), ("mem[2]", "m2"), ("mem[3]", "m3")], true, r#"
module Top (
    clk: input  clock   ,
    rst: input  reset   ,
    a  : input  logic<2>,
    d  : input  logic<2>,
    m0 : output logic<5>,
    m1 : output logic<5>,
    m2 : output logic<5>,
    m3 : output logic<5>,
    r  : output logic<5>,
) {
    var mem: logic<5> [4];
    assign m0 = mem[0];
    assign m1 = mem[1];
    assign m2 = mem[2];
    assign m3 = mem[3];
    assign r  = mem[a];
    always_ff {
        if_reset {
            mem[0] = 1;
            mem[1] = 2;
            mem[2] = 4;
            mem[3] = 8;
        } else {
            mem[a] = {mem[a][2:0], d};
        }
    }
}
"#);
    add("wide_array", vec![("a", 1), ("d", 2)], vec![("big[0]", "b0"), ("big[1]", "b1")], true, r#"
module Top (
    clk: input  clock    ,
    rst: input  reset    ,
    a  : input  logic    ,
    d  : input  logic<2> ,
    b0 : output logic<70>,
    b1 : output logic<70>,
) {
    var big: logic<70> [2];
    assign b0 = big[0];
    assign b1 = big[1];
    always_ff {
        if_reset {
            big[0] = 70'h2a_aaaa_aaaa_aaaa_aaaa;
            big[1] = 70'h15_5555_5555_5555_5555;
        } else {
            big[a] = {big[a][67:0], d};
        }
    }
}
"#);
    add("four_state_comb", vec![("s", 2), ("d", 2)], vec![], false, r#"
module Top (
    s: input  logic<2>,
    d: input  logic<2>,
    y: output logic<4>,
    t: output logic<2>,
) {
    assign y = case s {
        0      : {d, d},
        1      : 4'bxz01,
        2      : 4'bzzzz,
        default: {2'bx0, d},
    };
    assign t = if s[0] ? d : 2'bzz;
}
"#);
    add("four_state_ff", vec![("s", 1), ("d", 2)], vec![], true, r#"
module Top (
    clk: input  clock   ,
    rst: input  reset   ,
    s  : input  logic   ,
    d  : input  logic<2>,
    q  : output logic<3>,
    n  : output logic<3>,
) {
    always_ff {
        if_reset {
            q = 3'b0x1;
        } else if s {
            q = {q[1:0], d[0]};
        } else {
            q = {d, 1'bz};
        }
    }
    always_ff {
        n = {n[1:0], d[1]};
    }
}
"#);
    add("signed_arith", vec![("a", 2), ("b", 2)], vec![], true, r#"
module Top (
    clk: input  clock          ,
    rst: input  reset          ,
    a  : input  signed logic<2>,
    b  : input  signed logic<2>,
    p  : output signed logic<5>,
    acc: output signed logic<7>,
) {
    assign p = a * b - 1;
    always_ff {
        if_reset {
            acc = -3;
        } else {
            acc = acc + p;
        }
    }
}
"#);
    add("struct_enum", vec![("x", 2), ("g", 1)], vec![], true, r#"
module Top (
    clk: input  clock   ,
    rst: input  reset   ,
    x  : input  logic<2>,
    g  : input  logic   ,
    o  : output logic<5>,
    e  : output logic<2>,
) {
    struct Pair {
        hi: logic<2>,
        lo: logic<3>,
    }
    enum St: logic<2> {
        Idle,
        Run,
        Done,
    }
    var p : Pair;
    var st: St  ;
    assign o = p;
    assign e = st;
    always_ff {
        if_reset {
            p.hi = 1;
            p.lo = 5;
            st   = St::Idle;
        } else {
            p.hi = x;
            p.lo = p.lo + 1;
            case st {
                St::Idle: if g {
                    st = St::Run;
                }
                St::Run: st = St::Done;
                default: st = St::Idle;
            }
        }
    }
}
"#);
    add("hierarchy", vec![("d", 2), ("en", 1)], vec![], true, r#"
module Sub (
    clk: input  clock   ,
    rst: input  reset   ,
    d  : input  logic<2>,
    q  : output logic<3>,
) {
    var t: logic<3>;
    assign t = {1'b1, d};
    always_ff {
        if_reset {
            q = 0;
        } else {
            q = q ^ t;
        }
    }
}
module Top (
    clk: input  clock   ,
    rst: input  reset   ,
    d  : input  logic<2>,
    en : input  logic   ,
    o  : output logic<3>,
    o2 : output logic<3>,
) {
    var q1: logic<3>;
    var q2: logic<3>;
    inst u1: Sub (
        clk     ,
        rst     ,
        d       ,
        q  : q1 ,
    );
    inst u2: Sub (
        clk        ,
        rst        ,
        d  : ~d    ,
        q  : q2    ,
    );
    assign o  = if en ? q1 : q2;
    assign o2 = q1 + q2;
}
"#);
    add("wide_comb", vec![("a", 2), ("b", 2)], vec![], false, r#"
module Top (
    a: input  logic<2>  ,
    b: input  logic<2>  ,
    w: output logic<256>,
    v: output logic<96> ,
    u: output logic<64> ,
) {
    assign w = {a repeat 100, b repeat 28};
    assign v = {b, 60'hfff_ffff_0000_000f, a, 32'h8000_0001};
    assign u = {a repeat 32} + {62'h0, b};
}
"#);
    add("wide_inputs", vec![("din130", 130), ("din64", 64), ("din33", 33)], vec![], false, r#"
module Top (
    din130: input  logic<130>,
    din64 : input  logic<64> ,
    din33 : input  logic<33> ,
    o   : output logic<130>,
    x   : output logic<64> ,
) {
    assign o = din130 ^ {din64, din64, 2'b01};
    assign x = din64 + {31'h0, din33};
}
"#);
    add("function_let", vec![("a", 2), ("b", 2)], vec![], true, r#"
module Top (
    clk: input  clock   ,
    rst: input  reset   ,
    a  : input  logic<2>,
    b  : input  logic<2>,
    y  : output logic<4>,
    z  : output logic<4>,
) {
    function f (
        x: input logic<2>,
        k: input logic<2>,
    ) -> logic<4> {
        return {x, k} + 4'd3;
    }
    let t: logic<4> = f(a, b);
    assign y = t ^ z;
    always_ff {
        if_reset {
            z = 4'hc;
        } else {
            z = f(b, z[1:0]);
        }
    }
}
"#);
    add("shift_case", vec![("d", 2), ("s", 2)], vec![], false, r#"
module Top (
    d : input  logic<2> ,
    s : input  logic<2> ,
    l : output logic<8> ,
    r : output logic<8> ,
    k : output logic<33>,
) {
    assign l = {6'h2d, d} << s;
    assign r = {d, 6'h2d} >> s;
    always_comb {
        case s {
            0      : k = 33'h1_0000_0000;
            1      : k = {31'h7fff_fffe, d};
            2      : k = 0;
            default: k = {d repeat 16, 1'b1};
        }
    }
}
"#);
    add("regs_32_33_64", vec![("d", 2), ("e", 1)], vec![], true, r#"
module Top (
    clk: input  clock    ,
    rst: input  reset    ,
    d  : input  logic<2> ,
    e  : input  logic    ,
    r32: output logic<32>,
    r33: output logic<33>,
    r64: output logic<64>,
    b  : output logic    ,
) {
    assign b = r32[31] ^ r33[32] ^ r64[63];
    always_ff {
        if_reset {
            r32 = 32'hffff_fffe;
            r33 = 33'h1_ffff_fffe;
            r64 = 64'hffff_ffff_ffff_fffe;
        } else if e {
            r32 = r32 + {30'h0, d};
            r33 = r33 + {31'h0, d};
            r64 = r64 + {62'h0, d};
        } else {
            r32 = {r32[29:0], d};
            r33 = {r33[30:0], d};
            r64 = {r64[61:0], d};
        }
    }
}
"#);
    add("no_reset_ff", vec![("d", 3)], vec![], true, r#"
module Top (
    clk: input  clock   ,
    rst: input  reset   ,
    d  : input  logic<3>,
    q1 : output logic<3>,
    q2 : output logic<3>,
    c  : output logic<2>,
) {
    always_ff {
        q1 = d;
        q2 = q1;
    }
    always_ff {
        if_reset {
            c = 0;
        } else {
            c = c + 1;
        }
    }
}
"#);
    add("array_2d", vec![("i", 1), ("j", 1), ("d", 2)], vec![("g[0]", "g00"), ("g[1]", "g01"), ("g[2]", "g10"), ("g[3]", "g11")], true, r#"
module Top (
    clk: input  clock   ,
    rst: input  reset   ,
    i  : input  logic   ,
    j  : input  logic   ,
    d  : input  logic<2>,
    g00: output logic<3>,
    g01: output logic<3>,
    g10: output logic<3>,
    g11: output logic<3>,
) {
    var g: logic<3> [2, 2];
    assign g00 = g[0][0];
    assign g01 = g[0][1];
    assign g10 = g[1][0];
    assign g11 = g[1][1];
    always_ff {
        if_reset {
            g[0][0] = 0;
            g[0][1] = 1;
            g[1][0] = 2;
            g[1][1] = 3;
        } else {
            g[i][j] = g[i][j] + {1'b0, d};
        }
    }
}
"#);
    add("tristate_mux", vec![("en", 1), ("d", 3)], vec![], false, r#"
module Top (
    en: input  logic   ,
    d : input  logic<3>,
    y : output logic<3>,
    z : output logic<70>,
) {
    assign y = if en ? d : 3'bzzz;
    assign z = if en ? {d repeat 23, 1'b0} : {35'h7_ffff_ffff, 35'bz};
}
"#);
    add("two_always_comb", vec![("a", 2), ("b", 2)], vec![], true, r#"
module Top (
    clk: input  clock   ,
    rst: input  reset   ,
    a  : input  logic<2>,
    b  : input  logic<2>,
    mx : output logic<2>,
    eq : output logic   ,
    h  : output logic<4>,
) {
    var t: logic<2>;
    always_comb {
        if a >: b {
            t = a;
        } else {
            t = b;
        }
    }
    always_comb {
        mx = t;
        eq = a == b;
    }
    always_ff {
        if_reset {
            h = 0;
        } else {
            h = {h[1:0], t};
        }
    }
}
"#);
    add("bit_2state_types", vec![("a", 2), ("b", 2)], vec![], true, r#"
module Top (
    clk: input  clock  ,
    rst: input  reset  ,
    a  : input  bit<2> ,
    b  : input  bit<2> ,
    s  : output bit<3> ,
    q  : output bit<40>,
) {
    assign s = a + b;
    always_ff {
        if_reset {
            q = 40'hff_0000_00ff;
        } else {
            q = {q[37:0], a ^ b};
        }
    }
}
"#);
    v
}

#[derive(Clone)]
struct Letter {
    vals: Vec<V>,
}

/// Small per-design input alphabet: all-zeros, all-ones, two mixed 2-state letters and (for
/// 4-state engines) one letter with X and one with Z.
fn alphabet(d: &Design, four_state: bool, size: usize) -> Vec<Letter> {
    let mut letters: Vec<Letter> = vec![];
    let mk = |f: &dyn Fn(usize, usize, usize) -> Bit| Letter {
        vals: d
            .inputs
            .iter()
            .enumerate()
            .map(|(k, (_, w))| V::new((0..*w).map(|i| f(k, i, *w)).collect(), false))
            .collect(),
    };
    letters.push(mk(&|_, _, _| Bit::Zero));
    letters.push(mk(&|_, _, _| Bit::One));
    letters.push(mk(&|k, i, _| Bit::from_bool((i + k) % 2 == 0)));
    letters.push(mk(&|k, i, w| Bit::from_bool(if k % 2 == 0 { i == w - 1 } else { i % 3 == 0 })));
    if four_state {
        letters.push(mk(&|k, i, _| if (i + k) % 2 == 0 { Bit::X } else { Bit::One }));
        letters.push(mk(&|k, i, w| if i == w - 1 || k == 1 { Bit::Z } else { Bit::Zero }));
    } else {
        letters.push(mk(&|k, i, _| Bit::from_bool((i / 2 + k) % 2 == 0)));
        letters.push(mk(&|k, i, w| Bit::from_bool(i == 0 || (k == 0 && i + 1 == w))));
    }
    letters.truncate(size);
    letters
}

fn vcd_bit(v: vcd::Value) -> char {
    match v {
        vcd::Value::V0 => '0',
        vcd::Value::V1 => '1',
        vcd::Value::X => 'x',
        vcd::Value::Z => 'z',
    }
}

/// IEEE 1364 18.2.2: a shorter vector value is left-extended with 0, or with x/z when its
/// leftmost bit is x/z.
fn left_extend(s: &str, width: usize) -> String {
    if s.len() >= width {
        return s[s.len() - width..].to_string();
    }
    let fill = match s.chars().next() {
        Some('x') => 'x',
        Some('z') => 'z',
        _ => '0',
    };
    let mut out: String = std::iter::repeat_n(fill, width - s.len()).collect();
    out.push_str(s);
    out
}

struct ParsedVcd {
    /// full path (scopes below Top joined by '.') -> (code, size)
    vars: BTreeMap<String, (vcd::IdCode, u32)>,
    /// time label ("init" or the decimal time) -> code -> value MSB first
    times: BTreeMap<String, BTreeMap<vcd::IdCode, String>>,
    order: Vec<String>,
}

fn parse_vcd(data: &[u8]) -> Result<ParsedVcd, String> {
    let mut p = vcd::Parser::new(data);
    let header = p.parse_header().map_err(|e| format!("vcd header: {e}"))?;
    let mut vars = BTreeMap::new();
    fn walk(items: &[vcd::ScopeItem], prefix: &str, depth: usize, vars: &mut BTreeMap<String, (vcd::IdCode, u32)>) -> Result<(), String> {
        for it in items {
            match it {
                vcd::ScopeItem::Scope(s) => {
                    let p = if depth == 0 {
                        String::new()
                    } else if prefix.is_empty() {
                        s.identifier.clone()
                    } else {
                        format!("{prefix}.{}", s.identifier)
                    };
                    walk(&s.items, &p, depth + 1, vars)?;
                }
                vcd::ScopeItem::Var(v) => {
                    let mut name = v.reference.clone();
                    if let Some(idx) = &v.index {
                        name = format!("{name}{idx}");
                    }
                    let full = if prefix.is_empty() { name } else { format!("{prefix}.{name}") };
                    if vars.insert(full.clone(), (v.code, v.size)).is_some() {
                        return Err(format!("duplicate VCD variable {full}"));
                    }
                }
                _ => {}
            }
        }
        Ok(())
    }
    walk(&header.items, "", 0, &mut vars)?;
    let sizes: BTreeMap<vcd::IdCode, u32> = vars.values().map(|(c, s)| (*c, *s)).collect();
    let mut times: BTreeMap<String, BTreeMap<vcd::IdCode, String>> = BTreeMap::new();
    let mut order = vec![];
    let mut cur = "init".to_string();
    for cmd in p {
        let cmd = cmd.map_err(|e| format!("vcd body: {e}"))?;
        match cmd {
            vcd::Command::Timestamp(t) => {
                cur = t.to_string();
                if times.contains_key(&cur) {
                    return Err(format!("timestamp {cur} appears twice"));
                }
            }
            vcd::Command::ChangeVector(code, vec) => {
                let s: String = vec.iter().map(vcd_bit).collect();
                let w = *sizes.get(&code).ok_or("change for an undeclared id code")? as usize;
                if !times.contains_key(&cur) {
                    order.push(cur.clone());
                }
                times.entry(cur.clone()).or_default().insert(code, left_extend(&s, w));
            }
            vcd::Command::ChangeScalar(code, v) => {
                let w = *sizes.get(&code).ok_or("change for an undeclared id code")? as usize;
                if !times.contains_key(&cur) {
                    order.push(cur.clone());
                }
                times.entry(cur.clone()).or_default().insert(code, left_extend(&vcd_bit(v).to_string(), w));
            }
            _ => {}
        }
    }
    Ok(ParsedVcd { vars, times, order })
}

/// names of every variable below `Top` as the dump is expected to list them, with the way to
/// read the simulator's value: get_var path, or an alias port
fn expected_vars(mv: &veryl_simulator::ir::ModuleVariables, prefix: &str, out: &mut Vec<(String, usize, usize)>) {
    for var in mv.variables.values() {
        let name = var.path.to_string();
        let full = if prefix.is_empty() { name } else { format!("{prefix}.{name}") };
        let n = var.current_values.len();
        for i in 0..n {
            let nm = if n > 1 { format!("{full}[{i}]") } else { full.clone() };
            out.push((nm, var.width, n));
        }
    }
    for c in &mv.children {
        let p = if prefix.is_empty() { c.name.to_string() } else { format!("{prefix}.{}", c.name) };
        expected_vars(c, &p, out);
    }
}

#[derive(Default)]
struct DumpStats {
    runs: u64,
    sequences: u64,
    dump_points: u64,
    samples_compared: u64,
    samples_xz: u64,
    samples_wide: u64,
    vars_with_2_values: u64,
    vars_total: u64,
    uncovered_array_elements: u64,
    input_oracle_samples: u64,
}

fn value_string(x: &Value) -> String {
    match value_to_v(x) {
        Ok(v) => v.to_string_msb(),
        Err(e) => format!("<{e}>"),
    }
}

struct RunSpec<'a> {
    design: &'a Design,
    config: &'a Config,
    depth: usize,
    alphabet: usize,
    /// one simulator per sequence (true) or all sequences in one simulator separated by resets
    fresh_per_sequence: bool,
}

fn sequences(n_letters: usize, depth: usize) -> Vec<Vec<usize>> {
    let mut out = vec![];
    for len in 1..=depth {
        let total = n_letters.pow(len as u32);
        for k in 0..total {
            let mut s = vec![];
            let mut x = k;
            for _ in 0..len {
                s.push(x % n_letters);
                x /= n_letters;
            }
            out.push(s);
        }
    }
    out
}

/// Runs the given sequences in one simulator; returns (vcd bytes, expected samples).
#[allow(clippy::type_complexity)]
fn simulate(
    air: &veryl_analyzer::ir::Ir,
    spec: &RunSpec,
    seqs: &[Vec<usize>],
    letters: &[Letter],
    stats: &mut DumpStats,
) -> Result<(Vec<u8>, Vec<(String, Vec<(String, String)>)>, Vec<(String, usize, usize)>), String> {
    let d = spec.design;
    let ir = gen_sim::build(air, "Top", spec.config)?;
    let buf = Arc::new(Mutex::new(Vec::new()));
    let dumper = WaveDumper::new_vcd(Box::new(SharedVec(buf.clone())));
    let mut sim = Simulator::new(ir, Some(dumper));
    let mut names = vec![];
    expected_vars(&sim.ir.module_variables, "", &mut names);
    names.sort();
    let clk = if d.has_clk { Some(sim.get_clock("clk").ok_or("no clk")?) } else { None };
    let rst = if d.has_clk { Some(sim.get_reset("rst").ok_or("no rst")?) } else { None };
    let synthetic = veryl_simulator::ir::Event::Clock(veryl_simulator::ir::VarId::SYNTHETIC);
    let mut expected: Vec<(String, Vec<(String, String)>)> = vec![];
    let alias: BTreeMap<&str, &str> = d.aliases.iter().cloned().collect();
    let mut driven: BTreeMap<String, String> = BTreeMap::new();

    let mut snapshot = |sim: &mut Simulator, label: String, driven: &BTreeMap<String, String>, stats: &mut DumpStats| -> Result<(), String> {
        let mut row = vec![];
        for (nm, _w, n) in &names {
            let val = if *n > 1 {
                match alias.get(nm.as_str()) {
                    Some(port) => sim.get(port),
                    None => {
                        stats.uncovered_array_elements += 1;
                        continue;
                    }
                }
            } else {
                sim.get_var(nm)
            };
            let val = val.ok_or_else(|| format!("simulator has no variable {nm}"))?;
            let s = value_string(&val);
            if let Some(dv) = driven.get(nm) {
                stats.input_oracle_samples += 1;
                if *dv != s && spec.config.use_4state {
                    return Err(format!("MACHINERY input {nm}: drove {dv} but get_var returns {s}"));
                }
            }
            row.push((nm.clone(), s));
        }
        stats.dump_points += 1;
        expected.push((label, row));
        Ok(())
    };

    // The driving sequence is the one of the native testbench (testbench.rs, ResetAssert /
    // ClockNext): per cycle `clk=1; step` (step dumps at `time`), `time += 1`, `clk=0;
    // dump_variables()`, `time += 1`. `Simulator::dump_start` has no caller in veryl and is not
    // used here. A snapshot is read right after each dump, before anything else is driven.
    for seq in seqs {
        stats.sequences += 1;
        // reset: one clock edge with the reset level held asserted
        if let (Some(c), Some(r)) = (&clk, &rst) {
            let rid = r.var_id().ok_or("reset without var id")?;
            sim.set_reset_level(&rid, true);
            sim.set("clk", Value::new(1, 1, false));
            sim.step_in_reset(c, r, true);
            let t = sim.time;
            snapshot(&mut sim, t.to_string(), &driven, stats)?;
            sim.time += 1;
            sim.set("clk", Value::new(0, 1, false));
            sim.dump_variables();
            let t = sim.time;
            snapshot(&mut sim, t.to_string(), &driven, stats)?;
            sim.time += 1;
            sim.set_reset_level(&rid, false);
        }
        for &li in seq {
            for ((name, w), val) in d.inputs.iter().zip(letters[li].vals.iter()) {
                let x = v_to_value(val);
                sim.set(name, x);
                let shown = if spec.config.use_4state {
                    val.to_string_msb()
                } else {
                    val.bits.iter().rev().map(|b| if *b == Bit::One { '1' } else { '0' }).collect()
                };
                debug_assert_eq!(shown.len(), *w);
                driven.insert(name.to_string(), shown);
            }
            if let Some(c) = &clk {
                sim.set("clk", Value::new(1, 1, false));
                sim.step(c);
            } else {
                sim.step(&synthetic);
            }
            let t = sim.time;
            snapshot(&mut sim, t.to_string(), &driven, stats)?;
            sim.time += 1;
            if clk.is_some() {
                sim.set("clk", Value::new(0, 1, false));
            }
            sim.dump_variables();
            let t = sim.time;
            snapshot(&mut sim, t.to_string(), &driven, stats)?;
            sim.time += 1;
        }
    }
    drop(sim);
    let data = buf.lock().unwrap().clone();
    stats.runs += 1;
    Ok((data, expected, names))
}

fn compare_dump(
    acc: &mut Acc,
    stats: &mut DumpStats,
    spec: &RunSpec,
    seqs: &[Vec<usize>],
    data: &[u8],
    expected: &[(String, Vec<(String, String)>)],
    names: &[(String, usize, usize)],
) {
    let d = spec.design;
    let cfg = gen_sim::config_name(spec.config);
    let case = |extra: J| json!({"design": d.name, "design_text": d.code, "config": cfg, "fresh_per_sequence": spec.fresh_per_sequence,
        "alphabet": spec.alphabet, "first_sequences": seqs.iter().take(3).collect::<Vec<_>>(), "n_sequences": seqs.len(), "at": extra});
    let parsed = match parse_vcd(data) {
        Ok(p) => p,
        Err(e) => {
            acc.violation(
                format!("C36:vcd:{}:unparsable", d.name),
                format!("the VCD written for design {} ({cfg}) does not parse: {e}", d.name),
                case(json!(null)),
                json!("a parsable VCD"),
                json!(String::from_utf8_lossy(&data[..data.len().min(400)])),
            );
            return;
        }
    };
    // header: same variable set, same widths
    let exp_names: BTreeMap<&str, usize> = names.iter().map(|(n, w, _)| (n.as_str(), *w)).collect();
    for (n, w) in &exp_names {
        match parsed.vars.get(*n) {
            None => {
                acc.violation(format!("C36:vcd:header:missing-var"), format!("design {} ({cfg}): variable {n} is not declared in the VCD", d.name), case(json!(n)), json!(n), json!(parsed.vars.keys().collect::<Vec<_>>()));
                return;
            }
            Some((_, size)) if *size as usize != *w => {
                acc.violation(format!("C36:vcd:header:width"), format!("design {} ({cfg}): variable {n} declared with size {size}, simulator width {w}", d.name), case(json!(n)), json!(w), json!(size));
                return;
            }
            _ => {}
        }
    }
    for n in parsed.vars.keys() {
        if !exp_names.contains_key(n.as_str()) {
            acc.violation(format!("C36:vcd:header:extra-var"), format!("design {} ({cfg}): VCD declares {n}, unknown to the simulator", d.name), case(json!(n)), json!(null), json!(n));
            return;
        }
    }
    // times
    let exp_times: Vec<&String> = expected.iter().map(|(t, _)| t).collect();
    let got_times: Vec<&String> = parsed.order.iter().collect();
    if exp_times != got_times {
        acc.violation(
            format!("C36:vcd:times"),
            format!("design {} ({cfg}): dumped times differ from the times at which the simulator dumped", d.name),
            case(json!(null)),
            json!(exp_times.iter().take(12).collect::<Vec<_>>()),
            json!(got_times.iter().take(12).collect::<Vec<_>>()),
        );
        return;
    }
    let mut distinct: BTreeMap<&str, BTreeSet<&str>> = BTreeMap::new();
    for (t, row) in expected {
        let at = &parsed.times[t];
        for (name, exp) in row {
            let (code, _) = parsed.vars[name];
            stats.samples_compared += 1;
            acc.evals += 1;
            if exp.contains('x') || exp.contains('z') {
                stats.samples_xz += 1;
            }
            if exp.len() > 64 {
                stats.samples_wide += 1;
            }
            distinct.entry(name.as_str()).or_default().insert(exp.as_str());
            match at.get(&code) {
                Some(g) if g == exp => {}
                got => {
                    let class = if exp.len() > 64 {
                        "w>64"
                    } else if exp.len() > 32 {
                        "w>32"
                    } else {
                        "w<=32"
                    };
                    let kind = match got {
                        None => "not-dumped",
                        Some(g) if g.contains('x') != exp.contains('x') || g.contains('z') != exp.contains('z') => "xz",
                        Some(_) => "bits",
                    };
                    acc.violation(
                        format!("C36:vcd:value:{class}:{kind}"),
                        format!(
                            "design {} ({cfg}) time {t}: VCD records {name} = {:?}, the simulator holds {exp}",
                            d.name, got
                        ),
                        case(json!({"time": t, "var": name})),
                        json!(exp),
                        json!(got),
                    );
                    return;
                }
            }
        }
    }
    for (_, s) in &distinct {
        stats.vars_total += 1;
        if s.len() >= 2 {
            stats.vars_with_2_values += 1;
            acc.nontrivial += 1;
        }
    }
}

struct DesignResult {
    acc: Acc,
    stats: DumpStats,
    skipped: Option<String>,
    machinery: Vec<String>,
}

fn run_design(d: &Design, thorough: bool, with_cc: bool) -> DesignResult {
    let mut res = DesignResult { acc: Acc::default(), stats: DumpStats::default(), skipped: None, machinery: vec![] };
    let air = match gen_sim::analyze(&d.code) {
        Ok(a) => a,
        Err(e) => {
            res.skipped = Some(format!("{}: {e}", d.name));
            return res;
        }
    };
    let (depth, asize) = if thorough { (4, 6) } else { (3, 5) };
    for config in gen_sim::configs(with_cc) {
        let letters = alphabet(d, config.use_4state, asize);
        let all = sequences(letters.len(), depth);
        // (a) every sequence up to depth-1 in a fresh simulator; (b) all sequences up to `depth`
        // in one simulator separated by resets (longer dumps, stale state between sequences)
        let fresh: Vec<Vec<usize>> = all.iter().filter(|s| s.len() < depth && (thorough || s.len() <= 2)).cloned().collect();
        let mut jobs: Vec<(bool, Vec<Vec<usize>>)> = vec![(false, all.clone())];
        if !config.aot_c {
            for s in fresh {
                jobs.push((true, vec![s]));
            }
        }
        for (fresh_per_sequence, seqs) in jobs {
            let spec = RunSpec { design: d, config: &config, depth, alphabet: letters.len(), fresh_per_sequence };
            let _ = spec.depth;
            match guarded(|| simulate(&air, &spec, &seqs, &letters, &mut res.stats)) {
                Ok(Ok((data, expected, names))) => compare_dump(&mut res.acc, &mut res.stats, &spec, &seqs, &data, &expected, &names),
                Ok(Err(e)) => res.machinery.push(format!("{} {}: {e}", d.name, gen_sim::config_name(&config))),
                Err(p) => res.machinery.push(format!("{} {}: panic {p}", d.name, gen_sim::config_name(&config))),
            }
        }
    }
    res
}

pub fn run(ctx: &Ctx) -> Report {
    install_quiet_panic_hook();
    let mut rep = Report::new(Level::Exploration);
    let thorough = ctx.thorough();
    let budget = ctx.budget(55.0, 1200.0);

    // ---------------- part 1
    let max_all = if thorough { 9 } else { 7 };
    let mut items = vec![];
    for w in 1..=max_all {
        let n = if w >= 7 { 16 } else { 1 };
        for s in 0..n {
            items.push(Sv::AllValues(w, s, n));
        }
    }
    for w in SV_BOUNDARY_WIDTHS {
        items.push(Sv::Boundary(w));
    }
    for n in 1..=5 {
        items.push(Sv::Words(n));
    }
    let mut total = Acc::default();
    for a in par_map(&items, run_sv) {
        total.merge(a);
    }
    let sv_evals = total.evals;
    rep.set("sv_conversions_checked", sv_evals);
    rep.set("sv_all_values_widths", format!("1..={max_all}"));
    rep.set("sv_boundary_widths", json!(SV_BOUNDARY_WIDTHS));

    // part 1b
    let cosim_widths: Vec<usize> = vec![1, 3, 4, 31, 32, 33, 63, 64, 65, 96, 127, 128];
    let r1b = par_map(&cosim_widths, |w| {
        let w = *w;
        run_isolated(gen_sim::STACK, move || run_cosim_boundary(w))
    });
    let mut cosim_evals = 0;
    let mut skipped: Vec<String> = vec![];
    for (w, r) in cosim_widths.iter().zip(r1b) {
        match r {
            Ok(Ok(a)) => {
                cosim_evals += a.evals;
                total.merge(a);
            }
            Ok(Err(e)) => skipped.push(format!("cosim pass-through width {w}: {e}")),
            Err(p) => rep.machinery(format!("cosim pass-through width {w} panicked: {p}")),
        }
    }
    rep.set("cosim_passthrough_values", cosim_evals);

    // ---------------- part 2
    let ds = designs();
    let with_cc = thorough;
    let mut dstats = DumpStats::default();
    let mut designs_run = 0u64;
    let mut capped = false;
    for chunk in ds.chunks(16) {
        if ctx.elapsed() > budget {
            capped = true;
            break;
        }
        let rs = par_map(chunk, |d| {
            let d2 = d.clone();
            run_isolated(gen_sim::STACK, move || run_design(&d2, thorough, with_cc))
        });
        for (d, r) in chunk.iter().zip(rs) {
            match r {
                Ok(r) => {
                    if let Some(s) = r.skipped {
                        skipped.push(s);
                        continue;
                    }
                    designs_run += 1;
                    for m in r.machinery {
                        rep.machinery(m);
                    }
                    total.merge(r.acc);
                    let s = r.stats;
                    dstats.runs += s.runs;
                    dstats.sequences += s.sequences;
                    dstats.dump_points += s.dump_points;
                    dstats.samples_compared += s.samples_compared;
                    dstats.samples_xz += s.samples_xz;
                    dstats.samples_wide += s.samples_wide;
                    dstats.vars_with_2_values += s.vars_with_2_values;
                    dstats.vars_total += s.vars_total;
                    dstats.uncovered_array_elements += s.uncovered_array_elements;
                    dstats.input_oracle_samples += s.input_oracle_samples;
                }
                Err(p) => rep.machinery(format!("design {} : harness thread panicked: {p}", d.name)),
            }
        }
    }

    rep.set("evaluations", total.evals);
    rep.set("distinct_nontrivial", total.nontrivial);
    rep.set("rule", "svLogicVecVal: width not a multiple of 64 or mask_xz != 0; dumps: a dumped variable that took >= 2 distinct values during the run");
    rep.set("designs_total", ds.len() as u64);
    rep.set("designs_run", designs_run);
    rep.set("designs_skipped", skipped.len() as u64);
    rep.set("skipped_reasons", json!(skipped));
    rep.set("dump_simulator_runs", dstats.runs);
    rep.set("dump_sequences", dstats.sequences);
    rep.set("dump_points", dstats.dump_points);
    rep.set("dump_samples_compared", dstats.samples_compared);
    rep.set("dump_samples_with_xz", dstats.samples_xz);
    rep.set("dump_samples_wider_than_64", dstats.samples_wide);
    rep.set("dump_vars_with_2_or_more_values", dstats.vars_with_2_values);
    rep.set("dump_vars_total", dstats.vars_total);
    rep.set("dump_array_elements_without_alias", dstats.uncovered_array_elements);
    rep.set("dump_input_oracle_samples", dstats.input_oracle_samples);
    rep.set("exhaustive", !capped);
    rep.set("capped_by_budget", capped);
    rep.set("formats", "VCD (parsed with the vcd crate). FST not checked: no FST reader is a dependency of the harness workspace lock file");
    rep.set(
        "bounds",
        json!({"sequence_depth": if thorough {4} else {3}, "alphabet_letters": if thorough {6} else {5},
               "engines": gen_sim::configs(with_cc).iter().map(gen_sim::config_name).collect::<Vec<_>>()}),
    );
    rep.sample(json!({"design": ds[0].name, "text": ds[0].code}));
    rep.assume("cosim boundary emulated by the bodies of cosim_set/cosim_get (veryl-cosim is a cdylib around them)");
    rep.assume("dump oracle: Simulator::get_var / get read after the dump call of the same step; input ports additionally against the driven value");
    if designs_run == 0 || dstats.samples_compared == 0 || sv_evals == 0 {
        rep.machinery("vacuous run: no design simulated or no conversion checked");
    }
    if dstats.samples_xz == 0 || dstats.samples_wide == 0 || dstats.vars_with_2_values < 10 {
        rep.machinery("vacuous run: dumps never contained x/z, wide values, or changing variables");
    }
    if skipped.len() > 1 {
        rep.machinery(format!("{} generated designs were rejected (generator bugs): {:?}", skipped.len(), skipped));
    }
    for (_, (n, mut v)) in total.viol {
        v.what = format!("{} [{} case(s)]", v.what, n);
        rep.violation(v);
    }
    rep
}

fn parse_v(s: &str) -> Option<V> {
    let (w, rest) = s.split_once('\'')?;
    let signed = rest.starts_with('s');
    let bits = rest.trim_start_matches('s').strip_prefix('b')?;
    let v = V::from_str_msb(bits, signed);
    (v.width() == w.parse::<usize>().ok()?).then_some(v)
}

/// Replays a recorded case: a value conversion, or all sequences of the named design under the
/// recorded engine configuration.
pub fn replay(doc: &J) -> i32 {
    install_quiet_panic_hook();
    let c = &doc["case"];
    let mut acc = Acc::default();
    if let Some(v) = c["value"].as_str().and_then(parse_v) {
        if c["design"].is_null() {
            check_sv_value(&mut acc, &v);
        }
    }
    if let Some(name) = c["design"].as_str() {
        let Some(d) = designs().into_iter().find(|d| d.name == name) else {
            // cosim pass-through cases carry the design text
            if let Some(v) = c["value"].as_str().and_then(parse_v) {
                let w = v.width();
                match run_isolated(gen_sim::STACK, move || run_cosim_boundary(w)) {
                    Ok(Ok(a)) => acc.merge(a),
                    other => {
                        println!("cannot replay: {:?}", other.map(|r| r.map(|_| ())));
                        return 2;
                    }
                }
            }
            return finish_replay(acc);
        };
        let thorough = doc["tier"].as_str() == Some("thorough");
        match run_isolated(gen_sim::STACK, move || run_design(&d, thorough, thorough)) {
            Ok(r) => acc.merge(r.acc),
            Err(p) => {
                println!("cannot replay: {p}");
                return 2;
            }
        }
    }
    finish_replay(acc)
}

fn finish_replay(acc: Acc) -> i32 {
    if let Some((_, (_, v))) = acc.viol.into_iter().next() {
        println!("still differs: {}\nexpected {}\nobserved {}", v.what, v.expected, v.observed);
        1
    } else {
        println!("agrees now");
        0
    }
}

//! Abstract multi-file Veryl projects for the CLI-level checks C24, C25 and C27.
//!
//! An abstract project is a labelled DAG: node k is one declaration (package `P{k}`, interface
//! `I{k}` or module `M{k}`), an edge u -> v means "u references v" with the kind implied by the
//! node types (package import / scoped package reference, interface instance / modport port,
//! module instance). The generator produces analyzer-clean Veryl text (no diagnostics on the
//! unchanged tree; a rejected member is counted as a generator bug by the checks).

use std::collections::BTreeSet;

#[derive(Clone, Copy, PartialEq, Eq, Debug, PartialOrd, Ord, Hash)]
pub enum Kind {
    Pkg,
    Ifc,
    Mod,
}

impl Kind {
    pub fn letter(&self) -> char {
        match self {
            Kind::Pkg => 'P',
            Kind::Ifc => 'I',
            Kind::Mod => 'M',
        }
    }
    pub fn sv_keyword(&self) -> &'static str {
        match self {
            Kind::Pkg => "package",
            Kind::Ifc => "interface",
            Kind::Mod => "module",
        }
    }
}

#[derive(Clone, Debug, PartialEq, Eq, Hash, PartialOrd, Ord)]
pub struct Node {
    pub kind: Kind,
    /// Indices of the nodes this declaration references (sorted).
    pub refs: Vec<usize>,
}

/// How package and interface references are spelled.
#[derive(Clone, Copy, Debug, PartialEq, Eq, Hash, PartialOrd, Ord)]
pub struct Spelling {
    /// false: `import P::*;` + bare name, true: `P::W` scoped reference.
    pub pkg_scoped: bool,
    /// false: `inst u: I;`, true: a `modport I::mp` port (the instantiating parent then creates
    /// the interface instance, which adds a derived parent -> interface reference).
    pub ifc_modport: bool,
}

pub fn name(nodes: &[Node], k: usize) -> String {
    format!("{}{}", nodes[k].kind.letter(), k)
}

/// May `u` reference `v`?
pub fn edge_allowed(u: Kind, v: Kind) -> bool {
    matches!(
        (u, v),
        (Kind::Pkg, Kind::Pkg) | (Kind::Ifc, Kind::Pkg) | (Kind::Mod, Kind::Pkg) | (Kind::Mod, Kind::Ifc) | (Kind::Mod, Kind::Mod)
    )
}

pub fn edge_kind(u: Kind, v: Kind, sp: Spelling) -> &'static str {
    match (u, v) {
        (_, Kind::Pkg) => {
            if sp.pkg_scoped {
                "package.scoped"
            } else {
                "package.import"
            }
        }
        (_, Kind::Ifc) => {
            if sp.ifc_modport {
                "interface.modport"
            } else {
                "interface.inst"
            }
        }
        (_, Kind::Mod) => "module.inst",
    }
}

fn acyclic(n: usize, edges: &[(usize, usize)]) -> bool {
    // Kahn
    let mut indeg = vec![0usize; n];
    for (_, v) in edges {
        indeg[*v] += 1;
    }
    let mut done = 0;
    let mut stack: Vec<usize> = (0..n).filter(|i| indeg[*i] == 0).collect();
    while let Some(x) = stack.pop() {
        done += 1;
        for (u, v) in edges {
            if *u == x {
                indeg[*v] -= 1;
                if indeg[*v] == 0 {
                    stack.push(*v);
                }
            }
        }
    }
    done == n
}

/// All labelled DAGs on exactly `n` typed nodes (every type assignment, every acyclic subset of
/// the type-allowed ordered pairs). Deterministic order.
pub fn enumerate_dags(n: usize) -> Vec<Vec<Node>> {
    let mut out = vec![];
    let kinds = [Kind::Pkg, Kind::Ifc, Kind::Mod];
    let total_types = 3usize.pow(n as u32);
    for t in 0..total_types {
        let mut ks = vec![];
        let mut x = t;
        for _ in 0..n {
            ks.push(kinds[x % 3]);
            x /= 3;
        }
        let mut pairs = vec![];
        for u in 0..n {
            for v in 0..n {
                if u != v && edge_allowed(ks[u], ks[v]) {
                    pairs.push((u, v));
                }
            }
        }
        for mask in 0u32..(1u32 << pairs.len()) {
            let edges: Vec<(usize, usize)> = pairs.iter().enumerate().filter(|(i, _)| mask >> i & 1 == 1).map(|(_, p)| *p).collect();
            if !acyclic(n, &edges) {
                continue;
            }
            let nodes: Vec<Node> = (0..n)
                .map(|u| Node { kind: ks[u], refs: edges.iter().filter(|(a, _)| *a == u).map(|(_, b)| *b).collect() })
                .collect();
            out.push(nodes);
        }
    }
    out
}

/// Which spellings are distinguishable for this DAG.
pub fn spellings(nodes: &[Node]) -> Vec<Spelling> {
    let has_pkg_ref = nodes.iter().any(|n| n.refs.iter().any(|r| nodes[*r].kind == Kind::Pkg));
    let has_ifc_ref = nodes.iter().any(|n| n.refs.iter().any(|r| nodes[*r].kind == Kind::Ifc));
    let mut out = vec![];
    for ps in [false, true] {
        if ps && !has_pkg_ref {
            continue;
        }
        for im in [false, true] {
            if im && !has_ifc_ref {
                continue;
            }
            out.push(Spelling { pkg_scoped: ps, ifc_modport: im });
        }
    }
    out
}

/// Declared + derived reference edges (u references v) with their kind.
pub fn edges(nodes: &[Node], sp: Spelling) -> Vec<(usize, usize, String)> {
    let mut set: BTreeSet<(usize, usize, String)> = BTreeSet::new();
    for (u, n) in nodes.iter().enumerate() {
        for v in &n.refs {
            set.insert((u, *v, edge_kind(n.kind, nodes[*v].kind, sp).to_string()));
            if sp.ifc_modport && n.kind == Kind::Mod && nodes[*v].kind == Kind::Mod {
                // parent creates the interface instances for the child's modport ports
                for x in &nodes[*v].refs {
                    if nodes[*x].kind == Kind::Ifc && !n.refs.contains(x) {
                        set.insert((u, *x, "interface.inst(for-child-modport)".to_string()));
                    }
                }
            }
        }
    }
    set.into_iter().collect()
}

/// Veryl text of declaration `k`.
pub fn decl_text(nodes: &[Node], k: usize, sp: Spelling) -> String {
    let n = &nodes[k];
    let me = name(nodes, k);
    let pkg_refs: Vec<usize> = n.refs.iter().copied().filter(|r| nodes[*r].kind == Kind::Pkg).collect();
    let ifc_refs: Vec<usize> = n.refs.iter().copied().filter(|r| nodes[*r].kind == Kind::Ifc).collect();
    let mod_refs: Vec<usize> = n.refs.iter().copied().filter(|r| nodes[*r].kind == Kind::Mod).collect();
    let pkg_val = |j: usize| -> String {
        if sp.pkg_scoped {
            format!("P{j}::W{j}")
        } else {
            format!("W{j}")
        }
    };
    let mut s = String::new();
    let imports = |s: &mut String| {
        if !sp.pkg_scoped {
            for j in &pkg_refs {
                s.push_str(&format!("    import P{j}::*;\n"));
            }
        }
    };
    match n.kind {
        Kind::Pkg => {
            s.push_str(&format!("package {me} {{\n"));
            imports(&mut s);
            match pkg_refs.first() {
                Some(j) => s.push_str(&format!("    const W{k}: u32 = {};\n", pkg_val(*j))),
                None => s.push_str(&format!("    const W{k}: u32 = 4;\n")),
            }
            for j in pkg_refs.iter().skip(1) {
                s.push_str(&format!("    const X{k}_{j}: u32 = {};\n", pkg_val(*j)));
            }
            s.push_str("}\n");
        }
        Kind::Ifc => {
            s.push_str(&format!("interface {me} {{\n"));
            imports(&mut s);
            let w = match pkg_refs.first() {
                Some(j) => pkg_val(*j),
                None => "4".to_string(),
            };
            for j in pkg_refs.iter().skip(1) {
                s.push_str(&format!("    const X{k}_{j}: u32 = {};\n", pkg_val(*j)));
            }
            s.push_str(&format!("    var d: logic<{w}>;\n    var q: logic<{w}>;\n"));
            s.push_str("    modport mp {\n        d: input ,\n        q: output,\n    }\n}\n");
        }
        Kind::Mod => {
            s.push_str(&format!("module {me} (\n    i_a: input  logic<4>,\n    o_a: output logic<4>,\n"));
            if sp.ifc_modport {
                for j in &ifc_refs {
                    s.push_str(&format!("    p{j}: modport I{j}::mp,\n"));
                }
            }
            s.push_str(") {\n");
            imports(&mut s);
            for j in &pkg_refs {
                s.push_str(&format!("    const C{j}: u32 = {};\n", pkg_val(*j)));
            }
            for j in &ifc_refs {
                if sp.ifc_modport {
                    s.push_str(&format!("    assign p{j}.q = p{j}.d;\n"));
                } else {
                    s.push_str(&format!("    inst u_i{j}: I{j};\n    assign u_i{j}.d = i_a;\n    assign u_i{j}.q = i_a;\n"));
                }
            }
            for j in &mod_refs {
                s.push_str(&format!("    var w{j}: logic<4>;\n"));
                let mut conns = String::new();
                if sp.ifc_modport {
                    for x in nodes[*j].refs.iter().filter(|x| nodes[**x].kind == Kind::Ifc) {
                        s.push_str(&format!("    inst u_x{j}_{x}: I{x};\n    assign u_x{j}_{x}.d = i_a;\n"));
                        conns.push_str(&format!("        p{x}: u_x{j}_{x},\n"));
                    }
                }
                s.push_str(&format!("    inst u_m{j}: M{j} (\n        i_a: i_a,\n        o_a: w{j},\n{conns}    );\n"));
            }
            let mut expr = "i_a".to_string();
            for j in &pkg_refs {
                expr.push_str(&format!(" + C{j}[3:0]"));
            }
            for j in &mod_refs {
                expr.push_str(&format!(" ^ w{j}"));
            }
            s.push_str(&format!("    assign o_a = {expr};\n}}\n"));
        }
    }
    s
}

/// Compact, replayable description of a DAG, e.g. `M0>P1,I2 P1 I2>P1`.
pub fn describe(nodes: &[Node]) -> String {
    nodes
        .iter()
        .enumerate()
        .map(|(k, n)| {
            if n.refs.is_empty() {
                name(nodes, k)
            } else {
                format!("{}>{}", name(nodes, k), n.refs.iter().map(|r| name(nodes, *r)).collect::<Vec<_>>().join(","))
            }
        })
        .collect::<Vec<_>>()
        .join(" ")
}

/// Inverse of `describe`.
pub fn parse(desc: &str) -> Option<Vec<Node>> {
    let mut nodes = vec![];
    for (k, w) in desc.split_whitespace().enumerate() {
        let (head, refs) = match w.split_once('>') {
            Some((h, r)) => (h, r),
            None => (w, ""),
        };
        let kind = match head.chars().next()? {
            'P' => Kind::Pkg,
            'I' => Kind::Ifc,
            'M' => Kind::Mod,
            _ => return None,
        };
        if head[1..].parse::<usize>().ok()? != k {
            return None;
        }
        let mut rs = vec![];
        for r in refs.split(',').filter(|x| !x.is_empty()) {
            rs.push(r[1..].parse::<usize>().ok()?);
        }
        nodes.push(Node { kind, refs: rs });
    }
    Some(nodes)
}

pub fn all_permutations(n: usize) -> Vec<Vec<usize>> {
    fn rec(cur: &mut Vec<usize>, used: &mut Vec<bool>, n: usize, out: &mut Vec<Vec<usize>>) {
        if cur.len() == n {
            out.push(cur.clone());
            return;
        }
        for i in 0..n {
            if !used[i] {
                used[i] = true;
                cur.push(i);
                rec(cur, used, n, out);
                cur.pop();
                used[i] = false;
            }
        }
    }
    let mut out = vec![];
    rec(&mut vec![], &mut vec![false; n], n, &mut out);
    out
}

/// Runs `f(worker_index, item)` over `items` on the rayon pool, handing the items out strictly in
/// input order (a shared cursor), so that a time budget cuts the list at a prefix. `f` returns
/// `None` to signal "budget exhausted": the worker then stops taking items.
pub fn par_in_order<T: Sync, R: Send>(items: &[T], f: impl Fn(usize, &T) -> Option<R> + Sync) -> Vec<Option<R>> {
    use rayon::prelude::*;
    use std::sync::Mutex;
    use std::sync::atomic::{AtomicUsize, Ordering};
    let n = rayon::current_num_threads().max(1);
    let cursor = AtomicUsize::new(0);
    let slots: Vec<Mutex<Option<R>>> = (0..items.len()).map(|_| Mutex::new(None)).collect();
    (0..n).into_par_iter().for_each(|w| {
        loop {
            let i = cursor.fetch_add(1, Ordering::SeqCst);
            if i >= items.len() {
                break;
            }
            match f(w, &items[i]) {
                Some(r) => *slots[i].lock().unwrap() = Some(r),
                None => break,
            }
        }
    });
    slots.into_iter().map(|m| m.into_inner().unwrap()).collect()
}

/// Runs the harness-built `veryl` in the sandbox. `VMC_SWITCH` (run-time switches that exist only in
/// mutation / fix demonstration builds of the worktree) is forwarded when set; the pinned tree
/// ignores it.
pub fn veryl(sb: &crate::proj::Sandbox, args: &[&str]) -> crate::proj::RunOut {
    match std::env::var("VMC_SWITCH") {
        Ok(v) => sb.veryl_env(args, &[("VMC_SWITCH", v.as_str())]),
        Err(_) => sb.veryl(args),
    }
}

//! C03 — simulator optimisations never change observable behaviour.
//!
//! The ten pass toggles are process-global env-var `OnceLock`s, so every toggle subset gets its
//! own `vmc worker sim` process (a `Worker` machine).  For each design the workers of a wave are
//! explored N-way in lock-step by E2 against the ALL-OFF worker (machine 0): BFS over all input
//! letters + all short sequences; for the cone-gate shapes additionally long periodic runs
//! (>= 2200 steps from a fresh simulator) that cross the gate's AUTO_OFF_STREAK (1024).
//! quick: all subsets within Hamming distance <= 2 of the default (all on) and of all-off
//! (2 x 56 = 112 sets); thorough: all 2^10 subsets (JIT), distance <= 2 for the other engines.
//! Vacuity guard per pass: the pass must change the built IR / generated Cranelift code of at
//! least one design (default vs default-minus-pass, all-off vs all-off-plus-pass), measured by
//! the workers' IR shape + Cranelift mnemonic histogram; otherwise machinery failure.

use super::c02::{design_case, template_of};
use super::e2::{self, Bounds, Machine, Outcome, Stats, Worker};
use super::gen_df::{self, Design, Scope};
use super::simworker::load_doc;
use crate::core::*;
use serde_json::json;
use std::collections::{BTreeMap, BTreeSet};

/// (pass name, environment variable, value that switches the pass OFF). ON = variable unset.
pub const TOGGLES: [(&str, &str, &str); 10] = [
    ("comb_fusion", "VERYL_COMB_FUSION", "0"),
    ("cone_gate", "VERYL_CONE_GATE", "0"),
    ("dead_var_dce", "VERYL_DEAD_VAR_DCE", "0"),
    ("vsplit", "VERYL_VSPLIT", "0"),
    ("vsplit_lut", "VERYL_VSPLIT_LUT", "0"),
    ("lane_vector", "VERYL_LANE_VECTOR", "0"),
    ("comb_layout", "VERYL_COMB_LAYOUT", "0"),
    ("cond_hoist", "VERYL_COND_HOIST_DISABLE", "1"),
    ("switch_lower", "VERYL_SWITCH_LOWER_DISABLE", "1"),
    ("load_cache", "VERYL_FORCE_DISABLE_LOAD_CACHE", "1"),
];
pub const ALL_ON: u32 = (1 << 10) - 1;

pub fn env_for(mask: u32) -> Vec<(String, String)> {
    TOGGLES
        .iter()
        .enumerate()
        .filter(|(i, _)| mask & (1 << i) == 0)
        .map(|(_, (_, var, off))| (var.to_string(), off.to_string()))
        .collect()
}

pub fn set_label(mask: u32) -> String {
    if mask == 0 {
        return "all-off".into();
    }
    if mask == ALL_ON {
        return "default".into();
    }
    let names = |m: u32| -> String {
        TOGGLES.iter().enumerate().filter(|(i, _)| m & (1 << i) != 0).map(|(_, t)| t.0).collect::<Vec<_>>().join("+")
    };
    if mask.count_ones() <= 5 { format!("on={}", names(mask)) } else { format!("off={}", names(ALL_ON & !mask)) }
}

fn near(mask: u32, dist: u32) -> bool {
    mask.count_ones() <= dist || (ALL_ON & !mask).count_ones() <= dist
}

/// Toggle sets within Hamming distance `dist` of default and of all-off (dist 10 = everything),
/// ordered by distance from all-off then numerically; all-off first.
pub fn toggle_sets(dist: u32) -> Vec<u32> {
    let mut v: Vec<u32> = (0..=ALL_ON).filter(|m| near(*m, dist)).collect();
    v.sort_by_key(|m| (m.count_ones(), *m));
    v
}

/// Smallest conjunction of toggle literals (`pass=on` / `pass=off`) that every diverging set
/// satisfies and no agreeing set does; falls back to the label of the smallest diverging set when
/// the diverging sets are not separated by one conjunction.
pub fn separating_cube(diverging: &[u32], agreeing: &[u32]) -> String {
    let mut lits: Vec<(usize, bool)> = vec![];
    for i in 0..TOGGLES.len() {
        let bit = 1u32 << i;
        if diverging.iter().all(|m| m & bit != 0) {
            lits.push((i, true));
        } else if diverging.iter().all(|m| m & bit == 0) {
            lits.push((i, false));
        }
    }
    let sat = |m: u32, lits: &[(usize, bool)]| lits.iter().all(|(i, on)| (m & (1 << i) != 0) == *on);
    if agreeing.iter().any(|m| sat(*m, &lits)) {
        return set_label(*diverging.iter().min_by_key(|m| (m.count_ones(), **m)).unwrap());
    }
    // greedy minimisation, dropping literals from the end (stable, deterministic)
    let mut k = lits.len();
    while k > 0 {
        k -= 1;
        let mut trial = lits.clone();
        trial.remove(k);
        if !agreeing.iter().any(|m| sat(*m, &trial)) {
            lits = trial;
        }
    }
    // prefer keeping `on` literals readable first
    lits.iter().map(|(i, on)| format!("{}={}", TOGGLES[*i].0, if *on { "on" } else { "off" })).collect::<Vec<_>>().join("&")
}

struct Group<'a> {
    name: &'static str,
    config: &'a str,
    /// which toggle sets take part (all-off is always included)
    dist: u32,
    bounds: Bounds,
    probe: bool,
}

#[derive(Default)]
struct Agg {
    states: u64,
    transitions: u64,
    flat: u64,
    long_runs: u64,
    steps: u64,
    compares: u64,
    distinct: u64,
    explorations: u64,
    capped: u64,
    not_run: u64,
    load_skipped: BTreeMap<String, u64>,
    per_config: BTreeMap<String, u64>,
    nontrivial: u64,
}

fn parse_shape(line: &str) -> BTreeMap<String, String> {
    line.split_whitespace().filter_map(|kv| kv.split_once('=')).map(|(k, v)| (k.to_string(), v.to_string())).collect()
}

pub fn run(ctx: &Ctx) -> Report {
    let mut rep = Report::new(Level::ModelChecking);
    let thorough = ctx.thorough();
    let budget = ctx.budget(62.0, 1350.0);
    let scratch = ctx.dir("workers");

    // ---- designs -----------------------------------------------------------------------------
    let fam = gen_df::family(if thorough { Scope::Full } else { Scope::Core });
    let mut designs: Vec<Design> = fam.iter().filter(|d| d.class == "opt").cloned().collect();
    // general members: the `sub` class (logic below the root, where the passes act) and a thin
    // slice of the single-module classes
    let (sub_stride, other_stride) = if thorough { (1, 4) } else { (3, 40) };
    designs.extend(fam.iter().filter(|d| d.class == "sub" && d.core).step_by(sub_stride).cloned());
    let others: Vec<Design> =
        fam.iter().filter(|d| !matches!(d.class, "opt" | "sub" | "wide") && d.core).cloned().collect();
    // round-robin over classes so every class is represented
    let others = super::c02::interleave_by_class(others.into_iter().map(|d| (d, vec![], ())).collect());
    designs.extend(others.into_iter().map(|j| j.0).step_by(other_stride));
    if let Ok(f) = std::env::var("VMC_DF_FILTER") {
        designs.retain(|d| f.split(',').any(|x| d.id.contains(x)));
    }
    let is_big = |d: &Design| d.has_tag("cone_gate") || d.id.contains("flat320");
    let is_huge = |d: &Design| d.id.contains("2700");

    // ---- toggle sets and waves -----------------------------------------------------------------
    let sets = toggle_sets(if thorough { 10 } else { 2 });
    let wave_size = 127usize;
    let mut waves: Vec<Vec<u32>> = vec![];
    {
        let rest: Vec<u32> = sets.iter().copied().filter(|m| *m != 0).collect();
        // the first wave holds every set within distance 2 (the non-JIT groups and the probes live there)
        let (first, later): (Vec<u32>, Vec<u32>) = rest.into_iter().partition(|m| near(*m, 2));
        waves.push(std::iter::once(0).chain(first).collect());
        for ch in later.chunks(wave_size) {
            waves.push(std::iter::once(0).chain(ch.iter().copied()).collect());
        }
    }

    let base_bounds = Bounds {
        max_states: 1 << 12,
        max_depth: 64,
        flat_len: if thorough { 3 } else { 2 },
        batch: 2048,
        ..Default::default()
    };
    let long_bounds = Bounds {
        long_only: true,
        long_period: 2,
        long_steps: 2200,
        long_letters: if thorough { vec![0, 3, 5, 10, 12, 15] } else { vec![0, 13] },
        ..base_bounds.clone()
    };

    let mut agg = Agg::default();
    let mut sigs: BTreeSet<String> = BTreeSet::new();
    let mut fired: BTreeMap<&'static str, BTreeSet<String>> = BTreeMap::new();
    let mut fired_how: BTreeMap<&'static str, BTreeSet<String>> = BTreeMap::new();
    let mut control_mismatch = 0u64;
    let mut probed = 0u64;
    let mut workers_spawned = 0u64;
    let mut sets_done: BTreeSet<u32> = BTreeSet::new();
    let mut budget_cut = false;

    // ---- phase 0: vacuity probes (never budget-cut: the guard must not depend on the clock) ----
    // every opt-shape is loaded with `probe` on the 22 subsets at distance <= 1 (+ a second default
    // process as control): does switching ONE pass change the IR shape / the generated code?
    {
        let probe_sets: Vec<u32> = toggle_sets(1);
        let mut pw: Vec<(u32, Worker)> = vec![];
        for &m in &probe_sets {
            match Worker::spawn(&format!("probe-{}", set_label(m)), &env_for(m), &scratch) {
                Ok(w) => pw.push((m, w)),
                Err(e) => {
                    rep.machinery(format!("cannot spawn probe worker: {e}"));
                    return rep;
                }
            }
        }
        let mut control = Worker::spawn("probe-default-control", &env_for(ALL_ON), &scratch).ok();
        // quick: one shape per pass is enough for the guard; thorough: every opt-shape
        let probe_ids = [
            "opt/cone/partsel", "opt/lut/chain8", "opt/lane/transpose16x8", "opt/dce/dead", "opt/hoist/shared",
            "opt/fusion/chain", "opt/vsplit/k3", "opt/loads/repeat",
        ];
        for d in designs
            .iter()
            .filter(|d| d.class == "opt" && !is_huge(d))
            .filter(|d| thorough || probe_ids.iter().any(|p| d.id.starts_with(p)))
        {
            let mut doc = load_doc(d, "jit");
            // the cone-gate shapes show in the IR shape alone (cone_segments): no second build
            doc["probe"] = json!(!d.has_tag("cone_gate"));
            let line = format!("load {}", e2::hex(doc.to_string().as_bytes()));
            let sent: Vec<Result<(), String>> = pw.iter_mut().map(|(_, w)| w.send(&line)).collect();
            let csent = control.as_mut().map(|c| c.send(&line));
            let mut shapes: BTreeMap<u32, String> = BTreeMap::new();
            for (i, (m, w)) in pw.iter_mut().enumerate() {
                if sent[i].is_ok() {
                    if let Ok(s) = w.recv() {
                        shapes.insert(*m, s);
                    }
                }
            }
            if let (Some(Ok(())), Some(c)) = (csent, control.as_mut()) {
                if let Ok(s) = c.recv() {
                    if shapes.get(&ALL_ON) != Some(&s) {
                        control_mismatch += 1;
                    }
                }
            }
            probed += 1;
            for (i, t) in TOGGLES.iter().enumerate() {
                let bit = 1u32 << i;
                for (a, b, how) in [(ALL_ON, ALL_ON & !bit, "default-minus"), (0u32, bit, "alloff-plus")] {
                    if let (Some(x), Some(y)) = (shapes.get(&a), shapes.get(&b)) {
                        if x != y {
                            fired.entry(t.0).or_default().insert(d.id.clone());
                            let (px, py) = (parse_shape(x), parse_shape(y));
                            let keys: Vec<String> = px.iter().filter(|(k, v)| py.get(*k) != Some(v)).map(|(k, _)| k.clone()).collect();
                            fired_how.entry(t.0).or_default().insert(format!("{how}:{}", keys.join(",")));
                        }
                    }
                }
            }
        }
        workers_spawned += pw.len() as u64 + 1;
    }

    'waves: for (wi, wave) in waves.iter().enumerate() {
        if ctx.elapsed() > budget {
            budget_cut = true;
            break;
        }
        // spawn the wave's workers (+ a control duplicate of the default set in wave 0)
        let mut workers: Vec<(u32, Worker)> = vec![];
        for &m in wave {
            match Worker::spawn(&set_label(m), &env_for(m), &scratch) {
                Ok(w) => workers.push((m, w)),
                Err(e) => {
                    rep.machinery(format!("cannot spawn worker {}: {e}", set_label(m)));
                    return rep;
                }
            }
        }
        workers_spawned += workers.len() as u64;

        for d in &designs {
            if ctx.elapsed() > budget {
                budget_cut = true;
                agg.not_run += 1;
                continue;
            }
            let big = is_big(d);
            let mut groups: Vec<Group> = vec![];
            if wi == 0 {
                let bb = if big { Bounds { flat_len: base_bounds.flat_len.min(2), ..base_bounds.clone() } } else { base_bounds.clone() };
                if is_huge(d) {
                    groups.push(Group { name: "jit", config: "jit", dist: 1, bounds: Bounds { flat_len: 1, ..bb.clone() }, probe: true });
                } else {
                    groups.push(Group { name: "jit", config: "jit", dist: 2, bounds: bb.clone(), probe: true });
                    if !big || thorough {
                        groups.push(Group { name: "interp", config: "interp", dist: if thorough { 2 } else { 1 }, bounds: bb.clone(), probe: false });
                    }
                    if thorough {
                        groups.push(Group { name: "jit+4st", config: "jit+4st", dist: 1, bounds: bb.clone(), probe: false });
                        if d.class == "opt" {
                            groups.push(Group { name: "cc", config: "cc", dist: 1, bounds: bb.clone(), probe: false });
                        }
                    }
                    // quick: long runs on the part-select cone shape only
                    if d.has_tag("cone_gate") && (thorough || d.id.contains("partsel")) {
                        groups.push(Group { name: "long-jit", config: "jit", dist: if thorough { 2 } else { 1 }, bounds: long_bounds.clone(), probe: false });
                        if thorough {
                            groups.push(Group { name: "long-cc", config: "cc", dist: 1, bounds: long_bounds.clone(), probe: false });
                        }
                    }
                }
            } else if !is_huge(d) {
                // later waves (thorough): the remaining subsets, JIT only
                let bb = if big { Bounds { flat_len: 1, ..base_bounds.clone() } } else { Bounds { flat_len: 2, ..base_bounds.clone() } };
                groups.push(Group { name: "jit", config: "jit", dist: 10, bounds: bb, probe: false });
            }

            for g in &groups {
                if ctx.elapsed() > budget {
                    budget_cut = true;
                    agg.not_run += 1;
                    continue;
                }
                // members of this group: all-off first
                let mut members: Vec<&mut (u32, Worker)> =
                    workers.iter_mut().filter(|(m, _)| *m == 0 || near(*m, g.dist)).collect();
                let mut doc = load_doc(d, g.config);
                // load in parallel: send to all, then collect
                let mut sent = vec![];
                for (m, w) in members.iter_mut().map(|x| (&x.0, &mut x.1)) {
                    let _ = (m, g.probe);
                    doc["probe"] = json!(false);
                    w.four = g.config.contains("4st");
                    sent.push(w.send(&format!("load {}", e2::hex(doc.to_string().as_bytes()))));
                }
                let mut shapes: BTreeMap<u32, String> = BTreeMap::new();
                let mut load_err: Vec<(u32, String)> = vec![];
                for (i, x) in members.iter_mut().enumerate() {
                    let r = match &sent[i] {
                        Ok(()) => x.1.recv(),
                        Err(e) => Err(e.clone()),
                    };
                    match r {
                        Ok(s) => {
                            x.1.shape = s.clone();
                            shapes.insert(x.0, s);
                        }
                        Err(e) => load_err.push((x.0, e)),
                    }
                }
                if load_err.iter().any(|(m, _)| *m == 0) {
                    let why = load_err.iter().find(|(m, _)| *m == 0).unwrap().1.clone();
                    *agg.load_skipped.entry(format!("{}: {}", g.config, why.chars().take(90).collect::<String>())).or_default() += 1;
                    continue;
                }
                if let Some((m, e)) = load_err.first() {
                    if e.contains("closed its pipe") {
                        rep.machinery(format!("worker {} died while loading {}: {e}", set_label(*m), d.id));
                        break 'waves;
                    }
                    let v = Violation {
                        signature: format!("C03:load:{}:{}:{}", set_label(*m), g.config, template_of(&d.id)),
                        what: format!("design {} builds with all passes off but fails with toggle set {}: {e}", d.id, set_label(*m)),
                        case: json!({"design": design_case(d, &[], &[g.config.to_string()]), "toggle_env": env_for(*m)}),
                        expected: json!("build succeeds under every toggle subset"),
                        observed: json!(e),
                    };
                    if sigs.insert(v.signature.clone()) {
                        rep.violation(v);
                    }
                    continue;
                }
                // explore (a group that started before the cut may not run far past it)
                let mut gb = g.bounds.clone();
                let remaining = (budget * 1.15 - ctx.elapsed()).max(1.0);
                gb.deadline = Some(std::time::Instant::now() + std::time::Duration::from_secs_f64(remaining));
                let mut st = Stats::default();
                let member_masks: Vec<u32> = members.iter().map(|x| x.0).collect();
                let outcome = {
                    let mut ms: Vec<Box<dyn Machine + '_>> =
                        members.iter_mut().map(|x| Box::new(&mut x.1) as Box<dyn Machine + '_>).collect();
                    e2::explore(&mut ms, d.letters(), &gb, &mut st)
                };
                agg.explorations += 1;
                *agg.per_config.entry(g.name.to_string()).or_default() += 1;
                agg.states += st.states;
                agg.transitions += st.transitions;
                agg.flat += st.flat_sequences;
                agg.long_runs += st.long_runs;
                agg.steps += st.steps;
                agg.compares += st.compares;
                agg.distinct += st.distinct_obs.len() as u64;
                if st.distinct_obs.len() >= 2 || g.bounds.long_only {
                    agg.nontrivial += 1;
                }
                sets_done.extend(member_masks.iter().copied());
                match outcome {
                    Outcome::Ok => {
                        if !st.exhaustive() {
                            agg.capped += 1;
                        }
                        if agg.explorations % 37 == 1 {
                            rep.sample(json!({"design": d.id, "group": g.name, "machines": member_masks.len(),
                                "states": st.states, "transitions": st.transitions, "flat": st.flat_sequences, "long_runs": st.long_runs}));
                        }
                    }
                    Outcome::Diverged(dv) => {
                        let mask = member_masks
                            .iter()
                            .copied()
                            .find(|m| set_label(*m) == dv.machine_b)
                            .unwrap_or(ALL_ON);
                        let port = dv.port.and_then(|i| d.outputs.get(i)).map(|p| p.name.clone());
                        // which toggle literals separate the diverging sets from the agreeing ones?
                        let diverging: Vec<u32> =
                            member_masks.iter().copied().filter(|m| dv.others.contains(&set_label(*m))).collect();
                        let agreeing: Vec<u32> =
                            member_masks.iter().copied().filter(|m| !dv.others.contains(&set_label(*m))).collect();
                        let cube = if diverging.is_empty() { dv.machine_b.clone() } else { separating_cube(&diverging, &agreeing) };
                        let v = Violation {
                            signature: format!("C03:{}:{}", cube, dv.kind),
                            what: format!(
                                "toggle set {} changes behaviour of design {} on engine {} after {} step(s){}{}",
                                dv.machine_b,
                                d.id,
                                g.config,
                                dv.at,
                                port.as_ref().map(|p| format!(" at port {p}")).unwrap_or_default(),
                                if dv.reproducible { "" } else { " (NOT reproducible on re-execution)" }
                            ),
                            case: json!({"design": design_case(d, &dv.path, &[g.config.to_string()]),
                                "toggle_env": env_for(mask), "baseline_env": env_for(0), "group": g.name,
                                "diverging_sets": diverging.iter().map(|m| set_label(*m)).collect::<Vec<_>>(),
                                "agreeing_sets": agreeing.len(),
                                "long": g.bounds.long_only}),
                            expected: json!({"toggles": "all-off", "observation": dv.expected}),
                            observed: json!({"toggles": dv.machine_b, "observation": dv.observed, "port": port, "kind": dv.kind}),
                        };
                        if sigs.insert(v.signature.clone()) {
                            rep.violation(v);
                        }
                    }
                    Outcome::Machinery(e) => {
                        if e.contains("panic:") {
                            let who = e.split(':').next().unwrap_or("?").to_string();
                            let v = Violation {
                                signature: format!("C03:panic:{who}:{}:{}", g.config, template_of(&d.id)),
                                what: format!("a worker panics while stepping design {}: {e}", d.id),
                                case: json!({"design": design_case(d, &[], &[g.config.to_string()])}),
                                expected: json!("no panic under any toggle subset"),
                                observed: json!(e),
                            };
                            if sigs.insert(v.signature.clone()) {
                                rep.violation(v);
                            }
                        } else {
                            rep.machinery(format!("{} [{}]: {e}", d.id, g.name));
                            if e.contains("closed its pipe") {
                                break 'waves;
                            }
                        }
                    }
                }
            }
        }
        drop(workers);
    }

    // ---- evidence ------------------------------------------------------------------------------------
    let requested_sets = sets.len() as u64;
    rep.set("toggle_sets_requested", requested_sets);
    rep.set("toggle_sets_explored", sets_done.len() as u64);
    rep.set("hamming_distance_bound", if thorough { 10u64 } else { 2u64 });
    rep.set("worker_processes", workers_spawned);
    rep.set("designs", designs.len() as u64);
    rep.set("explorations", agg.explorations);
    rep.set("explorations_nontrivial", agg.nontrivial);
    rep.set("explorations_capped", agg.capped);
    rep.set("explorations_not_run_budget", agg.not_run);
    rep.set("states", agg.states);
    rep.set("transitions", agg.transitions);
    rep.set("flat_sequences_no_dedup", agg.flat);
    rep.set("long_runs", agg.long_runs);
    rep.set("long_run_steps", 2200u64);
    rep.set("machine_steps", agg.steps);
    rep.set("traces_validated_against_impl", agg.compares);
    rep.set("distinct_outputs", agg.distinct);
    rep.set("per_group_explorations", json!(agg.per_config));
    rep.set("designs_skipped_baseline_load_error", json!(agg.load_skipped));
    rep.set(
        "passes_fired_on_designs",
        json!(TOGGLES.iter().map(|t| (t.0.to_string(), fired.get(t.0).map(|s| s.len()).unwrap_or(0))).collect::<BTreeMap<_, _>>()),
    );
    rep.set("passes_fired_evidence", json!(fired_how));
    rep.set("probe_control_mismatches", control_mismatch);
    rep.set("designs_probed", probed);
    rep.set("exhaustive", !budget_cut && agg.capped == 0 && agg.not_run == 0 && sets_done.len() as u64 == requested_sets);
    rep.set(
        "rule",
        "one subprocess per toggle subset (env vars are process-global OnceLocks); per design N-way lock-step against the all-off process: BFS over all input letters (dedup on all machines' variable digests + last letter), all sequences of length <= flat_len, long periodic runs from a fresh simulator for cone-gate shapes; every observation (ports + $display text) must equal the all-off process's",
    );
    rep.assume("toggle semantics: pass ON = variable unset (or cleared), OFF = VERYL_x=0 / VERYL_x_DISABLE=1 as read by the simulator sources");
    rep.assume("a divergence names the toggle set of the first diverging machine (machines ordered by number of passes on)");
    if agg.explorations == 0 {
        rep.machinery("vacuity guard: nothing was explored");
    } else {
        for t in TOGGLES.iter() {
            if fired.get(t.0).map(|s| s.len()).unwrap_or(0) == 0 {
                rep.machinery(format!("vacuity guard: pass {} never changed the IR or the generated code of any design (not_exercised)", t.0));
            }
        }
        if control_mismatch > 0 {
            rep.machinery(format!("vacuity guard unreliable: {control_mismatch} probe shapes differ between two identical default processes"));
        }
    }
    if agg.nontrivial * 2 < agg.explorations {
        rep.machinery("vacuity guard: fewer than half of the explorations showed >= 2 distinct observations");
    }
    rep
}

pub fn replay(doc: &serde_json::Value) -> i32 {
    let case = &doc["case"];
    let Some(d) = super::c02::design_from_case(&case["design"]) else {
        eprintln!("replay: malformed case");
        return 2;
    };
    let path: Vec<u32> = case["design"]["path"].as_array().map(|a| a.iter().filter_map(|x| x.as_u64().map(|v| v as u32)).collect()).unwrap_or_default();
    let config = case["design"]["engines"][0].as_str().unwrap_or("jit").to_string();
    let envs = |k: &str| -> Vec<(String, String)> {
        case[k]
            .as_array()
            .map(|a| a.iter().filter_map(|p| Some((p[0].as_str()?.to_string(), p[1].as_str()?.to_string()))).collect())
            .unwrap_or_default()
    };
    let ctx = Ctx::new("C03-replay", Tier::Quick);
    let scratch = ctx.dir("w");
    let long = case["long"].as_bool().unwrap_or(false);
    let mut traces = vec![];
    for (label, env) in [("all-off", envs("baseline_env")), ("toggled", envs("toggle_env"))] {
        let mut w = match Worker::spawn(label, &env, &scratch) {
            Ok(w) => w,
            Err(e) => {
                eprintln!("{e}");
                return 2;
            }
        };
        if let Err(e) = w.load(&load_doc(&d, &config)) {
            println!("{label}: load error {e}");
            traces.push(vec![format!("load error {e}")]);
            continue;
        }
        let t = if long { w.run_long_trace(&path, path.len()) } else { w.run_trace(&path) };
        match t {
            Ok(t) => {
                println!("{label:>8}: {}", t.iter().rev().take(6).rev().cloned().collect::<Vec<_>>().join(" -> "));
                traces.push(t);
            }
            Err(e) => {
                println!("{label}: {e}");
                traces.push(vec![e]);
            }
        }
    }
    if traces[0] != traces[1] {
        println!("still failing: traces differ");
        1
    } else {
        println!("traces agree");
        0
    }
}

//! DF — the generated finite design family shared by the simulation-equivalence checks.
//!
//! Every member is a complete Veryl source with one top module `Top` whose data inputs total at
//! most 4 bits (so the input alphabet can be enumerated), at most one clock and one reset, and any
//! number of outputs. Members are built from templates; the family is the full cross product
//! inside each template (operators x operand widths x signedness x result widths ...).
//! `core` members form the quick tier (every template at least once).

use serde::{Deserialize, Serialize};

#[derive(Clone, Copy, Debug, PartialEq, Eq, Serialize, Deserialize)]
pub enum ClkKind {
    /// `clock`: edge from `[build] clock_type`
    Default,
    /// `clock_posedge`
    Pos,
    /// `clock_negedge`
    Neg,
}

#[derive(Clone, Copy, Debug, PartialEq, Eq, Serialize, Deserialize)]
pub enum RstKind {
    /// `reset`: polarity/synchronicity from `[build] reset_type`
    Default,
    AsyncHigh,
    AsyncLow,
    SyncHigh,
    SyncLow,
}

#[derive(Clone, Debug, Serialize, Deserialize)]
pub struct Port {
    pub name: String,
    pub width: usize,
    pub signed: bool,
}

#[derive(Clone, Debug, Serialize, Deserialize)]
pub struct DesignCase {
    pub id: String,
    /// template class (part of a finding's signature)
    pub class: String,
    pub core: bool,
    pub src: String,
    pub inputs: Vec<Port>,
    pub outputs: Vec<Port>,
    pub clock: Option<(String, ClkKind)>,
    pub reset: Option<(String, RstKind)>,
}

fn ty(w: usize, signed: bool) -> String {
    let s = if signed { "signed " } else { "" };
    if w == 1 { format!("{s}logic") } else { format!("{s}logic<{w}>") }
}

pub fn pin(name: &str, width: usize, signed: bool) -> Port {
    Port { name: name.to_string(), width, signed }
}

fn clk_ty(k: ClkKind) -> &'static str {
    match k {
        ClkKind::Default => "clock",
        ClkKind::Pos => "clock_posedge",
        ClkKind::Neg => "clock_negedge",
    }
}
fn rst_ty(k: RstKind) -> &'static str {
    match k {
        RstKind::Default => "reset",
        RstKind::AsyncHigh => "reset_async_high",
        RstKind::AsyncLow => "reset_async_low",
        RstKind::SyncHigh => "reset_sync_high",
        RstKind::SyncLow => "reset_sync_low",
    }
}

struct B {
    out: Vec<DesignCase>,
    /// write the implicit clock domain annotation `'_` on every port (needed with derived clocks)
    annot: bool,
}

impl B {
    /// `pre`: items before `Top` (packages, sub-modules, interfaces); `body`: items of `Top`.
    #[allow(clippy::too_many_arguments)]
    fn add(&mut self, id: &str, class: &str, core: bool, pre: &str, ins: Vec<Port>, outs: Vec<Port>, clk: Option<ClkKind>, rst: Option<RstKind>, body: &str) {
        let mut ports = vec![];
        let an = if self.annot { "'_ " } else { "" };
        if let Some(k) = clk {
            ports.push(format!("    clk: input {an}{},", clk_ty(k)));
        }
        if let Some(k) = rst {
            ports.push(format!("    rst: input {an}{},", rst_ty(k)));
        }
        for p in &ins {
            ports.push(format!("    {}: input {an}{},", p.name, ty(p.width, p.signed)));
        }
        for p in &outs {
            ports.push(format!("    {}: output {an}{},", p.name, ty(p.width, p.signed)));
        }
        let mut src = String::new();
        if !pre.is_empty() {
            src.push_str(pre.trim_matches('\n'));
            src.push_str("\n\n");
        }
        src.push_str(&format!("module Top (\n{}\n) {{\n{}\n}}\n", ports.join("\n"), body.trim_matches('\n')));
        let nbits: usize = ins.iter().map(|p| p.width).sum();
        assert!(nbits <= 4, "{id}: {nbits} input bits");
        assert!(!self.out.iter().any(|d| d.id == id), "duplicate design id {id}");
        self.out.push(DesignCase {
            id: id.to_string(),
            class: class.to_string(),
            core,
            src,
            inputs: ins,
            outputs: outs,
            clock: clk.map(|k| ("clk".to_string(), k)),
            reset: rst.map(|k| ("rst".to_string(), k)),
        });
    }
}

fn su(s: bool) -> &'static str {
    if s { "s" } else { "u" }
}

/// (Veryl operator, name)
const ARITH: [(&str, &str); 6] = [("+", "add"), ("-", "sub"), ("*", "mul"), ("/", "div"), ("%", "mod"), ("**", "pow")];
const SHIFT: [(&str, &str); 4] = [("<<", "shl"), (">>", "shr"), ("<<<", "ashl"), (">>>", "ashr")];
const BITWISE: [(&str, &str); 4] = [("&", "and"), ("|", "or"), ("^", "xor"), ("~^", "xnor")];
const COMPARE: [(&str, &str); 8] = [("<:", "lt"), ("<=", "le"), (">:", "gt"), (">=", "ge"), ("==", "eq"), ("!=", "ne"), ("==?", "weq"), ("!=?", "wne")];
const LOGICAL: [(&str, &str); 2] = [("&&", "land"), ("||", "lor")];
const UNARY_CTX: [(&str, &str); 3] = [("+", "plus"), ("-", "neg"), ("~", "not")];
const UNARY_RED: [(&str, &str); 7] = [("!", "lnot"), ("&", "rand"), ("|", "ror"), ("^", "rxor"), ("~&", "rnand"), ("~|", "rnor"), ("~^", "rxnor")];

fn expr_binary(b: &mut B) {
    let pairs: [(usize, usize); 6] = [(2, 2), (1, 1), (1, 2), (2, 1), (1, 3), (3, 1)];
    for (pi, (wa, wb)) in pairs.iter().enumerate() {
        for sa in [false, true] {
            for sb in [false, true] {
                let tag = format!("{}{}{}{}", su(sa), wa, su(sb), wb);
                let ins = vec![pin("a", *wa, sa), pin("b", *wb, sb)];
                let wm = *wa.max(wb);
                // context-determined result: narrower than / equal to / wider than the operands
                let mut ctx_widths = vec![1usize, wm, 6];
                ctx_widths.dedup();
                for (group, ops) in [("arith", &ARITH[..]), ("shift", &SHIFT[..]), ("bitwise", &BITWISE[..])] {
                    let mut outs = vec![];
                    let mut body = String::new();
                    for (op, name) in ops {
                        for &w in &ctx_widths {
                            let pn = format!("y_{name}_{w}");
                            body.push_str(&format!("    assign {pn} = a {op} b;\n"));
                            outs.push(pin(&pn, w, false));
                        }
                        // signed target: the right-hand side is still evaluated by its own rules
                        let pn = format!("y_{name}_s5");
                        body.push_str(&format!("    assign {pn} = a {op} b;\n"));
                        outs.push(pin(&pn, 5, true));
                    }
                    b.add(&format!("expr.{group}.{tag}"), &format!("expr.{group}"), pi == 0, "", ins.clone(), outs, None, None, &body);
                }
                for (group, ops) in [("compare", &COMPARE[..]), ("logical", &LOGICAL[..])] {
                    let mut outs = vec![];
                    let mut body = String::new();
                    for (op, name) in ops {
                        for w in [1usize, 3] {
                            let pn = format!("y_{name}_{w}");
                            body.push_str(&format!("    assign {pn} = a {op} b;\n"));
                            outs.push(pin(&pn, w, false));
                        }
                    }
                    b.add(&format!("expr.{group}.{tag}"), &format!("expr.{group}"), pi == 0, "", ins.clone(), outs, None, None, &body);
                }
            }
        }
    }
}

fn expr_unary(b: &mut B) {
    for wa in 1..=4usize {
        for sa in [false, true] {
            let tag = format!("{}{}", su(sa), wa);
            let ins = vec![pin("a", wa, sa)];
            let mut outs = vec![];
            let mut body = String::new();
            for (op, name) in UNARY_CTX {
                let mut ws = vec![1usize, wa, 6];
                ws.dedup();
                for w in ws {
                    let pn = format!("y_{name}_{w}");
                    body.push_str(&format!("    assign {pn} = {op}a;\n"));
                    outs.push(pin(&pn, w, false));
                }
            }
            for (op, name) in UNARY_RED {
                for w in [1usize, 3] {
                    let pn = format!("y_{name}_{w}");
                    body.push_str(&format!("    assign {pn} = {op}a;\n"));
                    outs.push(pin(&pn, w, false));
                }
            }
            b.add(&format!("expr.unary.{tag}"), "expr.unary", wa == 3, "", ins, outs, None, None, &body);
        }
    }
}

/// nested expressions where context width / signedness propagation matters
fn expr_context(b: &mut B) {
    let pairs: [(usize, usize); 3] = [(2, 2), (1, 3), (3, 1)];
    for (pi, (wa, wb)) in pairs.iter().enumerate() {
        for sa in [false, true] {
            for sb in [false, true] {
                let tag = format!("{}{}{}{}", su(sa), wa, su(sb), wb);
                let ins = vec![pin("a", *wa, sa), pin("b", *wb, sb)];
                let exprs: Vec<(&str, usize, String)> = vec![
                    ("addshr", 4, "(a + b) >> 1".into()),
                    ("addshr", 2, "(a + b) >> 1".into()),
                    ("addshr", 6, "(a + b) >> 1".into()),
                    ("subashr", 5, "(a - b) >>> 1".into()),
                    ("mulshr", 6, "(a * b) >> 1".into()),
                    ("shlshr", 4, "(a << 1) >> 1".into()),
                    ("shlshr", 2, "(a << 1) >> 1".into()),
                    ("notshr", 4, "~a >> 1".into()),
                    ("negshr", 5, "-a >> 1".into()),
                    ("addcmp", 1, "(a + b) >: b".into()),
                    ("addeq", 1, "(a + b) == 0".into()),
                    ("cmpadd", 3, "(a == b) + (a <: b) + (a >= b)".into()),
                    ("concatadd", 5, "{a + b}".into()),
                    ("concat", 6, "{a, b} + 1".into()),
                    ("cond", 5, "if a[0] ? a : b".into()),
                    ("condadd", 5, "(if b[0] ? a : b) + a".into()),
                    ("shvar", 5, "(a << b) | a".into()),
                    ("ashrvar", 5, "(a >>> b) + b".into()),
                    ("shrhs", 5, "a << (b + 1)".into()),
                    ("divadd", 5, "a / (b | 1) + a % (b | 1)".into()),
                    ("powadd", 6, "a ** 2 + b".into()),
                    ("redadd", 3, "&a + |b + ^a".into()),
                    ("mixed", 6, "a + b * a - b".into()),
                    ("nest", 6, "(a ^ b) + ~(a & b)".into()),
                    ("lognot", 4, "!a + !b".into()),
                    ("lit", 6, format!("a + {}'d3 - b", 3)),
                    ("slit", 6, "a + 4'sd9 + b".into()),
                ];
                let mut outs = vec![];
                let mut body = String::new();
                for (name, w, e) in exprs {
                    let pn = format!("y_{name}_{w}");
                    body.push_str(&format!("    assign {pn} = {e};\n"));
                    outs.push(pin(&pn, w, false));
                }
                b.add(&format!("expr.context.{tag}"), "expr.context", pi == 0, "", ins, outs, None, None, &body);
            }
        }
    }
}

fn expr_misc(b: &mut B) {
    // selects, concatenation, casts, inside/outside, conditional expressions
    for sa in [false, true] {
        let tag = su(sa);
        // a: 3 bits, i: 1 bit
        let body = r#"
    assign y_bit0 = a[0];
    assign y_bitmsb = a[msb];
    assign y_bitlsb = a[lsb];
    assign y_bitvar = a[i];
    assign y_part_2 = a[2:1];
    assign y_partup_2 = a[1+:2];
    assign y_partdn_2 = a[2-:2];
    assign y_partvar_2 = a[i+:2];
    assign y_partext_4 = a[1:0];
    assign y_cat_4 = {a, i};
    assign y_catrep_6 = {a[1:0] repeat 2, i repeat 2};
    assign y_rep_6 = {a repeat 2};
    assign y_catlit_5 = {2'b10, a};
"#;
        let outs = vec![
            pin("y_bit0", 1, false),
            pin("y_bitmsb", 1, false),
            pin("y_bitlsb", 1, false),
            pin("y_bitvar", 1, false),
            pin("y_part_2", 2, false),
            pin("y_partup_2", 2, false),
            pin("y_partdn_2", 2, false),
            pin("y_partvar_2", 2, false),
            pin("y_partext_4", 4, false),
            pin("y_cat_4", 4, false),
            pin("y_catrep_6", 6, false),
            pin("y_rep_6", 6, false),
            pin("y_catlit_5", 5, false),
        ];
        b.add(&format!("expr.select.{tag}"), "expr.select", !sa, "", vec![pin("a", 3, sa), pin("i", 1, false)], outs, None, None, body);

        // casts
        let body = r#"
    assign y_castw_4 = a as 4;
    assign y_castw_2 = a as 2;
    assign y_castu8_6 = (a as u8) >> 1;
    assign y_casti8_6 = (a as i8) >>> 1;
    assign y_castadd_6 = (a as 5) + b;
    assign y_castcmp = (a as i8) <: (b as i8);
"#;
        let outs = vec![pin("y_castw_4", 4, false), pin("y_castw_2", 2, false), pin("y_castu8_6", 6, false), pin("y_casti8_6", 6, false), pin("y_castadd_6", 6, false), pin("y_castcmp", 1, false)];
        b.add(&format!("expr.cast.{tag}"), "expr.cast", !sa, "", vec![pin("a", 3, sa), pin("b", 1, sa)], outs, None, None, body);

        // inside / outside / if / case / switch expressions
        let body = r#"
    assign y_inside = inside a {1, 3..=4, 6};
    assign y_outside = outside a {0..2, 5};
    assign y_ifexpr_3 = if a == 1 ? 3'd5 : if a >: 4 ? 3'd2 : a;
    assign y_caseexpr_3 = case a {
        0      : 3'd7,
        1, 2   : 3'd1,
        3..=5  : a + 3'd1,
        default: 3'd0,
    };
    assign y_switchexpr_3 = switch {
        a == 0     : 3'd3,
        a <: 3, b  : 3'd4,
        default    : ~a,
    };
"#;
        let outs = vec![pin("y_inside", 1, false), pin("y_outside", 1, false), pin("y_ifexpr_3", 3, false), pin("y_caseexpr_3", 3, false), pin("y_switchexpr_3", 3, false)];
        b.add(&format!("expr.choice.{tag}"), "expr.choice", !sa, "", vec![pin("a", 3, sa), pin("b", 1, false)], outs, None, None, body);
    }
}

fn stmts(b: &mut B) {
    // if / else if / else
    let body = r#"
    always_comb {
        if a == 0 {
            y_if_3 = 3'd1;
        } else if a[0] && c {
            y_if_3 = a + 3'd1;
        } else if a >: 5 {
            y_if_3 = {c, a[1:0]};
        } else {
            y_if_3 = ~a;
        }
    }
    always_comb {
        y_nest_3 = 0;
        if c {
            if a[2] {
                y_nest_3 = 3'd6;
            } else {
                y_nest_3 = a;
            }
        } else {
            if a[1:0] == 2'd3 {
                y_nest_3 = 3'd1;
            }
        }
    }
"#;
    b.add("stmt.if", "stmt.if", true, "", vec![pin("a", 3, false), pin("c", 1, false)], vec![pin("y_if_3", 3, false), pin("y_nest_3", 3, false)], None, None, body);

    // case / switch statements
    let body = r#"
    always_comb {
        case a {
            0      : y_case_3 = 3'd7;
            1, 2   : y_case_3 = 3'd1;
            3..=5  : {
                y_case_3 = a + 3'd1;
            }
            default: y_case_3 = {c, 2'b01};
        }
    }
    always_comb {
        y_casend_3 = 3'd2;
        case {c, a[0]} {
            2'b00: y_casend_3 = 3'd4;
            2'b11: y_casend_3 = a;
        }
    }
    always_comb {
        switch {
            a == 0       : y_switch_3 = 3'd3;
            a <: 3, c    : y_switch_3 = 3'd4;
            a[2] && !c   : {
                y_switch_3 = a - 3'd1;
            }
            default      : y_switch_3 = ~a;
        }
    }
    always_comb {
        case a[1:0] {
            2'b0x  : y_casex_2 = 2'd1;
            2'b10  : y_casex_2 = 2'd2;
            default: y_casex_2 = 2'd3;
        }
    }
"#;
    b.add(
        "stmt.case",
        "stmt.case",
        true,
        "",
        vec![pin("a", 3, false), pin("c", 1, false)],
        vec![pin("y_case_3", 3, false), pin("y_casend_3", 3, false), pin("y_switch_3", 3, false), pin("y_casex_2", 2, false)],
        None,
        None,
        body,
    );

    // for loops
    let body = r#"
    always_comb {
        y_pop_3 = 0;
        for i in 0..4 {
            if a[i] {
                y_pop_3 += 1;
            }
        }
    }
    always_comb {
        for i in 0..4 {
            y_rev_4[i] = a[3 - i];
        }
    }
    always_comb {
        y_first_3 = 3'd4;
        for i in rev 0..4 {
            if a[i] {
                y_first_3 = i;
            }
        }
    }
    always_comb {
        y_brk_3 = 3'd7;
        for i in 0..=3 {
            if a[i] {
                y_brk_3 = i;
                break;
            }
        }
    }
    always_comb {
        y_step_2 = 0;
        for i in 0..4 step += 2 {
            y_step_2[i / 2] = a[i] ^ a[i + 1];
        }
    }
    always_comb {
        y_nested_4 = 0;
        for i in 0..2 {
            for j in 0..2 {
                y_nested_4[i * 2 + j] = a[i] & a[j + 2];
            }
        }
    }
"#;
    b.add(
        "stmt.for",
        "stmt.for",
        true,
        "",
        vec![pin("a", 4, false)],
        vec![pin("y_pop_3", 3, false), pin("y_rev_4", 4, false), pin("y_first_3", 3, false), pin("y_brk_3", 3, false), pin("y_step_2", 2, false), pin("y_nested_4", 4, false)],
        None,
        None,
        body,
    );

    // let / var in blocks, compound assignments
    for sa in [false, true] {
        let body = r#"
    always_comb {
        let t: logic<4> = a + 1;
        var u: logic<4>;
        u      = t << 1;
        y_let_4 = u | b;
    }
    always_comb {
        y_cadd_4 = a;
        y_cadd_4 += b;
        y_cadd_4 -= 4'd3;
    }
    always_comb {
        y_cmul_4 = a;
        y_cmul_4 *= 4'd3;
        y_cmul_4 ^= 4'd5;
    }
    always_comb {
        y_cshl_4 = a;
        y_cshl_4 <<= 1;
        y_cshl_4 |= b;
    }
    always_comb {
        y_cshr_4 = a;
        y_cshr_4 >>= b;
    }
    always_comb {
        y_cashr_s4 = a;
        y_cashr_s4 >>>= 1;
    }
    always_comb {
        y_cdiv_4 = a;
        y_cdiv_4 /= 4'd2;
        y_cdiv_4 %= 4'd3;
        y_cdiv_4 &= 4'd7;
    }
"#;
        b.add(
            &format!("stmt.assign.{}", su(sa)),
            "stmt.assign",
            !sa,
            "",
            vec![pin("a", 3, sa), pin("b", 1, sa)],
            vec![pin("y_let_4", 4, false), pin("y_cadd_4", 4, false), pin("y_cmul_4", 4, false), pin("y_cshl_4", 4, false), pin("y_cshr_4", 4, false), pin("y_cashr_s4", 4, true), pin("y_cdiv_4", 4, false)],
            None,
            None,
            body,
        );
    }
}

fn seq_body(which: &str) -> (&'static str, Vec<Port>, Vec<Port>, &'static str) {
    match which {
        // plain register + counter + enable FF
        "reg" => (
            "seq.reg",
            vec![pin("d", 2, false), pin("en", 1, false)],
            vec![pin("q", 2, false), pin("cnt", 3, false), pin("qe", 2, false), pin("comb", 3, false)],
            r#"
    always_ff {
        if_reset {
            q = 2'd2;
        } else {
            q = d;
        }
    }
    always_ff (clk, rst) {
        if_reset {
            cnt = 0;
        } else if en {
            cnt += 1;
        }
    }
    always_ff {
        if_reset {
            qe = 2'd1;
        } else if en {
            qe = d ^ q;
        }
    }
    assign comb = cnt + {1'b0, q};
"#,
        ),
        "shift" => (
            "seq.shift",
            vec![pin("d", 1, false), pin("en", 1, false)],
            vec![pin("sr", 4, false), pin("tap", 1, false)],
            r#"
    always_ff {
        if_reset {
            sr = 4'b0001;
        } else if en {
            sr = {sr[2:0], d};
        }
    }
    assign tap = sr[3] ^ sr[0];
"#,
        ),
        "fsm" => (
            "seq.fsm",
            vec![pin("go", 1, false), pin("stop", 1, false)],
            vec![pin("st", 2, false), pin("busy", 1, false), pin("done", 1, false)],
            r#"
    enum State: logic<2> {
        Idle,
        Run,
        Wait,
        Done,
    }
    var state: State;
    always_ff {
        if_reset {
            state = State::Idle;
        } else {
            case state {
                State::Idle: if go {
                    state = State::Run;
                }
                State::Run: if stop {
                    state = State::Wait;
                } else if go {
                    state = State::Done;
                }
                State::Wait: state = State::Done;
                default    : state = State::Idle;
            }
        }
    }
    assign st   = state;
    assign busy = state == State::Run || state == State::Wait;
    assign done = state == State::Done;
"#,
        ),
        "array" => (
            "seq.array",
            vec![pin("d", 2, false), pin("wa", 1, false), pin("ra", 1, false)],
            vec![pin("rd", 2, false), pin("sum", 3, false)],
            r#"
    var mem: logic<2> [2];
    always_ff {
        if_reset {
            for i in 0..2 {
                mem[i] = i + 1;
            }
        } else {
            mem[wa] = d;
        }
    }
    assign rd  = mem[ra];
    assign sum = mem[0] + mem[1];
"#,
        ),
        "local" => (
            "seq.local",
            vec![pin("d", 2, false), pin("en", 1, false)],
            vec![pin("acc", 3, false), pin("par", 1, false)],
            r#"
    always_ff {
        if_reset {
            acc = 0;
            par = 0;
        } else {
            var t: logic<3>;
            t = acc + d;
            if en {
                t = t + 1;
            }
            acc = t;
            par ^= ^d;
        }
    }
"#,
        ),
        "pair" => (
            "seq.pair",
            vec![pin("d", 2, false), pin("sw", 1, false)],
            vec![pin("x", 2, false), pin("y", 2, false)],
            r#"
    always_ff {
        if_reset {
            x = 2'd1;
            y = 2'd2;
        } else if sw {
            x = y;
            y = x;
        } else {
            x = d;
        }
    }
"#,
        ),
        // write pointer updated by an earlier always_ff used as a dynamic index in a later one
        "dynidx" => (
            "seq.dynidx",
            vec![pin("we", 1, false), pin("wd", 1, false)],
            vec![pin("y", 4, false), pin("p", 2, false)],
            r#"
    var wp: logic<2>;
    always_ff (clk, rst) {
        if_reset {
            wp = 0;
        } else if we {
            wp = wp + 1;
        }
    }
    always_ff (clk, rst) {
        if_reset {
            y = 0;
        } else if we {
            y[wp] = wd;
        }
    }
    assign p = wp;
"#,
        ),
        // same with the reader declared first
        "dynidx2" => (
            "seq.dynidx2",
            vec![pin("we", 1, false), pin("wd", 1, false)],
            vec![pin("y", 4, false), pin("p", 2, false)],
            r#"
    var wp: logic<2>;
    always_ff (clk, rst) {
        if_reset {
            y = 0;
        } else if we {
            y[wp] = wd;
        }
    }
    always_ff (clk, rst) {
        if_reset {
            wp = 0;
        } else if we {
            wp = wp + 1;
        }
    }
    assign p = wp;
"#,
        ),
        // struct-typed and 2-D packed registers, signed arithmetic, concatenation on the left
        "structreg" => (
            "seq.structreg",
            vec![pin("d", 3, true), pin("sel", 1, false)],
            vec![pin("o", 4, false), pin("acc", 4, true), pin("hi", 2, false), pin("lo", 2, false)],
            r#"
    struct Pair {
        a: logic<2>,
        b: logic<2>,
    }
    var r: Pair;
    var m: logic<2, 2>;
    always_ff {
        if_reset {
            r   = 0;
            m   = 4'b0110;
            acc = -4'sd2;
        } else {
            if sel {
                r.a = d[1:0];
                m[1] = m[0];
            } else {
                r.b = r.a + 2'd1;
                m[0] = d[2:1];
            }
            acc = (acc >>> 1) + d;
        }
    }
    assign o = r ^ m;
    always_comb {
        {hi, lo} = m;
    }
"#,
        ),
        _ => unreachable!(),
    }
}

fn seqs(b: &mut B) {
    for which in ["reg", "shift", "fsm", "array", "local", "pair", "dynidx", "dynidx2", "structreg"] {
        let (class, ins, outs, body) = seq_body(which);
        b.add(class, class, true, "", ins, outs, Some(ClkKind::Default), Some(RstKind::Default), body);
    }
    // explicit clock / reset port types (these ignore [build] clock_type / reset_type)
    for which in ["reg", "fsm"] {
        for ck in [ClkKind::Default, ClkKind::Pos, ClkKind::Neg] {
            for rk in [RstKind::Default, RstKind::AsyncHigh, RstKind::AsyncLow, RstKind::SyncHigh, RstKind::SyncLow] {
                if ck == ClkKind::Default && rk == RstKind::Default {
                    continue;
                }
                let (class, ins, outs, body) = seq_body(which);
                let id = format!("{class}.{}.{}", clk_ty(ck), rst_ty(rk));
                let core = which == "reg";
                b.add(&id, &format!("{class}.explicit"), core, "", ins, outs, Some(ck), Some(rk), body);
            }
        }
    }
    // gated (derived) clock: the reset reaches the register only asynchronously while the gate is closed
    let body = r#"
    let clk_g: '_ clock_posedge = clk & en;
    always_ff (clk_g, rst) {
        if_reset {
            q = 2'd1;
        } else {
            q = d;
        }
    }
    always_ff (clk, rst) {
        if_reset {
            n = 0;
        } else {
            n = n + 1;
        }
    }
"#;
    b.annot = true;
    b.add(
        "seq.gated",
        "seq.gated",
        true,
        "",
        vec![pin("d", 2, false), pin("en", 1, false)],
        vec![pin("q", 2, false), pin("n", 1, false)],
        Some(ClkKind::Pos),
        Some(RstKind::Default),
        body,
    );
    b.annot = false;
    // a register without reset behind a reset one (x on the SV side until loaded)
    let body = r#"
    var s0: logic<2>;
    always_ff {
        if_reset {
            s0 = 0;
        } else {
            s0 = d;
        }
    }
    always_ff {
        q = s0 + 2'd1;
    }
"#;
    b.add("seq.noreset", "seq.noreset", false, "", vec![pin("d", 2, false)], vec![pin("q", 2, false)], Some(ClkKind::Default), Some(RstKind::Default), body);
    // clock only, no reset port
    let body = r#"
    always_ff {
        q = d;
    }
    assign nq = ~q;
"#;
    b.add("seq.clkonly", "seq.clkonly", true, "", vec![pin("d", 2, false)], vec![pin("q", 2, false), pin("nq", 2, false)], Some(ClkKind::Default), None, body);
}

fn structs(b: &mut B) {
    // functions
    let body = r#"
    function Inc (
        v: input logic<3>,
    ) -> logic<3> {
        return v + 1;
    }
    function AddSat (
        x: input logic<3>,
        y: input logic<3>,
    ) -> logic<3> {
        let s: logic<4> = x + y;
        if s[3] {
            return 3'd7;
        } else {
            return s[2:0];
        }
    }
    function Split (
        v : input  logic<3>,
        hi: output logic   ,
    ) -> logic<2> {
        hi = v[2];
        return v[1:0];
    }
    function Dbl (
        v: input logic<3>,
    ) -> logic<3> {
        return v << 1;
    }
    function Twice (
        v: input logic<3>,
    ) -> logic<3> {
        return Inc(Dbl(v));
    }
    assign y_inc_3   = Inc(a);
    assign y_sat_3   = AddSat(a, {2'b0, c});
    assign y_twice_3 = Twice(a);
    assign y_named_3 = AddSat(y: a, x: 3'd5);
    always_comb {
        y_lo_2 = Split(a, y_hi);
    }
"#;
    b.add(
        "struct.function",
        "struct.function",
        true,
        "",
        vec![pin("a", 3, false), pin("c", 1, false)],
        vec![pin("y_inc_3", 3, false), pin("y_sat_3", 3, false), pin("y_twice_3", 3, false), pin("y_named_3", 3, false), pin("y_lo_2", 2, false), pin("y_hi", 1, false)],
        None,
        None,
        body,
    );

    // struct / union / enum
    let body = r#"
    struct Pair {
        hi: logic<2>,
        lo: logic   ,
    }
    union Both {
        raw : logic<3>,
        pair: Pair    ,
    }
    enum Kind: logic<2> {
        A = 2'd1,
        B = 2'd2,
        C,
    }
    #[enum_encoding(onehot)]
    enum Hot {
        X,
        Y,
        Z,
    }
    #[enum_encoding(gray)]
    enum Gray {
        G0,
        G1,
        G2,
        G3,
    }
    var p: Pair;
    var u: Both;
    var k: Kind;
    var h: Hot;
    var g: Gray;
    always_comb {
        p.hi = a[1:0];
        p.lo = a[2] ^ c;
    }
    assign u.raw = a;
    assign y_pack_3 = p;
    assign y_field_2 = u.pair.hi;
    assign y_fieldlo = u.pair.lo;
    always_comb {
        case a[1:0] {
            0      : k = Kind::A;
            1      : k = Kind::B;
            default: k = Kind::C;
        }
    }
    assign y_kind_2 = k;
    always_comb {
        if c {
            h = Hot::Z;
        } else if a[0] {
            h = Hot::Y;
        } else {
            h = Hot::X;
        }
    }
    assign y_hot_3 = h;
    always_comb {
        case a[1:0] {
            0      : g = Gray::G0;
            1      : g = Gray::G1;
            2      : g = Gray::G2;
            default: g = Gray::G3;
        }
    }
    assign y_gray_2 = g;
    assign y_iskind = k == Kind::B;
"#;
    b.add(
        "struct.types",
        "struct.types",
        true,
        "",
        vec![pin("a", 3, false), pin("c", 1, false)],
        vec![pin("y_pack_3", 3, false), pin("y_field_2", 2, false), pin("y_fieldlo", 1, false), pin("y_kind_2", 2, false), pin("y_hot_3", 3, false), pin("y_gray_2", 2, false), pin("y_iskind", 1, false)],
        None,
        None,
        body,
    );

    // arrays: packed 2-D and unpacked
    let body = r#"
    var m: logic<2, 2>;
    var u: logic<2> [2];
    assign m = a;
    always_comb {
        u[0] = a[1:0];
        u[1] = a[3:2] + 2'd1;
    }
    assign y_row0_2 = m[0];
    assign y_row1_2 = m[1];
    assign y_elem   = m[1][0];
    assign y_rowvar_2 = m[a[0]];
    assign y_usum_3 = u[0] + u[1];
    assign y_uvar_2 = u[a[3]];
"#;
    b.add(
        "struct.array",
        "struct.array",
        true,
        "",
        vec![pin("a", 4, false)],
        vec![pin("y_row0_2", 2, false), pin("y_row1_2", 2, false), pin("y_elem", 1, false), pin("y_rowvar_2", 2, false), pin("y_usum_3", 3, false), pin("y_uvar_2", 2, false)],
        None,
        None,
        body,
    );

    // constant unpacked array (emitted as an unpacked localparam)
    let body = r#"
    const T: logic<2> [3] = '{2'd2, 2'd1, 2'd3};
    const U: logic<2> [2, 2] = '{'{2'd0, 2'd3}, '{2'd2, 2'd1}};
    assign y_tab_2  = T[a[1:0]];
    assign y_tab2_2 = U[a[2]][a[0]];
"#;
    b.add("struct.constarray", "struct.constarray", true, "", vec![pin("a", 3, false)], vec![pin("y_tab_2", 2, false), pin("y_tab2_2", 2, false)], None, None, body);

    // the same function nested in its own argument
    let body = r#"
    function Inc (
        v: input logic<3>,
    ) -> logic<3> {
        return v + 1;
    }
    assign y_twice_3 = Inc(Inc(a));
"#;
    b.add("struct.nestedcall", "struct.nestedcall", false, "", vec![pin("a", 3, false)], vec![pin("y_twice_3", 3, false)], None, None, body);

    // const / param / generate / instances
    let pre = r#"
package Pkg {
    const K: u32 = 3;
    function Mix (
        v: input logic<4>,
    ) -> logic<4> {
        return v ^ 4'd9;
    }
}

module Sub #(
    param W  : u32 = 2,
    param INC: u32 = 1,
) (
    i: input  logic<W>,
    o: output logic<W>,
) {
    assign o = i + INC;
}
"#;
    let body = r#"
    import Pkg::*;
    const L: u32 = 2;
    var w: logic<4> [3];
    assign w[0] = a;
    for g in 0..L :g_chain {
        inst u: Sub #(
            W  : 4    ,
            INC: g + K,
        ) (
            i: w[g]    ,
            o: w[g + 1],
        );
    }
    assign y_chain_4 = w[2];
    if L == 2 :blk {
        assign y_genif_4 = ~a;
    } else {
        assign y_genif_4 = a;
    }
    var d: logic<2>;
    inst dflt: Sub (
        i: a[1:0],
        o: d     ,
    );
    assign y_dflt_2 = d;
    assign y_pkg_4  = Pkg::Mix(a);
    for g in 0..4 :bits {
        assign y_genfor_4[g] = a[g] ^ a[(g + 1) % 4];
    }
"#;
    b.add(
        "struct.generate",
        "struct.generate",
        true,
        pre,
        vec![pin("a", 4, false)],
        vec![pin("y_chain_4", 4, false), pin("y_genif_4", 4, false), pin("y_dflt_2", 2, false), pin("y_pkg_4", 4, false), pin("y_genfor_4", 4, false)],
        None,
        None,
        body,
    );

    // instance port styles: shorthand, expression, unconnected output, default param
    let pre = r#"
module Alu #(
    param OP: u32 = 0,
) (
    x : input  logic<2>,
    y : input  logic<2>,
    r : output logic<3>,
    eq: output logic   ,
) {
    if OP == 0 :g_add {
        assign r = x + y;
    } else if OP == 1 :g_sub {
        assign r = x - y;
    } else {
        assign r = {1'b0, x & y};
    }
    assign eq = x == y;
}
"#;
    let body = r#"
    let x: logic<2> = a[1:0];
    let y: logic<2> = a[3:2];
    var eq0: logic;
    inst u0: Alu (
        x          ,
        y          ,
        r : y_add_3,
        eq: eq0    ,
    );
    inst u1: Alu #(
        OP: 1,
    ) (
        x          ,
        y : ~y     ,
        r : y_sub_3,
        eq: _      ,
    );
    inst u2: Alu #(
        OP: 2,
    ) (
        x : x ^ y  ,
        y          ,
        r : y_and_3,
        eq: y_eq2  ,
    );
    assign y_eq0 = eq0;
"#;
    b.add(
        "struct.instports",
        "struct.instports",
        true,
        pre,
        vec![pin("a", 4, false)],
        vec![pin("y_add_3", 3, false), pin("y_sub_3", 3, false), pin("y_and_3", 3, false), pin("y_eq2", 1, false), pin("y_eq0", 1, false)],
        None,
        None,
        body,
    );

    // sequential sub-module instances (clock and reset passed down)
    let pre = r#"
module Stage (
    clk: input  clock   ,
    rst: input  reset   ,
    d  : input  logic<2>,
    q  : output logic<2>,
) {
    always_ff {
        if_reset {
            q = 2'd1;
        } else {
            q = d;
        }
    }
}
"#;
    let body = r#"
    var s1: logic<2>;
    inst st0: Stage (
        clk   ,
        rst   ,
        d: d  ,
        q: s1 ,
    );
    inst st1: Stage (
        clk   ,
        rst   ,
        d: s1 ^ {en, 1'b0},
        q: q  ,
    );
    assign mid = s1;
"#;
    b.add(
        "struct.seqinst",
        "struct.seqinst",
        true,
        pre,
        vec![pin("d", 2, false), pin("en", 1, false)],
        vec![pin("q", 2, false), pin("mid", 2, false)],
        Some(ClkKind::Default),
        Some(RstKind::Default),
        body,
    );

    // interface + modports between two sub-modules
    let pre = r#"
interface Bus {
    var data : logic<3>;
    var valid: logic   ;
    function Both () -> logic<4> {
        return {valid, data};
    }
    modport master {
        data : output,
        valid: output,
    }
    modport slave {
        data : input ,
        valid: input ,
        Both : import,
    }
}

module Producer (
    a  : input   logic<3>   ,
    v  : input   logic      ,
    bus: modport Bus::master,
) {
    assign bus.data  = a + 3'd1;
    assign bus.valid = v;
}

module Consumer (
    bus: modport Bus::slave,
    o  : output  logic<4>  ,
    f  : output  logic<4>  ,
) {
    assign o = if bus.valid ? {1'b1, bus.data} : 4'd0;
    assign f = bus.Both();
}
"#;
    let body = r#"
    inst bus: Bus;
    inst p: Producer (
        a  : a  ,
        v  : v  ,
        bus: bus,
    );
    inst c: Consumer (
        bus: bus   ,
        o  : y_o_4 ,
        f  : y_f_4 ,
    );
"#;
    b.add("struct.interface", "struct.interface", true, pre, vec![pin("a", 3, false), pin("v", 1, false)], vec![pin("y_o_4", 4, false), pin("y_f_4", 4, false)], None, None, body);
}


/// wide sub-family: 4 input bits fan out to operands of width W around the simulator's 32/64-bit
/// storage boundaries; every operator once per width and signedness
fn expr_wide(b: &mut B) {
    for w in [31usize, 32, 33, 63, 64, 65] {
        for sg in [false, true] {
            let k = w.div_ceil(2) + 1;
            let s = if sg { "signed " } else { "" };
            let mut body = format!(
                "    let xa: logic<{kk}> = {{a repeat {k}}};\n    let zb: logic<{kk}> = {{b repeat {k}}} >> 1;\n    let x: {s}logic<{w}> = xa[{m}:0];\n    let z: {s}logic<{w}> = zb[{m}:0];\n",
                kk = 2 * k,
                m = w - 1
            );
            let mut outs = vec![];
            let ops: Vec<(&str, String)> = vec![
                ("add", "x + z".into()),
                ("sub", "x - z".into()),
                ("mul", "x * z".into()),
                ("div", "x / z".into()),
                ("mod", "x % z".into()),
                ("and", "x & ~z".into()),
                ("xor", "x ^ z".into()),
                ("neg", "-x".into()),
                ("shl", "x << {a, b}".into()),
                ("shr", "x >> {b, a}".into()),
                ("ashr", "x >>> {b, a}".into()),
                ("shlbig", format!("x << ({} + a)", w - 2)),
                ("shrbig", format!("x >>> ({} + b)", w - 3)),
                ("cond", "if a[0] ? x : z".into()),
            ];
            for (name, e) in &ops {
                let pn = format!("y_{name}_{w}");
                body.push_str(&format!("    assign {pn} = {e};\n"));
                outs.push(pin(&pn, w, false));
            }
            // result wider than the operands (context extension across the boundary)
            for (name, e) in [("addext", "x + z"), ("mulext", "x * z"), ("negext", "-x"), ("ashrext", "x >>> 1")] {
                let pn = format!("y_{name}_{}", w + 2);
                body.push_str(&format!("    assign {pn} = {e};\n"));
                outs.push(pin(&pn, w + 2, false));
            }
            for (name, e) in [("lt", "x <: z"), ("ge", "x >= z"), ("eq", "x == z"), ("rxor", "^x"), ("ror", "|z"), ("land", "x && z")] {
                let pn = format!("y_{name}");
                body.push_str(&format!("    assign {pn} = {e};\n"));
                outs.push(pin(&pn, 1, false));
            }
            // selects across the boundary
            body.push_str(&format!("    assign y_selhi_4 = x[{}:{}];\n", w - 1, w - 4));
            outs.push(pin("y_selhi_4", 4, false));
            body.push_str(&format!("    assign y_selvar_3 = x[{{a, b}} + {}+:3];\n", w - 18));
            outs.push(pin("y_selvar_3", 3, false));
            b.add(&format!("expr.wide.{}{w}", su(sg)), "expr.wide", w == 64 && !sg, "", vec![pin("a", 2, false), pin("b", 2, false)], outs, None, None, &body);
        }
    }
    // wide registers
    for w in [33usize, 65] {
        let body = format!(
            r#"
    var acc: logic<{w}>;
    always_ff {{
        if_reset {{
            acc = {w}'d1;
        }} else if en {{
            acc = {{acc[{m1}:0], acc[{m}]}};
        }} else if d {{
            acc = {{acc[{m2}:0], acc[{m}:{m1}]}};
        }}
    }}
    assign hi  = acc[{m}:{m3}];
    assign par = |acc[{t}:0];
"#,
            m = w - 1,
            m1 = w - 2,
            m2 = w - 3,
            m3 = w - 3,
            t = w / 2
        );
        b.add(&format!("seq.wide.{w}"), "seq.wide", w == 65, "", vec![pin("d", 1, false), pin("en", 1, false)], vec![pin("hi", 3, false), pin("par", 1, false)], Some(ClkKind::Default), Some(RstKind::Default), &body);
    }
}

/// The family. `thorough` = all members, otherwise the core subset (every template once).
pub fn family(thorough: bool) -> Vec<DesignCase> {
    let mut b = B { out: vec![], annot: false };
    expr_binary(&mut b);
    expr_unary(&mut b);
    expr_context(&mut b);
    expr_misc(&mut b);
    expr_wide(&mut b);
    stmts(&mut b);
    seqs(&mut b);
    structs(&mut b);
    if thorough { b.out } else { b.out.into_iter().filter(|d| d.core).collect() }
}

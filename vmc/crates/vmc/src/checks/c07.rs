//! C07 — language-server diagnostics depend only on the current buffers.
//!
//! Engine E3, stateless (the server's state is not observable, so the history IS the state):
//! every enabled notification history up to depth d over a 3-file project is run on a fresh real
//! `veryl-ls` process (JSON-RPC on stdio). Scheduling nondeterminism is owned through the LS gate
//! hook (`#[cfg(veryl_verif)]` in `languageserver/src/server.rs`): the harness sends one message,
//! waits for `verif:idle handled=<n>`, and decides with the letters `bg` / `bg*` whether a
//! background-analysis step runs between two notifications.
//!
//! After a history: background analysis is run to completion, then two probe rounds send a no-op
//! `didChange` (same text, next version) for every open file and collect the published
//! diagnostics `(range, severity, code, message)` per file.
//!
//! Oracles
//!  1. cold twin: a fresh server on a copy of the final disk state (no `.build`), the files that
//!     are open at the end opened with their final buffers, background complete, same probes —
//!     must publish identical diagnostics. (Memoised by final state: the twin is a function of
//!     (disk, open buffers) only.)
//!  2. warm twin: the same fresh procedure with the history's `.build/cache-ls` retained — must
//!     equal the cold twin.
//!
//! A mismatch is re-run once; if the re-run does not reproduce both sides it is reported as
//! machinery failure (harness/implementation nondeterminism), not as a verdict.

use crate::checks::lsp_client::{CANON, Diag, LsClient, file_uri};
use crate::core::*;
use serde_json::{Value, json};
use std::collections::{BTreeMap, BTreeSet, HashMap, VecDeque};
use std::path::{Path, PathBuf};
use std::sync::Mutex;
use std::sync::atomic::{AtomicU64, Ordering};

// ------------------------------------------------------------------------------- the project

const NFILES: usize = 3;
const FA: usize = 0;
const FB: usize = 1;
const FP: usize = 2;
const FNAME: [&str; NFILES] = ["a", "b", "pkg"];

const TOML: &str = r#"[project]
name = "prj"
version = "0.1.0"

[build]
clock_type = "posedge"
reset_type = "async_low"
incremental = true
exclude_std = true
sources = ["src"]
target = {type = "directory", path = "target"}
"#;

#[derive(Clone, Copy, Debug, PartialEq, Eq, Hash, PartialOrd, Ord)]
enum Var {
    V0,
    /// rename a declaration that other files reference (pkg: const W; a: module A; b: module B)
    Rename,
    /// delete a declaration that other files reference (pkg: const D; a: port o_q; b: inst u_a)
    Delete,
    Broken,
    /// syntactically fine again, same declarations as v0, every token one line further down
    Repaired,
    /// v0 plus an unused variable (pkg: in a second module of the same file)
    Unused,
}

const VARS: [Var; 6] = [Var::V0, Var::Rename, Var::Delete, Var::Broken, Var::Repaired, Var::Unused];

fn var_name(v: Var) -> &'static str {
    match v {
        Var::V0 => "v0",
        Var::Rename => "rename",
        Var::Delete => "delete",
        Var::Broken => "broken",
        Var::Repaired => "repaired",
        Var::Unused => "unused",
    }
}

fn text_of(f: usize, v: Var) -> String {
    match f {
        FP => {
            let (w, d, tail) = match v {
                Var::V0 | Var::Repaired => ("    const W: u32 = 4;\n", "    const D: u32 = 2;\n", ""),
                Var::Rename => ("    const WW: u32 = 4;\n", "    const D: u32 = 2;\n", ""),
                Var::Delete => ("    const W: u32 = 4;\n", "", ""),
                Var::Broken => ("    const W: u32 = ;\n", "    const D: u32 = 2;\n", ""),
                Var::Unused => (
                    "    const W: u32 = 4;\n",
                    "    const D: u32 = 2;\n",
                    "module PkgAux {\n    var unused_p: logic;\n}\n",
                ),
            };
            let head = if v == Var::Repaired { "// repaired\n" } else { "" };
            format!("{head}package Pkg {{\n{w}{d}}}\n{tail}")
        }
        FA => {
            let head = if v == Var::Repaired { "// repaired\n" } else { "" };
            let name = if v == Var::Rename { "A2" } else { "A" };
            let oq = if v == Var::Delete { "" } else { "    o_q: output logic<Pkg::W>,\n" };
            let assign = match v {
                Var::Delete => "",
                Var::Broken => "    assign o_q = = i_d;\n",
                _ => "    assign o_q = i_d;\n",
            };
            let unused = if v == Var::Unused { "    var unused_a: logic;\n" } else { "" };
            format!("{head}module {name} (\n    i_d: input  logic<Pkg::W>,\n{oq}) {{\n{unused}{assign}}}\n")
        }
        FB => {
            let head = if v == Var::Repaired { "// repaired\n" } else { "" };
            let name = if v == Var::Rename { "B2" } else { "B" };
            let inst = if v == Var::Delete {
                ""
            } else {
                "    inst u_a: A (\n        i_d: i_d,\n        o_q: o_q,\n    );\n"
            };
            let assign = if v == Var::Broken { "    assign o_c = = 0;\n" } else { "    assign o_c = 0;\n" };
            let unused = if v == Var::Unused { "    var unused_b: logic;\n" } else { "" };
            format!(
                "{head}module {name} (\n    i_d: input  logic<Pkg::W>,\n    o_q: output logic<Pkg::W>,\n    o_c: output logic<Pkg::D>,\n) {{\n{unused}{inst}{assign}}}\n"
            )
        }
        _ => unreachable!(),
    }
}

fn disk_name(f: usize, alt: bool) -> String {
    if alt { format!("{}_r.veryl", FNAME[f]) } else { format!("{}.veryl", FNAME[f]) }
}

fn uri_of(name: &str) -> String {
    file_uri(&format!("{CANON}/p/src/{name}"))
}

// ------------------------------------------------------------------------------- letters

#[derive(Clone, Copy, Debug, PartialEq, Eq, Hash, PartialOrd, Ord)]
enum Letter {
    Open(usize),
    Change(usize, Var),
    Save(usize),
    Close(usize),
    Rename(usize),
    Delete(usize),
    Bg,
    BgAll,
}

fn letter_text(l: &Letter) -> String {
    match l {
        Letter::Open(f) => format!("open({})", FNAME[*f]),
        Letter::Change(f, v) => format!("change({},{})", FNAME[*f], var_name(*v)),
        Letter::Save(f) => format!("save({})", FNAME[*f]),
        Letter::Close(f) => format!("close({})", FNAME[*f]),
        Letter::Rename(f) => format!("rename({})", FNAME[*f]),
        Letter::Delete(f) => format!("delete({})", FNAME[*f]),
        Letter::Bg => "bg".into(),
        Letter::BgAll => "bg*".into(),
    }
}

fn letter_kind(l: &Letter) -> String {
    match l {
        Letter::Change(f, v) => format!("change({},{})", FNAME[*f], var_name(*v)),
        x => letter_text(x),
    }
}

fn parse_letter(t: &str) -> Option<Letter> {
    alphabet(&[FA, FB, FP]).into_iter().find(|l| letter_text(l) == t)
}

fn alphabet(files: &[usize]) -> Vec<Letter> {
    let mut v = vec![];
    for &f in files {
        v.push(Letter::Open(f));
    }
    for &f in files {
        for var in VARS {
            v.push(Letter::Change(f, var));
        }
    }
    for &f in files {
        v.push(Letter::Save(f));
    }
    for &f in files {
        v.push(Letter::Close(f));
    }
    for &f in files {
        v.push(Letter::Rename(f));
    }
    for &f in files {
        v.push(Letter::Delete(f));
    }
    v.push(Letter::Bg);
    v.push(Letter::BgAll);
    v
}

fn hist_json(h: &[Letter]) -> Value {
    json!(h.iter().map(letter_text).collect::<Vec<_>>())
}

// ------------------------------------------------------------------------------- calibration

/// Facts about the server build under test that the client-side model needs and that a
/// legitimate repair of the server may change. They are *measured* on the real server before the
/// exploration (see `calibrate`), never assumed; exact message counting afterwards turns a wrong
/// calibration into a machinery error, not into a verdict.
#[derive(Clone, Copy, Debug)]
struct Calib {
    /// MsgToServer messages the Backend enqueues per didClose (0 at the pinned commit: no handler)
    close_msgs: u64,
    /// same for didSave
    save_msgs: u64,
    /// does didRenameFiles queue a background pass while another one is pending?
    rename_queues_when_pending: bool,
}

static CALIB: std::sync::OnceLock<Calib> = std::sync::OnceLock::new();

fn calib() -> Calib {
    *CALIB.get().expect("calibrate() runs first")
}

/// Measures `Calib` on a throw-away server.
fn calibrate(root: &Path, stats: &Stats) -> Result<Calib, String> {
    let m = Model::new();
    reset_project(root, &m.final_state().disk);
    let mut s = Session::start(root, stats)?;
    let count_msgs = |s: &mut Session, method: &str, params: Value| -> Result<u64, String> {
        let before = s.c.expected_handled;
        s.c.notify(method, params)?;
        // several full round trips through the server thread: the handler of the notification
        // above (one log line + one channel send) has long run when the last one returns
        let mut last = 0;
        for _ in 0..4 {
            s.c.expected_handled = before; // accept whatever count arrives
            last = s.c.barrier_any()?.handled;
        }
        let extra = last.saturating_sub(before + 4);
        s.c.expected_handled = last;
        Ok(extra)
    };
    let ghost = uri_of("never_opened.veryl");
    let close_msgs = count_msgs(&mut s, "textDocument/didClose", json!({"textDocument": {"uri": ghost}}))?;
    let save_msgs = count_msgs(&mut s, "textDocument/didSave", json!({"textDocument": {"uri": ghost}}))?;
    // open(a) leaves a pass pending; rename(b) then either queues a second pass or not
    let idle = s.did_open("a.veryl", &text_of(FA, Var::V0), 1)?;
    let pending_before = idle.bg_pending;
    let files = json!({"files": [{"oldUri": uri_of("b.veryl"), "newUri": uri_of("b_r.veryl")}]});
    s.c.request_and_settle("workspace/willRenameFiles", files.clone(), 1)?;
    std::fs::rename(root.join("p/src/b.veryl"), root.join("p/src/b_r.veryl")).map_err(|e| e.to_string())?;
    let idle = s.c.notify_and_settle("workspace/didRenameFiles", files, 1)?;
    let rename_queues_when_pending = idle.bg_pending > pending_before;
    s.finish();
    if pending_before == 0 {
        return Err("calibration: didOpen queued no background pass".into());
    }
    Ok(Calib { close_msgs, save_msgs, rename_queues_when_pending })
}

// ------------------------------------------------------------------------------- client-side model

#[derive(Clone, Debug, PartialEq, Eq)]
struct FileSt {
    alt_name: bool,
    disk: Option<Var>,
    open: Option<Var>,
    version: i64,
}

/// What the *client* knows: disk, open buffers, and a model of the server's background queue
/// (checked against the `bg_pending` the server reports at every idle marker).
#[derive(Clone, Debug)]
struct Model {
    f: [FileSt; NFILES],
    /// remaining paths per queued background task
    tasks: VecDeque<u64>,
    bg_done: bool,
    /// buffers the client closed: (disk name at close time, file, last buffer)
    ghosts: Vec<(String, usize, Var)>,
    /// files renamed while a background pass was pending and no pass was queued since
    /// (only used to *classify* a failure, never to decide one)
    unanalyzed: BTreeSet<String>,
}

impl Model {
    fn new() -> Model {
        let st = FileSt { alt_name: false, disk: Some(Var::V0), open: None, version: 0 };
        Model { f: [st.clone(), st.clone(), st], tasks: VecDeque::new(), bg_done: true, ghosts: vec![], unanalyzed: BTreeSet::new() }
    }
    fn n_disk(&self) -> u64 {
        self.f.iter().filter(|x| x.disk.is_some()).count() as u64
    }
    fn pending(&self) -> u64 {
        self.tasks.iter().map(|x| (*x).max(1)).sum()
    }
    fn enabled(&self, l: &Letter) -> bool {
        match l {
            Letter::Open(f) => self.f[*f].open.is_none() && self.f[*f].disk.is_some(),
            Letter::Change(f, v) => matches!(self.f[*f].open, Some(cur) if cur != *v),
            Letter::Save(f) => match (self.f[*f].open, self.f[*f].disk) {
                (Some(b), Some(d)) => b != d,
                _ => false,
            },
            Letter::Close(f) => self.f[*f].open.is_some(),
            Letter::Rename(f) | Letter::Delete(f) => self.f[*f].disk.is_some(),
            Letter::Bg => self.pending() >= 1,
            Letter::BgAll => self.pending() >= 2,
        }
    }
    fn push_task(&mut self) {
        let n = self.n_disk();
        self.tasks.push_back(n);
        self.unanalyzed.clear();
    }
    fn bg_one(&mut self) {
        if let Some(t) = self.tasks.front_mut() {
            if *t > 0 {
                *t -= 1;
            }
            if *t == 0 {
                self.tasks.pop_front();
                if self.tasks.is_empty() {
                    self.bg_done = true;
                }
            }
        }
    }
    /// Applies the letter to the model (not the bg queue effects of sub-steps of a rename, which
    /// `apply_letter` drives message by message).
    fn name(&self, f: usize) -> String {
        disk_name(f, self.f[f].alt_name)
    }
    fn final_state(&self) -> FinalState {
        let mut disk = BTreeMap::new();
        let mut open = BTreeMap::new();
        for f in 0..NFILES {
            if let Some(v) = self.f[f].disk {
                disk.insert(self.name(f), (f, v));
            }
            if let Some(v) = self.f[f].open {
                open.insert(self.name(f), (f, v));
            }
        }
        FinalState { disk, open }
    }
}

#[derive(Clone, Debug, PartialEq, Eq, Hash, PartialOrd, Ord)]
struct FinalState {
    disk: BTreeMap<String, (usize, Var)>,
    open: BTreeMap<String, (usize, Var)>,
}

impl FinalState {
    fn to_json(&self) -> Value {
        let d: BTreeMap<_, _> =
            self.disk.iter().map(|(k, (f, v))| (k.clone(), format!("{}:{}", FNAME[*f], var_name(*v)))).collect();
        let o: BTreeMap<_, _> =
            self.open.iter().map(|(k, (f, v))| (k.clone(), format!("{}:{}", FNAME[*f], var_name(*v)))).collect();
        json!({"disk": d, "open_buffers": o})
    }
}

/// Pure model step used by the enumerator (mirrors what `apply_letter` does on the real server).
fn model_step(m: &mut Model, l: &Letter) {
    match *l {
        Letter::Open(f) => {
            m.f[f].open = m.f[f].disk;
            m.f[f].version += 1;
            m.bg_done = false;
            m.push_task();
        }
        Letter::Change(f, v) => {
            m.f[f].open = Some(v);
            m.f[f].version += 1;
        }
        Letter::Save(f) => {
            m.f[f].disk = m.f[f].open;
        }
        Letter::Close(f) => {
            let v = m.f[f].open.take().unwrap();
            let n = m.name(f);
            m.ghosts.retain(|g| g.0 != n);
            m.ghosts.push((n, f, v));
        }
        Letter::Rename(f) => {
            let was_open = m.f[f].open;
            let old = m.name(f);
            m.f[f].alt_name = !m.f[f].alt_name;
            // didRenameFiles: queues a pass only when no pass is pending
            if m.bg_done || calib().rename_queues_when_pending {
                m.bg_done = false;
                m.push_task();
            } else if was_open.is_none() {
                let n = m.name(f);
                m.unanalyzed.insert(n);
            }
            if let Some(v) = was_open {
                m.ghosts.retain(|g| g.0 != old);
                m.ghosts.push((old, f, v));
                // didClose(old) + didOpen(new)
                m.f[f].version += 1;
                m.bg_done = false;
                m.push_task();
            }
        }
        Letter::Delete(f) => {
            if let Some(v) = m.f[f].open.take() {
                let n = m.name(f);
                m.ghosts.retain(|g| g.0 != n);
                m.ghosts.push((n, f, v));
            }
            m.f[f].disk = None;
        }
        Letter::Bg => m.bg_one(),
        Letter::BgAll => {
            while m.pending() > 0 {
                m.bg_one();
            }
        }
    }
}

// ------------------------------------------------------------------------------- driving the server

/// file name -> per probe round diagnostics (None = nothing published)
type DiagMap = BTreeMap<String, Vec<Option<Vec<Diag>>>>;

/// Everything observed from a server after a history (or after the fresh-open procedure).
#[derive(Clone, Debug, PartialEq, Eq, Default)]
struct Probes {
    /// primary observable of the property: published diagnostics per open file and probe round
    diags: DiagMap,
    /// `workspace/symbol` with the empty query: every symbol the server holds (name, kind, file, range)
    symbols: Vec<String>,
    /// `textDocument/references` at the declaration of every symbol that lives in an open file
    refs: BTreeMap<String, Vec<String>>,
}

/// Absolute form of the property's second sentence, evaluated on the tables the server shows right
/// after background completion (before the probes re-analyse anything) and again after the probes:
/// a symbol or reference is *left behind* if it is listed twice at the same place, or if the text at
/// its location in the file's current content is not the identifier. Current content = the open
/// buffer; for a file that is not open the disk content or a buffer the client closed (a retained
/// closed buffer is the differential oracle's business, signature `closed-buffer-retained`).
fn left_behind(symbols: &[String], refs: &BTreeMap<String, Vec<String>>, m: &Model) -> Vec<String> {
    let mut contents: BTreeMap<String, Vec<String>> = BTreeMap::new();
    for f in 0..NFILES {
        let name = m.name(f);
        if let Some(v) = m.f[f].open {
            contents.entry(name).or_default().push(text_of(f, v));
        } else if let Some(v) = m.f[f].disk {
            contents.entry(name).or_default().push(text_of(f, v));
        }
    }
    for (n, f, v) in &m.ghosts {
        let is_open = (0..NFILES).any(|g| m.f[g].open.is_some() && m.name(g) == *n);
        if !is_open {
            contents.entry(n.clone()).or_default().push(text_of(*f, *v));
        }
    }
    // a reference to `W` in `Pkg::W` is recorded at the first token of the scoped path (`Pkg`):
    // accept a location whose scoped path (ident(::ident)*) starting there has the name as a segment
    let path_at = |loc: &str| -> Vec<Vec<String>> {
        let mut it = loc.splitn(2, ':');
        let file = it.next().unwrap_or("");
        let rest = it.next().unwrap_or("");
        let nums: Vec<usize> = rest.split(|c| c == ':' || c == '-').filter_map(|x| x.parse().ok()).collect();
        let Some(cands) = contents.get(file) else {
            return vec![];
        };
        cands
            .iter()
            .map(|t| {
                let Some(line) = t.lines().nth(*nums.first().unwrap_or(&usize::MAX)) else {
                    return vec![];
                };
                let Some(tail) = line.get(*nums.get(1).unwrap_or(&usize::MAX)..) else {
                    return vec![];
                };
                let end = tail
                    .char_indices()
                    .find(|(_, c)| !(c.is_ascii_alphanumeric() || *c == '_' || *c == ':'))
                    .map(|(i, _)| i)
                    .unwrap_or(tail.len());
                tail[..end].split("::").map(|x| x.to_string()).collect()
            })
            .collect()
    };
    let text_at = |loc: &str| -> Vec<Option<String>> {
        // loc = file:l:c-l:c
        let mut it = loc.splitn(2, ':');
        let file = it.next().unwrap_or("");
        let rest = it.next().unwrap_or("");
        let nums: Vec<usize> = rest.split(|c| c == ':' || c == '-').filter_map(|x| x.parse().ok()).collect();
        let Some(cands) = contents.get(file) else {
            return vec![];
        };
        cands
            .iter()
            .map(|t| {
                if nums.len() != 4 || nums[0] != nums[2] {
                    return None;
                }
                let line = t.lines().nth(nums[0])?;
                line.get(nums[1]..nums[3]).map(|x| x.to_string())
            })
            .collect()
    };
    let mut out = vec![];
    let mut seen = BTreeSet::new();
    for sy in symbols {
        if !seen.insert(sy) {
            out.push(format!("symbol listed twice: {sy}"));
        }
        let Some((head, loc)) = sy.split_once(" @") else { continue };
        let name = head.split(" kind=").next().unwrap_or("");
        let texts = text_at(loc);
        if !texts.iter().any(|t| t.as_deref() == Some(name)) {
            out.push(format!("symbol {sy}: the file's current text there is {texts:?}"));
        }
    }
    for (key, locs) in refs {
        let name = key.split('@').next().unwrap_or("");
        let mut seen = BTreeSet::new();
        for l in locs {
            if !seen.insert(l) {
                out.push(format!("reference to {key} listed twice: {l}"));
            }
            let texts = text_at(l);
            let paths = path_at(l);
            if !texts.iter().any(|t| t.as_deref() == Some(name)) && !paths.iter().any(|p| p.iter().any(|x| x == name)) {
                out.push(format!("reference to {key} at {l}: the file's current text there is {texts:?}"));
            }
        }
    }
    out.sort();
    out.dedup();
    out
}

fn probes_json(p: &Probes) -> Value {
    let mut o = serde_json::Map::new();
    for (k, rounds) in &p.diags {
        o.insert(
            k.clone(),
            json!(
                rounds
                    .iter()
                    .map(|r| match r {
                        None => json!("<nothing published>"),
                        Some(d) => json!(d.iter().map(|x| x.to_json()).collect::<Vec<_>>()),
                    })
                    .collect::<Vec<_>>()
            ),
        );
    }
    json!({"diagnostics": Value::Object(o), "symbols": p.symbols, "references": p.refs})
}

struct Stats {
    messages: AtomicU64,
    servers: AtomicU64,
    bg_steps: AtomicU64,
}

struct Session<'a> {
    c: LsClient,
    proj: PathBuf,
    stats: &'a Stats,
    left_behind: Vec<String>,
}

fn ls_bin() -> PathBuf {
    bin_dir().join("veryl-ls")
}

fn reset_project(root: &Path, disk: &BTreeMap<String, (usize, Var)>) {
    let p = root.join("p");
    let _ = std::fs::remove_dir_all(&p);
    let _ = std::fs::remove_dir_all(root.join("home"));
    let _ = std::fs::remove_dir_all(root.join("cache"));
    std::fs::create_dir_all(p.join("src")).unwrap();
    std::fs::write(p.join("Veryl.toml"), TOML).unwrap();
    for (name, (f, v)) in disk {
        std::fs::write(p.join("src").join(name), text_of(*f, *v)).unwrap();
    }
}

impl<'a> Session<'a> {
    fn start(root: &Path, stats: &'a Stats) -> Result<Session<'a>, String> {
        let t0 = std::time::Instant::now();
        let mut c = LsClient::spawn(&ls_bin(), root, true)?;
        stats.servers.fetch_add(1, Ordering::Relaxed);
        if std::env::var("VMC_C07_TIMING").is_ok() { eprintln!("  spawn {:?}", t0.elapsed()); }
        let idle = c.initialize()?;
        if std::env::var("VMC_C07_TIMING").is_ok() { eprintln!("  initialize {:?}", t0.elapsed()); }
        if idle.bg_pending != 0 {
            return Err(format!("background work pending right after initialize: {idle:?}"));
        }
        Ok(Session { c, proj: root.join("p"), stats, left_behind: vec![] })
    }

    fn check_pending(&self, m: &Model, idle: crate::checks::lsp_client::Idle, at: &str) -> Result<(), String> {
        if idle.bg_pending != m.pending() {
            return Err(format!(
                "MODEL: server reports bg_pending={} but the client model expects {} after {at}",
                idle.bg_pending,
                m.pending()
            ));
        }
        Ok(())
    }

    fn did_open(&mut self, name: &str, text: &str, version: i64) -> Result<crate::checks::lsp_client::Idle, String> {
        self.c.notify_and_settle(
            "textDocument/didOpen",
            json!({"textDocument": {"uri": uri_of(name), "languageId": "veryl", "version": version, "text": text}}),
            1,
        )
    }

    fn did_change(&mut self, name: &str, text: &str, version: i64) -> Result<crate::checks::lsp_client::Idle, String> {
        self.c.notify_and_settle(
            "textDocument/didChange",
            json!({"textDocument": {"uri": uri_of(name), "version": version}, "contentChanges": [{"text": text}]}),
            1,
        )
    }

    fn bg_one(&mut self, m: &mut Model) -> Result<(), String> {
        let idle = self.c.bg_step()?;
        self.stats.bg_steps.fetch_add(1, Ordering::Relaxed);
        m.bg_one();
        self.check_pending(m, idle, "bg step")
    }

    /// Applies one letter: sends the LSP traffic, performs the disk operation, updates the model.
    fn apply_letter(&mut self, m: &mut Model, l: &Letter) -> Result<(), String> {
        let at = letter_text(l);
        match *l {
            Letter::Open(f) => {
                let v = m.f[f].disk.unwrap();
                m.f[f].open = Some(v);
                m.f[f].version += 1;
                m.bg_done = false;
                m.push_task();
                let idle = self.did_open(&m.name(f), &text_of(f, v), m.f[f].version)?;
                self.check_pending(m, idle, &at)?;
            }
            Letter::Change(f, v) => {
                m.f[f].open = Some(v);
                m.f[f].version += 1;
                let idle = self.did_change(&m.name(f), &text_of(f, v), m.f[f].version)?;
                self.check_pending(m, idle, &at)?;
            }
            Letter::Save(f) => {
                let v = m.f[f].open.unwrap();
                std::fs::write(self.proj.join("src").join(m.name(f)), text_of(f, v)).map_err(|e| e.to_string())?;
                m.f[f].disk = Some(v);
                let idle = self.c.notify_and_settle(
                    "textDocument/didSave",
                    json!({"textDocument": {"uri": uri_of(&m.name(f))}, "text": text_of(f, v)}),
                    calib().save_msgs,
                )?;
                self.check_pending(m, idle, &at)?;
            }
            Letter::Close(f) => {
                let v = m.f[f].open.take().unwrap();
                let n = m.name(f);
                m.ghosts.retain(|g| g.0 != n);
                m.ghosts.push((n.clone(), f, v));
                let idle =
                    self.c.notify_and_settle("textDocument/didClose", json!({"textDocument": {"uri": uri_of(&n)}}), calib().close_msgs)?;
                self.check_pending(m, idle, &at)?;
            }
            Letter::Rename(f) => {
                let was_open = m.f[f].open;
                let old = m.name(f);
                let new = disk_name(f, !m.f[f].alt_name);
                let files = json!({"files": [{"oldUri": uri_of(&old), "newUri": uri_of(&new)}]});
                let (_r, idle) = self.c.request_and_settle("workspace/willRenameFiles", files.clone(), 1)?;
                self.check_pending(m, idle, "willRenameFiles")?;
                std::fs::rename(self.proj.join("src").join(&old), self.proj.join("src").join(&new))
                    .map_err(|e| e.to_string())?;
                m.f[f].alt_name = !m.f[f].alt_name;
                if m.bg_done || calib().rename_queues_when_pending {
                    m.bg_done = false;
                    m.push_task();
                } else if was_open.is_none() {
                    m.unanalyzed.insert(new.clone());
                }
                let idle = self.c.notify_and_settle("workspace/didRenameFiles", files, 1)?;
                self.check_pending(m, idle, "didRenameFiles")?;
                if let Some(v) = was_open {
                    // what an editor does with the open buffer of a renamed file
                    m.ghosts.retain(|g| g.0 != old);
                    m.ghosts.push((old.clone(), f, v));
                    let idle = self.c.notify_and_settle(
                        "textDocument/didClose",
                        json!({"textDocument": {"uri": uri_of(&old)}}),
                        calib().close_msgs,
                    )?;
                    self.check_pending(m, idle, "didClose(old name)")?;
                    m.f[f].version += 1;
                    m.bg_done = false;
                    m.push_task();
                    let idle = self.did_open(&new, &text_of(f, v), m.f[f].version)?;
                    self.check_pending(m, idle, "didOpen(new name)")?;
                }
            }
            Letter::Delete(f) => {
                let n = m.name(f);
                let (_r, idle) = self
                    .c
                    .request_and_settle("workspace/willDeleteFiles", json!({"files": [{"uri": uri_of(&n)}]}), 1)?;
                self.check_pending(m, idle, "willDeleteFiles")?;
                std::fs::remove_file(self.proj.join("src").join(&n)).map_err(|e| e.to_string())?;
                m.f[f].disk = None;
                m.unanalyzed.remove(&n);
                if let Some(v) = m.f[f].open.take() {
                    m.ghosts.retain(|g| g.0 != n);
                    m.ghosts.push((n.clone(), f, v));
                    let idle = self.c.notify_and_settle(
                        "textDocument/didClose",
                        json!({"textDocument": {"uri": uri_of(&n)}}),
                        calib().close_msgs,
                    )?;
                    self.check_pending(m, idle, "didClose(deleted)")?;
                }
            }
            Letter::Bg => self.bg_one(m)?,
            Letter::BgAll => {
                while m.pending() > 0 {
                    self.bg_one(m)?;
                }
            }
        }
        Ok(())
    }

    /// Background to completion, then `rounds` probe rounds over the open files in name order.
    fn quiesce_and_probe(&mut self, m: &mut Model, rounds: usize) -> Result<Probes, String> {
        while m.pending() > 0 {
            self.bg_one(m)?;
        }
        let mut out: DiagMap = BTreeMap::new();
        // Probe order: dependents first (b instantiates A, a uses Pkg). Re-analysing a file only
        // replaces that file's own symbols, so with this order the first probe of every file still
        // sees its dependencies in the state the history left them in; the second round then sees
        // everything re-analysed.
        let open: Vec<(String, usize, Var)> = {
            let fs = m.final_state();
            let mut v: Vec<(String, usize, Var)> = fs.open.iter().map(|(n, (f, v))| (n.clone(), *f, *v)).collect();
            v.sort_by_key(|(_, f, _)| match *f {
                FB => 0,
                FA => 1,
                _ => 2,
            });
            v
        };
        let (s0, r0) = self.observe_tables(m, &open)?;
        self.left_behind = left_behind(&s0, &r0, m).into_iter().map(|x| format!("before probes: {x}")).collect();
        for _ in 0..rounds {
            for (name, f, v) in &open {
                m.f[*f].version += 1;
                let ver = m.f[*f].version;
                let before = self.c.published.len();
                let idle = self.did_change(name, &text_of(*f, *v), ver)?;
                self.check_pending(m, idle, "probe")?;
                let uri = uri_of(name);
                let got = self.c.published[before..]
                    .iter()
                    .rev()
                    .find(|p| p.uri == uri && p.version == Some(ver))
                    .map(|p| p.diags.clone());
                out.entry(name.clone()).or_default().push(got);
            }
        }
        let (symbols, refs) = self.observe_tables(m, &open)?;
        self.left_behind.extend(left_behind(&symbols, &refs, m).into_iter().map(|x| format!("after probes: {x}")));
        Ok(Probes { diags: out, symbols, refs })
    }

    /// Symbols and references as the LSP API shows them (second sentence of the property: no
    /// symbols or references left behind).
    fn observe_tables(
        &mut self,
        m: &Model,
        open: &[(String, usize, Var)],
    ) -> Result<(Vec<String>, BTreeMap<String, Vec<String>>), String> {
        let prefix = uri_of("");
        let short = |u: &str| u.strip_prefix(prefix.as_str()).unwrap_or(u).to_string();
        let loc = |l: &Value| {
            let r = &l["range"];
            format!(
                "{}:{}:{}-{}:{}",
                short(l["uri"].as_str().unwrap_or("?")),
                r["start"]["line"],
                r["start"]["character"],
                r["end"]["line"],
                r["end"]["character"]
            )
        };
        let (resp, idle) = self.c.request_and_settle("workspace/symbol", json!({"query": ""}), 1)?;
        self.check_pending(m, idle, "workspace/symbol")?;
        let mut symbols = vec![];
        let mut targets = vec![];
        for sy in resp["result"].as_array().cloned().unwrap_or_default() {
            let name = sy["name"].as_str().unwrap_or("?").to_string();
            let l = &sy["location"];
            symbols.push(format!("{name} kind={} @{}", sy["kind"], loc(l)));
            let file = short(l["uri"].as_str().unwrap_or("?"));
            if open.iter().any(|(n, _, _)| *n == file) {
                targets.push((
                    format!("{name}@{}", loc(l)),
                    l["uri"].clone(),
                    l["range"]["start"]["line"].clone(),
                    l["range"]["start"]["character"].clone(),
                ));
            }
        }
        symbols.sort();
        targets.sort_by(|a, b| a.0.cmp(&b.0));
        targets.dedup_by(|a, b| a.0 == b.0);
        let mut refs = BTreeMap::new();
        for (key, uri, line, ch) in targets {
            let (resp, idle) = self.c.request_and_settle(
                "textDocument/references",
                json!({"textDocument": {"uri": uri}, "position": {"line": line, "character": ch}, "context": {"includeDeclaration": false}}),
                1,
            )?;
            self.check_pending(m, idle, "references")?;
            let mut v: Vec<String> = resp["result"].as_array().map(|a| a.iter().map(&loc).collect()).unwrap_or_default();
            v.sort();
            refs.insert(key, v);
        }
        Ok((symbols, refs))
    }

    fn finish(self) -> (u64, Vec<String>) {
        self.stats.messages.fetch_add(self.c.messages_sent, Ordering::Relaxed);
        let n = self.c.messages_sent;
        let log = self.c.log.clone();
        self.c.kill();
        (n, log)
    }
}

const ROUNDS: usize = 2;

struct HistRun {
    probes: Probes,
    fin: FinalState,
    ghosts: Vec<(String, usize, Var)>,
    unanalyzed: BTreeSet<String>,
    cache_ls: BTreeMap<String, Vec<u8>>,
    letters_delivered: u64,
    left_behind: Vec<String>,
}

fn run_history(root: &Path, hist: &[Letter], stats: &Stats) -> Result<HistRun, String> {
    let mut m = Model::new();
    let t0 = std::time::Instant::now();
    let dbg = std::env::var("VMC_C07_TIMING").is_ok();
    reset_project(root, &m.final_state().disk);
    if dbg { eprintln!("reset {:?}", t0.elapsed()); }
    let mut s = Session::start(root, stats)?;
    if dbg { eprintln!("started+init {:?}", t0.elapsed()); }
    let mut delivered = 0;
    for l in hist {
        if !m.enabled(l) {
            return Err(format!("MODEL: letter {} not enabled", letter_text(l)));
        }
        s.apply_letter(&mut m, l)?;
        if dbg { eprintln!("letter {} {:?}", letter_text(l), t0.elapsed()); }
        delivered += 1;
    }
    let probes = s.quiesce_and_probe(&mut m, ROUNDS)?;
    if dbg { eprintln!("probed {:?}", t0.elapsed()); }
    let left = std::mem::take(&mut s.left_behind);
    s.finish();
    if dbg { eprintln!("killed {:?}", t0.elapsed()); }
    let cache_ls = snapshot_dir(&root.join("p/.build/cache-ls"));
    Ok(HistRun {
        probes,
        fin: m.final_state(),
        ghosts: m.ghosts.clone(),
        unanalyzed: m.unanalyzed.clone(),
        cache_ls,
        letters_delivered: delivered,
        left_behind: left,
    })
}

/// Fresh server on `fin.disk` (+ optional retained cache-ls), opens `opens` in name order, background
/// to completion, probes the files of `fin.open`.
fn run_fresh(
    root: &Path,
    fin: &FinalState,
    extra_opens: &[(String, usize, Var)],
    cache_ls: Option<&BTreeMap<String, Vec<u8>>>,
    stats: &Stats,
) -> Result<Probes, String> {
    reset_project(root, &fin.disk);
    if let Some(c) = cache_ls {
        let dst = root.join("p/.build/cache-ls");
        for (rel, data) in c {
            let p = dst.join(rel);
            std::fs::create_dir_all(p.parent().unwrap()).unwrap();
            std::fs::write(p, data).unwrap();
        }
    }
    // model of the fresh server: same disk, nothing open
    let mut m = Model::new();
    for f in 0..NFILES {
        m.f[f].disk = None;
    }
    for (name, (f, v)) in &fin.disk {
        m.f[*f].disk = Some(*v);
        m.f[*f].alt_name = name.ends_with("_r.veryl");
    }
    let mut s = Session::start(root, stats)?;
    // ghosts first (diagnosis twin only), then the really open files, each in name order
    for (name, f, v) in extra_opens {
        m.bg_done = false;
        m.push_task();
        let idle = s.did_open(name, &text_of(*f, *v), 1)?;
        s.check_pending(&m, idle, "ghost open")?;
    }
    for (name, (f, v)) in &fin.open {
        m.f[*f].open = Some(*v);
        m.f[*f].version = 1;
        m.bg_done = false;
        m.push_task();
        let idle = s.did_open(name, &text_of(*f, *v), 1)?;
        s.check_pending(&m, idle, "fresh open")?;
    }
    let probes = s.quiesce_and_probe(&mut m, ROUNDS)?;
    s.finish();
    Ok(probes)
}

// ------------------------------------------------------------------------------- enumeration

struct Bounds {
    depth: usize,
    files: Vec<usize>,
    /// buffer variants available to `change`
    vars: Vec<Var>,
    /// letter kinds left out of this stage's alphabet ("save", "close", "rename", "delete", "bg")
    without: Vec<&'static str>,
    label: &'static str,
}

fn stage_alphabet(b: &Bounds) -> Vec<Letter> {
    alphabet(&b.files)
        .into_iter()
        .filter(|l| match l {
            Letter::Change(_, v) => b.vars.contains(v),
            Letter::Save(_) => !b.without.contains(&"save"),
            Letter::Close(_) => !b.without.contains(&"close"),
            Letter::Rename(_) => !b.without.contains(&"rename"),
            Letter::Delete(_) => !b.without.contains(&"delete"),
            Letter::Bg | Letter::BgAll => !b.without.contains(&"bg"),
            Letter::Open(_) => true,
        })
        .collect()
}

/// All enabled histories of length 1..=depth over `files`, in BFS (shortest-first) order.
fn enumerate(b: &Bounds) -> Vec<Vec<Letter>> {
    let alpha = stage_alphabet(b);
    let mut out = vec![];
    let mut level: Vec<(Vec<Letter>, Model)> = vec![(vec![], Model::new())];
    for _ in 0..b.depth {
        let mut next = vec![];
        for (h, m) in &level {
            for l in &alpha {
                if !m.enabled(l) {
                    continue;
                }
                let mut m2 = m.clone();
                model_step(&mut m2, l);
                let mut h2 = h.clone();
                h2.push(*l);
                out.push(h2.clone());
                next.push((h2, m2));
            }
        }
        level = next;
    }
    out
}

fn model_final(h: &[Letter]) -> (FinalState, Model) {
    let mut m = Model::new();
    for l in h {
        model_step(&mut m, l);
    }
    (m.final_state(), m)
}

fn worker_root(base: &Path) -> PathBuf {
    let i = rayon::current_thread_index().unwrap_or(9999);
    base.join(format!("w{i}"))
}

// ------------------------------------------------------------------------------- diff / signature

/// Per file: diagnostics only in `obs` ("+code") / only in `exp` ("-code"), by code (round 1 first).
fn diff_summary(exp: &Probes, obs: &Probes) -> String {
    let mut parts: BTreeSet<String> = BTreeSet::new();
    let names: BTreeSet<&String> = exp.diags.keys().chain(obs.diags.keys()).collect();
    for n in names {
        let e = exp.diags.get(n);
        let o = obs.diags.get(n);
        let rounds = e.map(|x| x.len()).unwrap_or(0).max(o.map(|x| x.len()).unwrap_or(0));
        for r in 0..rounds {
            let ed = e.and_then(|x| x.get(r)).cloned().flatten();
            let od = o.and_then(|x| x.get(r)).cloned().flatten();
            if ed == od {
                continue;
            }
            let file = n.trim_end_matches(".veryl");
            match (&ed, &od) {
                (Some(ed), Some(od)) => {
                    for d in od {
                        if !ed.contains(d) {
                            parts.insert(format!("{file}:+{}", short_code(d)));
                        }
                    }
                    for d in ed {
                        if !od.contains(d) {
                            parts.insert(format!("{file}:-{}", short_code(d)));
                        }
                    }
                }
                (None, Some(_)) => {
                    parts.insert(format!("{file}:fresh-published-nothing"));
                }
                (Some(_), None) => {
                    parts.insert(format!("{file}:published-nothing"));
                }
                (None, None) => {}
            }
        }
    }
    if exp.symbols != obs.symbols {
        let extra = obs.symbols.iter().filter(|x| !exp.symbols.contains(x)).count();
        let missing = exp.symbols.iter().filter(|x| !obs.symbols.contains(x)).count();
        if extra > 0 {
            parts.insert("symbols:+extra".into());
        }
        if missing > 0 {
            parts.insert("symbols:-missing".into());
        }
        if extra == 0 && missing == 0 {
            parts.insert("symbols:duplicates".into());
        }
    }
    if exp.refs != obs.refs {
        let mut extra = false;
        let mut missing = false;
        let keys: BTreeSet<&String> = exp.refs.keys().chain(obs.refs.keys()).collect();
        for k in keys {
            let e = exp.refs.get(k).cloned().unwrap_or_default();
            let o = obs.refs.get(k).cloned().unwrap_or_default();
            if o.iter().any(|x| !e.contains(x)) || o.len() > e.len() {
                extra = true;
            }
            if e.iter().any(|x| !o.contains(x)) || e.len() > o.len() {
                missing = true;
            }
        }
        if extra {
            parts.insert("references:+extra".into());
        }
        if missing {
            parts.insert("references:-missing".into());
        }
    }
    parts.into_iter().collect::<Vec<_>>().join(",")
}

fn short_code(d: &Diag) -> String {
    let code = if d.code.is_empty() {
        if d.message.starts_with("Syntax Error") { "syntax_error".into() } else { "nocode".to_string() }
    } else {
        d.code.rsplit("::").next().unwrap_or(&d.code).to_string()
    };
    // the identifier the message talks about, if any
    match d.message.split('"').nth(1) {
        Some(name) if !d.message.starts_with("Syntax Error") => format!("{code}({name})"),
        _ => code,
    }
}

/// is `a` a (not necessarily contiguous) proper subsequence of `b`?
fn is_subseq(a: &[Letter], b: &[Letter]) -> bool {
    if a.len() >= b.len() {
        return false;
    }
    let mut i = 0;
    for l in b {
        if i < a.len() && a[i] == *l {
            i += 1;
        }
    }
    i == a.len()
}

#[derive(Clone)]
struct Failure {
    hist: Vec<Letter>,
    twin: &'static str, // "fresh" | "warm-cache"
    /// mechanistic classes that together reproduce the observation; empty = unexplained
    classes: Vec<String>,
    diff: String,
    fin: FinalState,
    expected: Probes,
    observed: Probes,
    /// twin == "left-behind": the anomalies (absolute oracle)
    anomalies: Vec<String>,
}

enum Outcome {
    /// not started: the wall-clock budget was exhausted (coverage shrinks, verdicts never change)
    OverBudget,
    Ok { nonempty: bool, sets: Vec<String>, warm_run: bool, restored_hint: bool },
    Fail(Vec<Failure>),
    Machinery(String),
}

struct Shared<'a> {
    base: PathBuf,
    stats: &'a Stats,
    cold: Mutex<HashMap<FinalState, Result<Probes, String>>>,
    warm: Mutex<HashMap<(FinalState, String), Result<Probes, String>>>,
    /// hypothesis twins used for classification: (disk+open, extra buffers opened first)
    hypo: Mutex<HashMap<(FinalState, Vec<(String, usize, Var)>), Result<Probes, String>>>,
    thorough: bool,
    deadline: std::time::Instant,
}

fn cold_of(sh: &Shared, fin: &FinalState) -> Result<Probes, String> {
    if let Some(r) = sh.cold.lock().unwrap().get(fin) {
        return r.clone();
    }
    let r = run_fresh(&worker_root(&sh.base), fin, &[], None, sh.stats);
    sh.cold.lock().unwrap().insert(fin.clone(), r.clone());
    r
}

fn cache_key(c: &BTreeMap<String, Vec<u8>>) -> String {
    let mut h = blake3::Hasher::new();
    for (k, v) in c {
        if k == "lock" || k.ends_with(".lock") {
            continue;
        }
        h.update(k.as_bytes());
        h.update(&[0]);
        h.update(&(v.len() as u64).to_le_bytes());
        h.update(v);
    }
    h.finalize().to_hex()[..24].to_string()
}

/// Coarser key for the warm-twin memo: what the manifest says per source (content hash, has
/// fragment, has diagnostics, dependents) but not the fragment bytes (which embed history-dependent
/// id numbers). Used where running one warm twin per history is unaffordable; stated in the evidence.
fn cache_shape_key(c: &BTreeMap<String, Vec<u8>>) -> String {
    let Some(m) = c.get("manifest.toml").and_then(|b| std::str::from_utf8(b).ok()) else {
        return cache_key(c);
    };
    let Ok(t) = m.parse::<toml::Value>() else {
        return cache_key(c);
    };
    let mut lines = vec![];
    if let Some(files) = t.get("files").and_then(|f| f.as_table()) {
        for (src, e) in files {
            let mut deps: Vec<String> = e
                .get("dependents")
                .and_then(|d| d.as_array())
                .map(|a| a.iter().filter_map(|x| x.as_str().map(|s| s.to_string())).collect())
                .unwrap_or_default();
            deps.sort();
            lines.push(format!(
                "{src}|{}|{}|{}|{:?}",
                e.get("hash").and_then(|h| h.as_str()).unwrap_or(""),
                e.get("fragment").is_some(),
                e.get("diagnostics").is_some(),
                deps
            ));
        }
    }
    lines.sort();
    hash_hex(lines.join("\n").as_bytes())
}

fn diag_set_key(p: &Probes) -> Vec<String> {
    let mut out = vec![];
    for (_n, rounds) in &p.diags {
        for r in rounds {
            if let Some(d) = r {
                out.push(format!("{d:?}"));
            }
        }
    }
    out
}

/// Diagnostics with the identifier named by `undefined_identifier` messages blanked (used only to
/// recognise the class `stale-name-table-key`).
fn normalise_undef(p: &Probes) -> Probes {
    let mut q = p.clone();
    for rounds in q.diags.values_mut() {
        for r in rounds.iter_mut().flatten() {
            for d in r.iter_mut() {
                if d.code.ends_with("undefined_identifier") {
                    d.message = "Semantic Error: <some path element> is undefined".into();
                }
            }
            r.sort();
        }
    }
    q
}

fn hypo_of(sh: &Shared, fin: &FinalState, ghosts: &[(String, usize, Var)]) -> Result<Probes, String> {
    if ghosts.is_empty() {
        return cold_of(sh, fin);
    }
    let key = (fin.clone(), ghosts.to_vec());
    if let Some(r) = sh.hypo.lock().unwrap().get(&key) {
        return r.clone();
    }
    let r = run_fresh(&worker_root(&sh.base), fin, ghosts, None, sh.stats);
    sh.hypo.lock().unwrap().insert(key, r.clone());
    r
}

/// Mechanistic classification of a confirmed history-vs-fresh mismatch. A set of classes is
/// accepted only if a *fresh* server that is put into the hypothesised state reproduces the
/// history server's complete observation (diagnostics, symbols, references); a different defect
/// therefore cannot end up under these signatures. Returns the component classes (empty =
/// unexplained).
///
///  * `closed-buffer-retained`: the server ignores didClose — a buffer the client closed stays in
///    the server's document map (and in `latest_change`) and keeps shadowing the file on disk.
///    Twin: a subset of the closed buffers (not open again; file deleted or different on disk) is
///    additionally opened with its last content.
///  * `rename-during-pending-background`: didRenameFiles is ignored while a background pass is
///    pending and the pending pass keeps its pre-rename path list, so the file is never analysed
///    under its new name. Twin: final disk without the files renamed in that window.
///  * `stale-name-table-key`: `SymbolTable::drop` leaves the empty `name_table` entry of a
///    dropped name behind and `resolve` treats "name known" differently from "name never seen",
///    so an unresolvable `Pkg::W` is reported as `"Pkg" is undefined` instead of `"W" is
///    undefined`. Recognised when the observation equals the twin's except for the identifier
///    named in `undefined_identifier` messages (same range, severity, code, count).
fn classify_hist_failure(sh: &Shared, run: &HistRun) -> Vec<String> {
    let mut cands: Vec<(String, usize, Var)> = run
        .ghosts
        .iter()
        .filter(|(n, f, v)| {
            !run.fin.open.contains_key(n)
                && match run.fin.disk.get(n) {
                    Some((df, dv)) => df == f && dv != v,
                    None => true,
                }
        })
        .cloned()
        .collect();
    cands.sort();
    cands.dedup();
    // candidate sets of never-analysed files: subsets of the files renamed while a pass was
    // pending (a file renamed back to a name the pending pass still lists does get analysed)
    let un: Vec<String> = run.unanalyzed.iter().filter(|n| run.fin.disk.contains_key(*n)).cloned().collect();
    let mut fins: Vec<(FinalState, bool)> = vec![(run.fin.clone(), false)];
    {
        let k = un.len().min(3);
        let mut masks: Vec<u32> = (1..(1u32 << k)).collect();
        masks.sort_by_key(|m| std::cmp::Reverse(m.count_ones()));
        for m in masks {
            let mut f = run.fin.clone();
            for i in 0..k {
                if m & (1 << i) != 0 {
                    f.disk.remove(&un[i]);
                }
            }
            fins.push((f, true));
        }
    }
    // ghost subsets, larger first
    let mut subsets: Vec<Vec<(String, usize, Var)>> = vec![];
    let n = cands.len().min(4);
    let mut masks: Vec<u32> = (0..(1u32 << n)).collect();
    masks.sort_by_key(|m| std::cmp::Reverse(m.count_ones()));
    for m in masks {
        subsets.push((0..n).filter(|i| m & (1 << i) != 0).map(|i| cands[i].clone()).collect());
    }
    let observed_norm = normalise_undef(&run.probes);
    let mut fallback: Option<Vec<String>> = None;
    for (fin, absent) in &fins {
        let absent = *absent;
        for g in &subsets {
            let Ok(p) = hypo_of(sh, fin, g) else { continue };
            let mut classes = vec![];
            if !g.is_empty() {
                classes.push("closed-buffer-retained".to_string());
            }
            if absent {
                classes.push("rename-during-pending-background".to_string());
            }
            if p == run.probes {
                if classes.is_empty() {
                    continue; // equals the plain fresh twin: cannot happen for a failure
                }
                return classes;
            }
            if fallback.is_none() && normalise_undef(&p) == observed_norm {
                classes.push("stale-name-table-key".to_string());
                fallback = Some(classes);
            }
        }
    }
    fallback.unwrap_or_default()
}

fn check_history(sh: &Shared, hist: &[Letter]) -> Outcome {
    if std::time::Instant::now() > sh.deadline {
        return Outcome::OverBudget;
    }
    let root = worker_root(&sh.base);
    let run = match run_history(&root, hist, sh.stats) {
        Ok(r) => r,
        Err(e) if e.contains("server panicked") => {
            // The server thread died: nothing is published any more, while a fresh server on the
            // same buffers works (checked below). Believed only if it reproduces at the same place.
            let loc = panic_location(&e);
            let again = run_history(&root, hist, sh.stats);
            let fin = model_final(hist).0;
            return match (again, cold_of(sh, &fin)) {
                (Err(e2), Ok(cold)) if e2.contains("server panicked") && panic_location(&e2) == loc => {
                    Outcome::Fail(vec![Failure {
                        hist: hist.to_vec(),
                        twin: "panic",
                        classes: vec![],
                        diff: loc,
                        fin,
                        expected: cold,
                        observed: Probes::default(),
                        anomalies: vec![e],
                    }])
                }
                (_, Err(ce)) => Outcome::Machinery(format!("fresh twin for {}: {ce}", hist_json(hist))),
                (other, _) => Outcome::Machinery(format!(
                    "NONDETERMINISM: history {} panicked once ({e}) but not again ({})",
                    hist_json(hist),
                    other.err().unwrap_or_else(|| "ran through".into())
                )),
            };
        }
        Err(e) => return Outcome::Machinery(format!("history {}: {e}", hist_json(hist))),
    };
    let cold = match cold_of(sh, &run.fin) {
        Ok(p) => p,
        Err(e) => return Outcome::Machinery(format!("fresh twin for {}: {e}", run.fin.to_json())),
    };
    let over = || std::time::Instant::now() > sh.deadline;
    let mut fails = vec![];
    if run.probes != cold {
        if over() {
            return Outcome::OverBudget; // confirming + classifying takes several more server runs
        }
        // reproduce both sides once before believing it
        let again = run_history(&root, hist, sh.stats);
        let cold2 = run_fresh(&root, &run.fin, &[], None, sh.stats);
        match (again, cold2) {
            (Ok(a), Ok(c2)) if a.probes == run.probes && c2 == cold => {}
            (a, c2) => {
                return Outcome::Machinery(format!(
                    "NONDETERMINISM: history {} did not reproduce: hist1={} hist2={} fresh1={} fresh2={}",
                    hist_json(hist),
                    probes_json(&run.probes),
                    a.map(|x| probes_json(&x.probes).to_string()).unwrap_or_else(|e| e),
                    probes_json(&cold),
                    c2.map(|x| probes_json(&x).to_string()).unwrap_or_else(|e| e),
                ));
            }
        }
        let classes = classify_hist_failure(sh, &run);
        fails.push(Failure {
            hist: hist.to_vec(),
            twin: "fresh",
            classes,
            diff: diff_summary(&cold, &run.probes),
            fin: run.fin.clone(),
            expected: cold.clone(),
            observed: run.probes.clone(),
            anomalies: vec![],
        });
    }
    // absolute oracle: nothing left behind in the symbol / reference tables
    if !run.left_behind.is_empty() {
        let mut kinds: BTreeSet<&str> = BTreeSet::new();
        for a in &run.left_behind {
            let stale = a.contains("current text there");
            kinds.insert(match (a.contains("symbol "), stale) {
                (true, true) if !a.contains("reference to") => "symbol-stale",
                (true, false) if !a.contains("reference to") => "symbol-duplicate",
                (_, true) => "reference-stale",
                (_, false) => "reference-duplicate",
            });
        }
        fails.push(Failure {
            hist: hist.to_vec(),
            twin: "left-behind",
            classes: vec![],
            diff: kinds.into_iter().collect::<Vec<_>>().join("+"),
            fin: run.fin.clone(),
            expected: Probes::default(),
            observed: run.probes.clone(),
            anomalies: run.left_behind.clone(),
        });
    }
    // warm twin
    let mut warm_run = false;
    let has_cache = run.cache_ls.keys().any(|k| k != "lock");
    if has_cache && over() {
        return Outcome::OverBudget;
    }
    if has_cache {
        let exact = sh.thorough && hist.len() <= 3;
        let key = (run.fin.clone(), if exact { cache_key(&run.cache_ls) } else { cache_shape_key(&run.cache_ls) });
        let memo = sh.warm.lock().unwrap().get(&key).cloned();
        let warm = match memo {
            Some(w) => w,
            None => {
                warm_run = true;
                let w = run_fresh(&root, &run.fin, &[], Some(&run.cache_ls), sh.stats);
                sh.warm.lock().unwrap().insert(key, w.clone());
                w
            }
        };
        match warm {
            Err(e) => return Outcome::Machinery(format!("warm twin after {}: {e}", hist_json(hist))),
            Ok(w) => {
                if w != cold {
                    let w2 = run_fresh(&root, &run.fin, &[], Some(&run.cache_ls), sh.stats);
                    if w2.as_ref().ok() != Some(&w) {
                        return Outcome::Machinery(format!(
                            "NONDETERMINISM: warm twin after {} did not reproduce",
                            hist_json(hist)
                        ));
                    }
                    fails.push(Failure {
                        hist: hist.to_vec(),
                        twin: "warm-cache",
                        classes: vec![],
                        diff: diff_summary(&cold, &w),
                        fin: run.fin.clone(),
                        expected: cold.clone(),
                        observed: w,
                        anomalies: vec![],
                    });
                }
            }
        }
    }
    if !fails.is_empty() {
        return Outcome::Fail(fails);
    }
    let sets = diag_set_key(&run.probes);
    let nonempty = run.probes.diags.values().any(|r| r.iter().any(|d| d.as_ref().map(|x| !x.is_empty()).unwrap_or(false)));
    let _ = run.letters_delivered;
    Outcome::Ok { nonempty, sets, warm_run, restored_hint: has_cache }
}

/// "crates/<crate>/src/<file>.rs:<line>" of a panic message (stable across checkouts).
fn panic_location(e: &str) -> String {
    let Some(i) = e.find("panicked at ") else {
        return "unknown".into();
    };
    let rest = &e[i + "panicked at ".len()..];
    let path = rest.split_whitespace().next().unwrap_or("");
    let path = path.trim_end_matches(':');
    let mut parts: Vec<&str> = path.split(':').collect();
    if parts.len() >= 3 {
        parts.truncate(2); // file:line (drop the column)
    }
    let p = parts.join(":");
    match p.find("crates/") {
        Some(j) => p[j + "crates/".len()..].to_string(),
        None => p,
    }
}

fn unexplained_signature(f: &Failure) -> String {
    if f.twin == "panic" {
        return format!("C07:server-panic:{}", f.diff);
    }
    if f.twin == "left-behind" {
        return format!("C07:left-behind:{}", f.diff);
    }
    let kinds: Vec<String> = f.hist.iter().map(letter_kind).collect();
    format!("C07:{}:[{}]:{}", f.twin, kinds.join(" "), f.diff)
}

// ------------------------------------------------------------------------------- run

pub fn run(ctx: &Ctx) -> Report {
    let mut rep = Report::new(Level::ModelChecking);
    let budget = ctx.budget(40.0, 1450.0);
    let stats = Stats { messages: AtomicU64::new(0), servers: AtomicU64::new(0), bg_steps: AtomicU64::new(0) };

    if !ls_bin().is_file() {
        rep.machinery(format!("{} not built", ls_bin().display()));
        return rep;
    }

    let env_depth = std::env::var("VMC_C07_DEPTH").ok().and_then(|x| x.parse::<usize>().ok());
    let all_vars = VARS.to_vec();
    let stages: Vec<Bounds> = if ctx.thorough() {
        // ordered by value per second: the budget may cut the later stages
        vec![
            Bounds {
                depth: 3,
                files: vec![FA, FB, FP],
                vars: all_vars.clone(),
                without: vec![],
                label: "3 files, full alphabet",
            },
            Bounds {
                depth: 5,
                files: vec![FA, FB],
                vars: vec![Var::V0, Var::Rename],
                without: vec!["save", "delete", "rename"],
                label: "2 files (a,b), open/change{v0,rename}/close/bg only",
            },
            Bounds {
                depth: 4,
                files: vec![FA, FB],
                vars: all_vars.clone(),
                without: vec![],
                label: "2 files (a,b), full alphabet",
            },
            Bounds {
                depth: env_depth.unwrap_or(4),
                files: vec![FA, FB, FP],
                vars: all_vars.clone(),
                without: vec![],
                label: "3 files, full alphabet",
            },
        ]
    } else {
        // ordered by value per second: the budget may cut the last stage
        vec![
            Bounds {
                depth: 2,
                files: vec![FA, FB, FP],
                vars: all_vars.clone(),
                without: vec![],
                label: "3 files, full alphabet",
            },
            Bounds {
                depth: 4,
                files: vec![FA, FB],
                vars: vec![Var::V0, Var::Rename],
                without: vec!["save", "delete", "rename", "bg"],
                label: "2 files (a,b), open/change{v0,rename}/close only",
            },
            Bounds {
                depth: env_depth.unwrap_or(3),
                files: vec![FA, FB, FP],
                vars: all_vars.clone(),
                without: vec![],
                label: "3 files, full alphabet",
            },
        ]
    };

    let stages: Vec<Bounds> = match std::env::var("VMC_C07_ONLY_STAGE").ok().and_then(|x| x.parse::<usize>().ok()) {
        Some(i) if i < stages.len() => {
            rep.notes.push(format!("development run: only stage {i} (VMC_C07_ONLY_STAGE)"));
            let mut st: Vec<Bounds> = stages.into_iter().skip(i).take(1).collect();
            if let Some(d) = env_depth {
                st[0].depth = d;
            }
            st
        }
        _ => stages,
    };
    if std::env::var("VMC_C07_COUNT").is_ok() {
        let _ = CALIB.set(Calib { close_msgs: 0, save_msgs: 0, rename_queues_when_pending: false });
        for b in &stages {
            let all = enumerate(b);
            let mut by: BTreeMap<usize, (u64, BTreeSet<FinalState>)> = BTreeMap::new();
            for h in &all {
                let e = by.entry(h.len()).or_default();
                e.0 += 1;
                e.1.insert(model_final(h).0);
            }
            for (d, (n, f)) in &by {
                eprintln!("{} depth {d}: {n} histories, {} distinct final states", b.label, f.len());
            }
        }
        rep.machinery("count only");
        return rep;
    }

    let sh = Shared {
        base: ctx.dir("ls"),
        stats: &stats,
        cold: Mutex::new(HashMap::new()),
        warm: Mutex::new(HashMap::new()),
        hypo: Mutex::new(HashMap::new()),
        thorough: ctx.thorough(),
        deadline: ctx.start + std::time::Duration::from_secs_f64(budget),
    };

    // gate self-test + calibration: the hook must be compiled in, otherwise nothing below is controlled
    match calibrate(&sh.base.join("calib"), &stats) {
        Ok(c) => {
            let _ = CALIB.set(c);
            rep.set(
                "calibration",
                json!({
                    "msgs_per_didClose": c.close_msgs,
                    "msgs_per_didSave": c.save_msgs,
                    "didRename_queues_pass_while_pending": c.rename_queues_when_pending,
                }),
            );
        }
        Err(e) => {
            rep.machinery(format!(
                "LS gate self-test failed (is veryl-ls built with --cfg veryl_verif and the ls-gate hook applied?): {e}"
            ));
            return rep;
        }
    }

    let mut done: BTreeSet<Vec<Letter>> = BTreeSet::new();
    let mut failures: Vec<Failure> = vec![];
    let mut histories = 0u64;
    let mut nonempty = 0u64;
    let mut warm_runs = 0u64;
    let mut with_cache = 0u64;
    let mut distinct_sets: BTreeSet<String> = BTreeSet::new();
    let mut capped = false;
    let mut stage_reports = vec![];
    let mut machinery: Vec<String> = vec![];
    let mut nontrivial = 0u64;
    let mut skipped_nothing_open = 0u64;
    let mut full_depth_requested = 0u64;
    let mut full_depth_completed = 0u64;

    'stages: for b in &stages {
        let all = enumerate(b);
        let mut by_depth: BTreeMap<usize, Vec<Vec<Letter>>> = BTreeMap::new();
        for h in all {
            if done.contains(&h) {
                continue;
            }
            if model_final(&h).0.open.is_empty() {
                // nothing to publish diagnostics for; every such history is a prefix of explored ones
                skipped_nothing_open += 1;
                done.insert(h);
                continue;
            }
            by_depth.entry(h.len()).or_default().push(h);
        }
        let mut stage_hist = 0u64;
        // one flat work list per stage, shortest histories first (shard order within a level may
        // depend on the seed, the set never does)
        let mut flat: Vec<Vec<Letter>> = vec![];
        let mut remaining: BTreeMap<usize, usize> = BTreeMap::new();
        for (d, hs) in &by_depth {
            let mut hs = hs.clone();
            if ctx.seed != 0 {
                let k = (ctx.seed as usize) % hs.len().max(1);
                hs.rotate_left(k);
            }
            remaining.insert(*d, hs.len());
            flat.extend(hs);
        }
        for chunk in flat.chunks(128) {
            if ctx.elapsed() > budget {
                capped = true;
                break;
            }
            let res = par_map(chunk, |h| check_history(&sh, h));
            if std::env::var("VMC_PROGRESS").is_ok() {
                eprintln!(
                    "[C07] {} up to depth {}: {} histories done, {} failing so far, {:.0}s",
                    b.label,
                    chunk.last().map(|h| h.len()).unwrap_or(0),
                    histories + chunk.len() as u64,
                    failures.len(),
                    ctx.elapsed()
                );
            }
            for (h, r) in chunk.iter().zip(res) {
                if matches!(r, Outcome::OverBudget) {
                    capped = true;
                    continue;
                }
                histories += 1;
                stage_hist += 1;
                done.insert(h.clone());
                if let Some(r) = remaining.get_mut(&h.len()) {
                    *r -= 1;
                }
                let (_, m) = model_final(h);
                let has_change_after_open = h.iter().any(|l| matches!(l, Letter::Change(..)));
                let has_bg = h.iter().any(|l| matches!(l, Letter::Bg | Letter::BgAll));
                if has_change_after_open && has_bg {
                    nontrivial += 1;
                }
                let _ = m;
                match r {
                    Outcome::Ok { nonempty: ne, sets, warm_run, restored_hint } => {
                        if ne {
                            nonempty += 1;
                        }
                        if warm_run {
                            warm_runs += 1;
                        }
                        if restored_hint {
                            with_cache += 1;
                        }
                        for s in sets {
                            distinct_sets.insert(hash_hex(s.as_bytes()));
                        }
                        if histories % 97 == 1 {
                            rep.sample(json!({"history": hist_json(h), "verdict": "equal to fresh server"}));
                        }
                    }
                    Outcome::Fail(fs) => {
                        for f in &fs {
                            for s in diag_set_key(&f.observed) {
                                distinct_sets.insert(hash_hex(s.as_bytes()));
                            }
                        }
                        failures.extend(fs);
                    }
                    Outcome::OverBudget => {}
                    Outcome::Machinery(e) => {
                        if machinery.len() < 10 {
                            machinery.push(e);
                        }
                    }
                }
            }
            if !machinery.is_empty() {
                break 'stages;
            }
        }
        // a level is complete when every history of it was run (now or by an earlier stage) or
        // skipped for having no open file at the end
        let mut completed_depth = 0usize;
        for d in 1..=b.depth {
            if remaining.get(&d).copied().unwrap_or(0) == 0 {
                completed_depth = d;
            } else {
                break;
            }
        }
        if b.files.len() == NFILES && b.without.is_empty() && b.vars.len() == VARS.len() {
            full_depth_requested = full_depth_requested.max(b.depth as u64);
            full_depth_completed = full_depth_completed.max(completed_depth as u64);
        }
        stage_reports.push(json!({
            "alphabet": b.label,
            "depth_requested": b.depth,
            "depth_completed": completed_depth,
            "histories_run_in_stage": stage_hist,
        }));
        if capped {
            break;
        }
    }

    // ---- group failures ---------------------------------------------------------------------
    // explained: one signature per mechanistic class (a history showing two defects counts for
    // both); unexplained: the subsequence-minimal unexplained failing history carries the signature
    let mut by_sig: BTreeMap<String, Vec<&Failure>> = BTreeMap::new();
    for f in &failures {
        if !f.classes.is_empty() {
            for c in &f.classes {
                by_sig.entry(format!("C07:{c}")).or_default().push(f);
            }
            continue;
        }
        let minimal = failures
            .iter()
            .filter(|g| {
                g.twin == f.twin && g.classes.is_empty() && (g.hist == f.hist || is_subseq(&g.hist, &f.hist))
            })
            .min_by_key(|g| (g.hist.len(), g.hist.clone()))
            .unwrap();
        by_sig.entry(unexplained_signature(minimal)).or_default().push(f);
    }
    for (sig, fs) in &by_sig {
        let f = fs.iter().min_by_key(|g| (g.hist.len(), g.hist.clone())).unwrap();
        rep.violation(Violation {
            signature: sig.clone(),
            what: if f.twin == "panic" {
                format!(
                    "after history {} the server thread panics ({}) and never publishes diagnostics again, while a fresh server on the same buffers and disk works; {} failing histories share this signature",
                    hist_json(&f.hist),
                    f.diff,
                    fs.len()
                )
            } else if f.twin == "left-behind" {
                format!(
                    "after history {} the server's symbol/reference tables (workspace/symbol, textDocument/references) hold left-behind entries ({}): {}; {} failing histories share this signature",
                    hist_json(&f.hist),
                    f.diff,
                    f.anomalies.first().cloned().unwrap_or_default(),
                    fs.len()
                )
            } else {
                format!(
                    "after history {} the {} publishes different diagnostics than a fresh server on the same buffers and disk ({}); {} failing histories share this signature",
                    hist_json(&f.hist),
                    if f.twin == "fresh" { "server" } else { "fresh server started on the history's .build/cache-ls" },
                    f.diff,
                    fs.len()
                )
            },
            case: json!({
                "engine": "E3-ls",
                "history": hist_json(&f.hist),
                "twin": f.twin,
                "classes": f.classes,
                "final_state": f.fin.to_json(),
                "failing_histories_with_signature": fs.len(),
                "other_failing_histories": fs.iter().skip(1).take(12).map(|g| hist_json(&g.hist)).collect::<Vec<_>>(),
            }),
            expected: if f.twin == "left-behind" {
                json!("no symbol or reference listed twice or pointing at text that is not the identifier")
            } else {
                probes_json(&f.expected)
            },
            observed: if f.twin == "left-behind" || f.twin == "panic" { json!(f.anomalies) } else { probes_json(&f.observed) },
        });
    }
    if let Ok(p) = std::env::var("VMC_C07_DUMP") {
        let all: Vec<Value> = failures
            .iter()
            .map(|f| json!({"history": hist_json(&f.hist), "twin": f.twin, "classes": f.classes, "diff": f.diff}))
            .collect();
        let _ = std::fs::write(p, serde_json::to_string_pretty(&all).unwrap());
    }

    let cold_states = sh.cold.lock().unwrap().len() as u64;
    rep.set("states", histories);
    rep.set("transitions", stats.messages.load(Ordering::Relaxed));
    rep.set("traces_validated_against_impl", histories);
    rep.set("histories", histories);
    rep.set("skipped_histories_no_open_file_at_end", skipped_nothing_open);
    rep.set(
        "warm_twin_memo",
        "thorough depth<=3: keyed by final state + all cache-ls bytes; otherwise by final state + manifest shape (per source: content hash, has fragment, has diagnostics, dependents)",
    );
    rep.set("server_processes_started", stats.servers.load(Ordering::Relaxed));
    rep.set("background_steps_granted", stats.bg_steps.load(Ordering::Relaxed));
    rep.set("distinct_final_states_fresh_twins", cold_states);
    rep.set("warm_cache_twins_run", warm_runs);
    rep.set("histories_leaving_ls_cache", with_cache);
    rep.set("histories_with_nonempty_diagnostics", nonempty);
    rep.set("histories_nontrivial_change_and_bg", nontrivial);
    rep.set("distinct_diagnostic_sets", distinct_sets.len() as u64);
    rep.set("failing_histories", failures.len() as u64);
    rep.set("stages", json!(stage_reports));
    rep.set("depth_requested", full_depth_requested);
    rep.set("depth_completed", full_depth_completed);
    rep.set("capped_by_budget", capped);
    rep.set("exhaustive", !capped && machinery.is_empty());
    rep.set("probe_rounds", ROUNDS as u64);
    rep.set(
        "rule",
        "every enabled history of letters open/change(6 variants)/save/close/rename/delete/bg/bg* up to the stated depth on a 3-file project is run on a real gated veryl-ls process; after background completion two rounds of no-op didChange probes per open file are compared with a fresh server on the final disk + buffers (cold) and with a fresh server keeping the history's .build/cache-ls (warm)",
    );
    rep.assume("LS gate hook (cfg veryl_verif, env VERYL_VERIF_LS_GATE) only delays background steps and logs idle markers; message handling code is untouched");
    rep.assume("pruning: change to the current text, save of an unmodified buffer, open of an open/deleted file, close of a closed file, bg without pending work are not letters; rename(f) toggles f.veryl <-> f_r.veryl and, when f is open, is followed by didClose(old)+didOpen(new) as editors do; delete(f) closes an open f");
    rep.assume("barriers for messages without server-side handler (didSave, didClose, initialized) are workspace/symbol requests with a non-matching query (read-only on the server thread)");
    for e in machinery {
        rep.machinery(e);
    }
    // vacuity: the complete depth-2 level alone yields 11 distinct sets on the pinned tree
    let need = if full_depth_completed >= 2 { 4 } else { 2 };
    if histories > 0 && failures.is_empty() && distinct_sets.len() < need {
        rep.machinery(format!("vacuity guard: fewer than {need} distinct diagnostic sets observed"));
    }
    if histories == 0 {
        rep.machinery("vacuity guard: no history was run");
    }
    rep
}

pub fn replay(doc: &Value) -> i32 {
    let Some(hist) = doc["case"]["history"].as_array() else {
        eprintln!("no history in replay file");
        return 2;
    };
    let mut letters = vec![];
    for h in hist {
        match parse_letter(h.as_str().unwrap_or("")) {
            Some(l) => letters.push(l),
            None => {
                eprintln!("unknown letter {h}");
                return 2;
            }
        }
    }
    let ctx = Ctx::new("C07-replay", Tier::Quick);
    let stats = Stats { messages: AtomicU64::new(0), servers: AtomicU64::new(0), bg_steps: AtomicU64::new(0) };
    let root = ctx.dir("r");
    match calibrate(&root, &stats) {
        Ok(c) => {
            let _ = CALIB.set(c);
            println!("calibration: {c:?}");
        }
        Err(e) => {
            eprintln!("machinery: {e}");
            return 2;
        }
    }
    let run = match run_history(&root, &letters, &stats) {
        Ok(r) => r,
        Err(e) if e.contains("server panicked") => {
            println!("history: {}", hist_json(&letters));
            println!("still failing: the server thread panics at {} — {e}", panic_location(&e));
            return 1;
        }
        Err(e) => {
            eprintln!("machinery: {e}");
            return 2;
        }
    };
    let cold = match run_fresh(&root, &run.fin, &[], None, &stats) {
        Ok(r) => r,
        Err(e) => {
            eprintln!("machinery: {e}");
            return 2;
        }
    };
    let mut code = 0;
    println!("history: {}", hist_json(&letters));
    println!("final state: {}", run.fin.to_json());
    println!("history server : {}", probes_json(&run.probes));
    println!("fresh server   : {}", probes_json(&cold));
    if run.probes != cold {
        println!("still failing (history vs fresh): {}", diff_summary(&cold, &run.probes));
        code = 1;
    }
    if run.cache_ls.keys().any(|k| k != "lock") {
        match run_fresh(&root, &run.fin, &[], Some(&run.cache_ls), &stats) {
            Ok(w) => {
                println!("warm-cache twin: {}", probes_json(&w));
                if w != cold {
                    println!("still failing (warm vs cold): {}", diff_summary(&cold, &w));
                    code = 1;
                }
            }
            Err(e) => {
                eprintln!("machinery: {e}");
                return 2;
            }
        }
    }
    if code == 0 {
        println!("history passes");
    }
    code
}
